"""C05 -- each column type stores one normal form on every write path."""
import csv
import json
import math
import os
import shutil
import tempfile
import warnings
from decimal import Decimal
from fractions import Fraction

import numpy as np

import coqlit as L
import pyobs

KINDS = ['KMixed', 'KFloat', 'KInt']
PATHS = ['WholeScalar', 'WholeSeq', 'CellInt', 'SliceScalar', 'SliceSeq', 'IndexList', 'Selection',
         'RowAttr', 'CtorKeyword', 'ConcatDM', 'ConcatDict', 'CsvRead', 'FromCol:KMixed', 'FromCol:KFloat',
         'FromCol:KInt', 'IndexListNp', 'SelectionNp', 'SliceNp', 'WholeNp', 'ConcatFromCol:KMixed',
         'ConcatFromCol:KFloat', 'ConcatFromCol:KInt', 'WholeTuple', 'WholeGen', 'SliceGen', 'IndexListTuple',
         'SelectionGen']
# other iterables as values go through the same element-wise branch as lists: the L1 path they are compared with
PROXY = {'WholeTuple': 'WholeSeq', 'WholeGen': 'WholeSeq', 'SliceGen': 'SliceSeq', 'IndexListTuple': 'IndexList',
         'SelectionGen': 'IndexList'}


def json_key(x):
    return json.dumps(x, sort_keys=True, ensure_ascii=True)


def safe_json(v):
    """pyobs.jsonable for whatever a column hands out (never raises)"""
    try:
        return pyobs.jsonable(v)
    except Exception:       # noqa: BLE001
        return {'object': type(v).__name__}


def work_dir():
    """scratch directory: the private one of tools/mutant_check.sh if set, else /verif/.work"""
    return os.environ.get('VERIF_WORK') or os.path.join(os.path.dirname(os.path.dirname(os.path.abspath(__file__))),
                                                        '.work')


def coltype(kind):
    from datamatrix import MixedColumn, FloatColumn, IntColumn
    return {'KMixed': MixedColumn, 'KFloat': FloatColumn, 'KInt': IntColumn}[kind]


class Obj(object):
    pass


# ---- reading a cell back ---------------------------------------------------------------------------------------
# "reading a cell back yields a plain Python value of the promised type": every case reads the written cell in
# these basic ways (all must agree and be plain int / float / str / None) ...
BASIC_READS = ['col[i]', 'list(col)[i]', 'row.name', 'row[name]', 'col[i-n]', 'row[int]', 'iter(row)']


def row_pairs(row, name='c'):
    """the value that iteration over a Row pairs with the column name"""
    got = [val for nm, val in row if nm == name]
    if len(got) != 1:
        raise LookupError('iteration over the Row yields column %r %d times' % (name, len(got)))
    return got[0]


def basic_reads(dm, pos, name='c'):
    col = dm[name]
    row = dm[pos]
    return (col[pos], list(col)[pos], getattr(row, name), row[name], col[pos - len(dm)],
            row[dm.column_names.index(name)], row_pairs(row, name))


def describe_reads(labels, values):
    return ', '.join('%s -> %s %r' % (l, type(v).__name__, v) for l, v in zip(labels, values))


# ... and the family Read/<state>/<group> reads one written cell through every other way the library offers:
# derived columns (slices, index lists, selections, the column indexed by its table), Rows handed out by iterating
# over the table, Rows and columns of derived tables (slice, index list, selection, copy, sort, a << empty).
READ_GROUPS = ['direct', 'rows', 'subcol', 'subtable']
READ_EXTRA_STATES = ['perm', 'permSelect']


def deep_reads(dm, pos, group, name='c'):
    """-> list of (label, value) for cell `pos` of column `name` (the table has a key column k with distinct cells)"""
    from datamatrix import DataMatrix, operations as ops
    n = len(dm)
    col = dm[name]
    kv = dm.k[pos]
    out = []
    if group == 'direct':
        out.append(('col[i]', col[pos]))
        out.append(('col[i-n]', col[pos - n]))
        out.append(('list(col)[i]', list(col)[pos]))
        out.append(('[x for x in col][i]', [x for x in col][pos]))
        out.append(('tuple(col)[i]', tuple(col)[pos]))
        out.append(('next(iter)', [x for j, x in enumerate(iter(col)) if j == pos][0]))
        out.append(('reversed', list(reversed(list(col)))[n - 1 - pos]))
        out.append(('dm[name][i]', dm[name][pos]))
        out.append(('dm[colobj][i]', dm[col][pos]))
        out.append(('getattr(dm, name)[i]', getattr(dm, name)[pos]))
        out.append(('columns', dict(dm.columns)[name][pos]))
        out.append(('zip(cols)', list(zip(dm.k, col))[pos][1]))
    elif group == 'rows':
        row = dm[pos]
        out.append(('row.name', getattr(row, name)))
        out.append(('row[name]', row[name]))
        out.append(('row[int]', row[dm.column_names.index(name)]))
        out.append(('row[int-m]', row[dm.column_names.index(name) - len(dm.column_names)]))
        out.append(('iter(row)', row_pairs(row, name)))
        out.append(('dict(row)', dict(iter(row))[name]))
        out.append(('dm[i-n].name', getattr(dm[pos - n], name)))
        out.append(('iter(dm[i-n])', row_pairs(dm[pos - n], name)))
        rows = list(dm)
        out.append(('list(dm)[i].name', getattr(rows[pos], name)))
        out.append(('list(dm)[i][name]', rows[pos][name]))
        out.append(('iter(list(dm)[i])', row_pairs(rows[pos], name)))
        for j, r in enumerate(dm):
            if j == pos:
                out.append(('for row in dm: row.name', getattr(r, name)))
                out.append(('for row in dm: iter(row)', row_pairs(r, name)))
        sl = row.as_slice
        out.append(('row.as_slice.name[0]', sl[name][0]))
        out.append(('iter(row.as_slice[0])', row_pairs(sl[0], name)))
    elif group == 'subcol':
        out.append(('col[i:i+1][0]', col[pos:pos + 1][0]))
        out.append(('col[:][i]', col[:][pos]))
        out.append(('col[::-1]', col[::-1][n - 1 - pos]))
        out.append(('list(col[i:])[0]', list(col[pos:])[0]))
        out.append(('col[[i]][0]', col[[pos]][0]))
        out.append(('col[(i,)][0]', col[(pos,)][0]))
        out.append(('col[[i-n, i]][1]', col[[pos - n, pos]][1]))
        out.append(('list(col[[i]])[0]', list(col[[pos]])[0]))
        out.append(('col[np.array([i])][0]', col[np.array([pos])][0]))
        out.append(('col[dm][i]', col[dm][pos]))
        out.append(('col[dm.k == k][0]', col[dm.k == kv][0]))
        out.append(('list(col[dm.k == k])', list(col[dm.k == kv])[0]))
        out.append(('col[:][i:i+1][0]', col[:][pos:pos + 1][0]))
    elif group == 'subtable':
        subs = [('dm[i:i+1]', dm[pos:pos + 1], 0), ('dm[:]', dm[:], pos), ('dm[[i]]', dm[[pos]], 0),
                ('dm[[i, i-n]]', dm[[pos, pos - n]], 1), ('dm.k == k', dm.k == kv, 0),
                ('(dm.k == k) | (dm.k == k)', (dm.k == kv) | (dm.k == kv), 0), ('dm[::-1]', dm[::-1], n - 1 - pos),
                ('dm << DataMatrix()', dm << DataMatrix(), pos), ('dm[[name, k]]', dm[[name, 'k']], pos),
                ('dm[i:i+1] << dm[i:i+1]', dm[pos:pos + 1] << dm[pos:pos + 1], 1)]
        srt = ops.sort(dm, by=dm.k)
        subs.append(('ops.sort(dm, by=dm.k)', srt, list(srt.k).index(kv)))
        for label, sub, j in subs:
            out.append((label + '.name[j]', sub[name][j]))
            out.append(('list(%s.name)[j]' % label, list(sub[name])[j]))
            out.append((label + '[j].name', getattr(sub[j], name)))
            out.append(('iter(%s[j])' % label, row_pairs(sub[j], name)))
    else:
        raise AssertionError(group)
    return out


# ---- two-step sequences: a column object (cells 0, 1, 0) of any type through a column-valued form, then a plain
# value through a plain form; path = 'Two/<state>/<form of step 1>/<source>/<form of step 2>'
TWO_SOURCES = ['Stored.KMixed', 'Stored.KFloat', 'Stored.KInt', 'StoredSame.KMixed', 'StoredSame.KFloat',
               'StoredSame.KInt']


def two_values():
    return [1.5, None, 'x', float('nan'), ' 4.50 ', 2 ** 53 + 1, Obj(), 1.0, '3', float('inf'), np.float64(2.5), -0.0,
            '2.75', np.float32(0.5), True]


# ---- the CSV path: path = 'Csv/<dialect>/<position of the column>/<quoting>'
CSV_DIALECTS = {'comma': (',', '"'), 'semi': (';', '"'), 'tab': ('\t', '"'), 'pipe1': ('|', "'"), 'comma1': (',', "'")}
CSV_WHERE = ['only', 'first', 'middle', 'last']
CSV_QUOTING = ['min', 'all', 'crlf']


def csv_values():
    return [' x', 'x ', ' x ', '  two words', 'a b', '\tx', 'x\t', ' \tx', ' ', '  ', '\t', ' \t ', '', ' caf\u00e9',
            '\u3000x', '\xa0x', 'x\u3000', ' 12', '12 ', ' 1.5 ', ' nan', ' abc,def', 'abc, def', ' "q"', ' a;b', " it's",
            ' x\ny', 'x\n', '\nx', ' None', ' -', '- 1', ' 1 2', ' 0x10', '1e5 ', ' inf ', ' 1_000', ' \u00b2', ' a|b',
            'x', '1.5', '7']


def csv_values_small():
    return [' x', 'x ', ' ', '', ' \tx', ' abc,def', " it's", ' 12 ', '  two words']


def read_values():
    return [1, 2 ** 53 + 1, 2.5, 1.0, -0.0, float('nan'), float('inf'), ' 4.50 ', 'abc', '', None, np.int64(7),
            np.float32(1.5), True]


def read_values_small():
    return [2 ** 53 + 1, 2.5, float('nan'), ' 4.50 ', None]


# Outside the claim (like int64 overflow): an int or integer string beyond the float64 range written to a FloatColumn
# raises OverflowError (float(10**400) has no value); the generator leaves such inputs out for FloatColumns.
# (A former finding -- dm.name = <column derived from the same table> inserted by reference without coercion -- was
#  repaired in /repo: only a column that IS one of the table's columns is aliased; such writes are in the default stream.)

# ---- a column object as the assigned value -------------------------------------------------------------------
# how the target table (3 rows, column k = row number, column c of the kind under test) came to be
CV_STATES = ['fresh', 'cat', 'catL', 'catR', 'catRow', 'catEmptySelR', 'catEmptyDMR', 'catEmptyLen0R',
             'catEmptyDictR', 'catEmptyColsDictR', 'catEmptySelL', 'catEmptyDML', 'catEmptyTwice', 'slice', 'select',
             'resizeSame', 'grown', 'shrunk', 'shrunkGrown', 'sorted', 'rowDeleted']
# how the column object is written -> the form of Model/C05Paths.v
CV_FORMS = {'SliceAll': 'FSlice', 'Slice0n': 'FSlice', 'SlicePart': 'FSlice', 'SeqKey': 'FSeqKey',
            'SeqKeyPerm': 'FSeqKey', 'DmKey': 'FSeqKey', 'SetAttr': 'FSetCol', 'SetItem': 'FSetCol',
            'CtorKw': 'FSetCol'}
# where the column object comes from (its cell 1 is derived from the alphabet value)
CV_SOURCES = ['MapSame', 'MapOther', 'MapOtherSliced', 'ArithSame', 'ArithOther',
              'Stored.KMixed', 'Stored.KFloat', 'Stored.KInt',
              'StoredSame.KMixed', 'StoredSame.KFloat', 'StoredSame.KInt', 'StoredSameSliced.KMixed']
CV_SOURCES_QUICK = ['MapSame', 'ArithSame', 'MapOther', 'MapOtherSliced', 'ArithOther', 'Stored.KMixed', 'Stored.KFloat',
                    'Stored.KInt', 'StoredSame.KFloat', 'StoredSameSliced.KMixed']
NOFACTS = (False, False, True, False)
# table states x plain (non-column) values
AFTER_PATHS = ['CellInt', 'SliceScalar', 'SliceSeq', 'IndexList', 'Selection', 'RowAttr', 'WholeSeq', 'WholeScalar']


# ---- writes that address NO cell ------------------------------------------------------------------------------
# A scalar written through a form that addresses zero cells (empty selection / slice / index list, whole column of
# a zero-row table): _tosequence still evaluates the coercion of the scalar, so the accept / reject verdict must be
# the one of every other path (Spec/Table.rhs_cells with n = 0).  Path = 'Zero/<state>/<form>'.
# forms applied to a table in one of the CV_STATES (3 rows) or ZERO_EXTRA_STATES
ZERO_FORMS = ['EmptySel', 'EmptySelAnd', 'EmptySlice00', 'EmptySliceEnd', 'EmptySliceRev', 'EmptyList',
              'EmptyTuple', 'EmptyNpIndex', 'SelTableWhole', 'SelTableSetItem', 'SelTableSel', 'SelTableSliceAll',
              'SliceTableWhole', 'SliceTableSel', 'ShrunkWhole', 'ShrunkSel', 'ShrunkSliceAll', 'ShrunkList']
ZERO_EXTRA_STATES = ['perm', 'permSelect', 'len0', 'len0Cat', 'len0Sorted']
# forms that build their own zero-row table (state '-')
ZERO_CTOR_FORMS = ['Len0Ctor', 'Len0New', 'NoLenNew', 'Len0NewSetItem']
# quick tier: every form on these states, these forms on every state
ZERO_STATES_QUICK = ['fresh', 'cat', 'sorted', 'perm', 'permSelect', 'len0']
ZERO_FORMS_QUICK = ['EmptySel', 'EmptySelAnd', 'EmptyList', 'EmptySlice00', 'SelTableWhole', 'SelTableSel',
                    'ShrunkWhole', 'ShrunkSel']
ZERO_CORE = [('fresh', 'EmptySel'), ('fresh', 'EmptySlice00'), ('fresh', 'EmptyList'), ('len0', 'SelTableWhole'),
             ('perm', 'EmptySel'), ('-', 'Len0Ctor')]


def zero_values_small():
    return [1, 2.5, ' 4.50 ', 'abc', '', None, float('nan'), float('inf'), np.float64('nan'), np.int64(7), True,
            Obj(), 2 ** 53 + 1]


def cv_values():
    return [0, 1, -13, 2 ** 53 + 1, True, 0.0, -0.0, 1.0, 2.5, 1e22, float('nan'), float('inf'), np.int64(7),
            np.float64(4.0), np.float32(1.5), '3', ' 4 ', '3.0', '1e3', 'nan', 'abc', '', '\u00b2', None, Obj()]


def cv_values_small():
    return [2.0, Obj(), '3']


def alphabet(extended=False):
    ints = [0, 1, -1, 7, -13, 2**31 - 1, -2**31, 2**31, 2**53, 2**53 + 1, -(2**53) - 1, 2**53 - 1, 2**62 + 3,
            2**63 - 1, -(2**63) + 1]
    floats = [0.0, -0.0, 1.0, -3.0, 2.5, -0.75, 1e22, 1e23, 1.5e300, 5e-324, 2.2250738585072014e-308, 0.1,
              123456789.0, 9007199254740992.0, 9007199254740994.0, float('nan'), float('inf'), float('-inf'),
              4294967296.5]
    npv = [np.int8(-5), np.int16(300), np.int32(-70000), np.int64(2**53 + 1), np.uint8(200), np.int64(-2**62),
           np.float32(1.5), np.float32(3.0), np.float64(2.5), np.float64(4.0), np.float64('nan'), np.float32('inf'),
           np.float64(-0.0), np.float32(0.1)]
    strs = ['0', '1', '-1', '+5', ' 12 ', '\t7\n', '1_000', '007', '9007199254740993', '-9007199254740993',
            ' +9007199254740993 ', '1.0', '1.5', '-2.50', '1e3', '1E3', '1e-3', '.5', '5.', '1_0.5', 'nan', 'NaN',
            '-nan', 'inf', '-inf', 'Infinity', '+INFINITY', 'iNf', '1e400', '-1e400', '1e-400', '0x10', '1,5',
            '١٢', '٣.٥', '', ' ', 'abc', 'None', 'True', '1 2', '--1', '1e', 'e5', 'é', '日本', 'a"b', "it's",
            'x,y', 'line\nfeed', '12abc', '0.1', '123456789012345678901234567890', '1' * 30 + '.5', '-0', '-0.0',
            '4.0', '1e22', '1e23']
    # corner cases of Python's numeric string grammar (what int() / float() accept is not what str.isdigit(),
    # str.isnumeric() or a regular expression over ASCII digits accept)
    ext = [
        # isdigit() is true, int() raises: superscripts, circled digits, mixed with decimals
        '\u00b2', '\u2460\u2461', '\u00b9\u2070', 'm\u00b2', '1\u00b2', '\u2075',
        # isnumeric() only: vulgar fraction, roman numeral, CJK numerals
        '\u00bd', '\u2163', '\u4e00\u4e8c',
        # decimal digits of other scripts are legal: Arabic-Indic, fullwidth, Thai, Devanagari; also inside floats
        '\u0663', '\uff11\uff12', '\u0e53', '\u0967\u0968', '-\uff11\uff12', '\uff11\uff12.\uff15', '\uff11e\uff12',
        '\u0663\u0664\u0665\u0666\u0667\u0668\u0669\u0660\u0661\u0662\u0663\u0664\u0665\u0666\u0667\u0668\u0669',
        # Unicode whitespace around a number is stripped (ideographic space, no-break space, NEL); zero-width space is not
        '\u300012', '\xa012\xa0', '\x851', '\u200b12', '1\x00', '1 ', '\n1', ' 1.5\t', '\r\n2\r\n',
        # signs
        '+ 5', '- 1', '+-1', '-+1', '++1', '+0', '-.5', '+.5e1', '+1.', '+',  '-',
        # underscores: only between digits
        '_1', '1_', '1__0', '0_0', '1_000.5', '1e1_0', '1_e3', '1._5', '9_007_199_254_740_993',
        # prefixes, suffixes, other literals of the language that int()/float() reject
        '0b1', '0o7', '0X1F', '1L', '1j', '1f', '1d', '1e+3', '1E-0', '1e+', 'e', '.', '..5', '1.2.3', '1/2', '1,000',
        '00', '-00', '0e0', '-0e0', '0.0e-400',
        # nan / inf spellings
        ' nan ', 'NAN', '+nan', 'nan(0)', 'nann', 'infinity', '-Infinity', ' inf', 'Inf', 'infinit', 'in f', '+inf', 'INFINITY ',
        # magnitudes
        '1e308', '1.8e308', '-1.8e308', '1e309', '2e-324', '3e-324', '1' * 400, '-' + '9' * 310, '9' * 400 + '.5',
        '0.' + '0' * 400 + '1', '1' + '0' * 22, '18446744073709551616', '-9223372036854775808', '9223372036854775807',
    ]
    other = [None, True, False, Obj()]
    if extended:
        return ext
    return ints, floats, npv, strs, other


# the extended spellings exercise the per-cell chain; in the quick tier they go through these paths only
EXT_PATHS = ['WholeScalar', 'WholeSeq', 'CellInt', 'SliceSeq', 'Selection', 'RowAttr', 'CtorKeyword', 'ConcatDict',
             'CsvRead', 'FromCol:KMixed']


# ---- (8) HISTORY: the conversion is a function of the assigned value alone ------------------------------------
# Every judged write is preceded, in the same process, by writes (to the same column / to other columns of the same
# table / to columns of each type of another table) of values that compare (and hash) EQUAL to the judged value, or
# share its text, but are of another type or of another validity class.  The judged write must have the verdict and
# the stored value of the same write in isolation (a memo keyed by equality, by str() or by float() of the value, an
# exception remembered for an equal value, ... would show here).  The history is part of the input, so a replay in a
# fresh process repeats it.  Path = 'Hist/<class>/<scope>/<form of the judged write>'.
class EqObj(object):
    """an unsupported object that compares and hashes equal to a supported value"""

    def __init__(self, x):
        self.x = x

    def __eq__(self, other):
        return self.x == (other.x if isinstance(other, EqObj) else other)

    def __ne__(self, other):
        return not self.__eq__(other)

    def __hash__(self):
        return hash(self.x)

    def __repr__(self):
        return 'EqObj(%r)' % (self.x,)


HIST_SCOPES = ['same', 'sibling', 'other']
HIST_FORMS = ['CellInt', 'WholeScalar', 'WholeSeq', 'SliceSeq', 'IndexList', 'Selection', 'RowAttr', 'CtorKeyword',
              'ConcatDict', 'ConcatDM', 'SliceScalar', 'WholeTuple']


def hist_classes():
    big = 2 ** 53
    nan, inf = float('nan'), float('inf')
    return [
        ('one', [1, 1.0, True, np.bool_(True), complex(1, 0), np.float64(1), np.float32(1), np.int64(1), np.uint8(1),
                 Fraction(1), Decimal(1), '1', '1.0', ' 1 ', np.complex128(1), EqObj(1), np.str_('1')]),
        ('zero', [0, 0.0, False, -0.0, complex(0, 0), np.bool_(False), np.float64(-0.0), np.int64(0), '0', '-0.0',
                  Fraction(0), Decimal('-0'), EqObj(0), EqObj(0.0), complex(-0.0, 0.0)]),
        ('big', [big, float(big), big + 1, np.int64(big + 1), np.int64(big), np.float64(big), '9007199254740993',
                 '9007199254740992', '9007199254740992.0', Fraction(big + 1), Decimal(big + 1), complex(big, 0),
                 EqObj(big + 1), EqObj(float(big))]),
        ('frac', [2.5, np.float64(2.5), np.float32(2.5), complex(2.5, 0), Fraction(5, 2), Decimal('2.5'), '2.5',
                  ' 2.50 ', EqObj(2.5), np.complex128(2.5)]),
        ('tenth', [0.1, np.float32(0.1), np.float64(0.1), '0.1', Decimal('0.1'), Fraction(1, 10),
                   float(np.float32(0.1)), complex(0.1, 0), EqObj(0.1)]),
        ('text', ['x', np.str_('x'), EqObj('x'), 'True', True, 'None', None, 'False', False, '', EqObj('')]),
        ('nan', [nan, np.float64('nan'), np.float32('nan'), 'nan', 'NaN', Decimal('nan'), complex(nan, 0), None, '',
                 inf, 'inf', np.float64('inf'), Decimal('Infinity'), complex(inf, 0), EqObj(inf)]),
    ]


def hist_unsupported(kind, v):
    """v is of a type the column of this kind must reject with TypeError (although it equals a supported value)"""
    if isinstance(v, EqObj) or type(v) is complex:
        return True
    # an IntColumn takes what int() takes: np.bool_ and np.complex128 are not judged there
    return isinstance(v, (np.bool_, np.complexfloating)) and kind != 'KInt'


def hist_judgeable(kind, v):
    """the L0 spec has a class for v (Fraction, Decimal, np.str_ serve as history only)"""
    if v is None or type(v) in (bool, int, float, str) or isinstance(v, (np.integer, np.floating)):
        return True
    return hist_unsupported(kind, v)


# ---- (9) NEIGHBOURS: on every sequence-valued path the value stored for an element is a function of that element ---
# A sequence of precision-sensitive elements (ints and integer strings beyond 2^53, 17-digit floats and their
# spellings) with a context inserted (a fraction, a fractional / exponent spelling, text, None, NaN, '', bools, ...)
# is written in one go; EVERY element is read back and judged by the normal form of that element alone.
# Path = 'Seq/<form>'.  form -> the L1 path it is compared with
SEQ_FORMS = {'WholeSeq': 'WholeSeq', 'SliceAll': 'SliceSeq', 'IndexListPerm': 'IndexList', 'Selection': 'IndexList',
             'CtorKw': 'WholeSeq', 'ConcatDict': 'ConcatDict', 'ConcatDM': 'ConcatDM', 'CsvRead': 'CsvRead',
             'WholeTuple': 'WholeSeq', 'WholeGen': 'WholeSeq', 'SetItem': 'WholeSeq', 'SlicePart': 'SliceSeq',
             'IndexList': 'IndexList', 'SelectionPart': 'IndexList', 'ConcatDictTyped': 'ConcatDict',
             'CsvReadLast': 'CsvRead'}
SEQ_FORMS_CORE = ['WholeSeq', 'SliceAll', 'IndexListPerm', 'Selection', 'CtorKw', 'ConcatDict', 'ConcatDM', 'CsvRead']


def seq_chunks():
    """type-homogeneous chunks (a conversion of the whole sequence in one go would infer ONE type for them) and a mixed one"""
    return [
        # Python numbers only
        [2 ** 53 + 1, -(2 ** 62) - 3, 0.30000000000000004, 2 ** 63 - 1, 1 / 3.0, 1e22],
        # text only
        ['9007199254740993', ' -9223372036854775807 ', '0.30000000000000004', '1700000000000000001',
         '9_007_199_254_740_993', '1e22', '4.35'],
        # ints only
        [2 ** 53 + 1, -(2 ** 62) - 3, 2 ** 63 - 1, 7, -(2 ** 53) - 1],
        # mixed
        [np.int64(2 ** 53 + 1), '9007199254740993', 123456789.12345679, 2 ** 53 - 1, np.float64(0.1) * 3,
         9007199254740994.0, '0.1'],
    ]


def seq_contexts():
    nan = float('nan')
    singles = [2.5, '2.5', 'x', None, nan, 'nan', '', 1.0, '1e3', '3.0', True, 0, -0.0, np.float32(1.5), 'inf',
               float('inf'), ' 7 ', np.float64(0.5), '-0.75']
    return [[]] + [[x] for x in singles] + [[2.5, 'x'], [None, nan], ['2.5', '1e3'], ['x', None], [0.5, '', 7],
                                            ['abc', '2.5', None, nan]]


def seq_text(e):
    """the text of a CSV cell that spells e (None has no spelling)"""
    if e is None:
        return None
    if type(e) is str:
        return e
    if isinstance(e, float):            # float and np.float64: the shortest spelling that reads back exactly
        return repr(float(e))
    return str(e)


def seq_valid(kind, e):
    """the column type has a value for e (otherwise the whole sequence is rejected, by design)"""
    if kind != 'KInt':
        return True
    if e is None:
        return False
    if type(e) is str:
        try:
            int(e)
            return True
        except ValueError:
            try:
                return math.isfinite(float(e))
            except ValueError:
                return False
    if isinstance(e, (float, np.floating)):
        return math.isfinite(float(e))
    return True


class C05:
    id = 'C05'
    props_file = 'theories/Props/C05.v'
    kernel_files = ['KCheck.v', 'KC05Paths.v']
    oracle_vos = ['theories/Run/SC05.vo']
    model_vos = ['theories/Run/RC05.vo']
    oracle_imports = ['From DM Require Import Run.SC05.']
    model_imports = ['From DM Require Import Run.RC05.']
    exhaustive = True
    rule = ('(1) every value of a fixed alphabet (ints around 0, +-2^31, +-2^53(+-1), 2^63-1; bools; floats incl. -0.0, '
            'nan, +-inf, subnormal, 1e22/1e23; numpy int8..int64/uint8/float32/float64 scalars; ~60 numeric and '
            'non-numeric string spellings incl. whitespace, underscores, non-ASCII digits; None; an unsupported object) '
            'x 3 column types x 27 write paths (incl. assignment of a column of each type, NumPy-array values, tuples, '
            'generators and a column of a << b result), exhaustively; plus 94 corner spellings of Python\'s numeric string grammar '
            '(isdigit()-but-not-decimal superscripts/circled digits, isnumeric()-only characters, decimal digits of other '
            'scripts, Unicode whitespace, sign/underscore/prefix/suffix variants, nan/inf spellings, 300-400 digit strings, '
            'float over/underflow) x 3 types x 10 paths (all 27 in the thorough tier); int(s)/float(s) of every string are '
            'taken from the running interpreter and handed to the L0 spec. '
            '(2) a column object as value: 15 table states (fresh; a << b with the column on both sides / left only / '
            'right only / a Row operand; a << EMPTY and EMPTY << a for an empty selection, DataMatrix(), '
            'DataMatrix(length=0), {}, a dict of empty columns, twice; slice; selection) x 9 forms (col[:], col[0:n], '
            'col[a:b] = value[a:b], index list, permuted index list, selection, dm.c = value, dm["c"] = value, constructor '
            'keyword) x 10 (thorough: 12) sources (col @ f and col / 1 of the same / another table / sliced, i.e. MixedColumns '
            'whose raw storage is NOT normal; stored columns of each type of another / the same table) x {2.0, unsupported '
            'object, "3"} x 3 types, and a 25-value alphabet on a 4x4x3 sub-grid; the assigned value handed to the spec is '
            'the cell the value column hands out (value[1]); for dm.c = value the column must take the value\'s type (derived same-table columns are copied and '
            'type-checked, only one of the table\'s own columns is aliased). '
            '(3) 6 plain values x 8 scalar/sequence/cell/Row paths x the 14 non-fresh table states x 3 types. '
            '(4) writes that address NO cell with a scalar: 21+5 table states (the 21 above, rows permuted, permuted then '
            'selected, three zero-row tables) x 18 forms (empty selection in two spellings, empty slices 0:0 / n: / 2:1, '
            'empty list / tuple / NumPy index; whole column, dm[name], selection, [:] on the zero-row table obtained by an '
            'empty selection / an empty slice / a resize to 0) + 4 forms on a new zero-row table (constructor keyword, new '
            'column with and without length=0, dm[name]); the whole alphabet on 6 (state, form) pairs, 13 valid / invalid '
            'scalars on every form x 6 states, 5 on 8 forms x every state (thorough: everything x 38 values); the verdict is '
            'judged against Spec/Table.rhs_cells with n = 0 and the column must be unchanged afterwards. '
            '(5) READ paths: a cell written by col[i] = v on each of 23 table states (the 21 above, rows permuted, permuted '
            'then selected) x 3 types x 5-14 values is read back in ~90 ways in four groups: the column (col[i], col[i-n], '
            'list / tuple / comprehension / iter, dm[name], dm[column object], dm.columns, zip), Rows (row.name, row[name], '
            'row[int], iteration over the Row, dict(row), negative row index, the Rows handed out by list(dm) and for row in '
            'dm, row.as_slice), derived columns (col[a:b], col[:], col[::-1], index list / tuple / NumPy index, col[dm], '
            'col[selection]) and derived tables (dm[a:b], dm[:], dm[[i]], selection, union, reversed, a << empty, keep-only, '
            'a << a, ops.sort: column cell, list(column), Row attribute and Row iteration of each); every read must be a plain '
            'int/float/str/None and equal to the normal form. '
            '(6) TWO-STEP sequences: a column object (cells 0, 1, 0) of each of the 3 types, from another / the same table, '
            'written through each of the 9 column-valued forms into a column of each type (fresh table: all 9 x 6 x 3; the 20 '
            'other states: 4 forms x 2 sources), THEN a plain value (1.5, "x", None; a 15-value alphabet on a 3x3x3 sub-grid) '
            'through each of the 8 plain write forms, judged by the same normal form as a single write on the type the column '
            'has after step 1 (the value\'s type for dm.c = value); the value column of step 1 must not change unless it was '
            'deliberately aliased. '
            '(7) CSV: 42 text cells with leading / trailing / inner whitespace (space, tab, ideographic / no-break space), '
            'whitespace-only, empty, with delimiters / quotes / line feeds inside x column position (only, first, middle, last; '
            'neighbours are numeric cells with whitespace and empty cells, which are checked too) x 5 dialects (, ; tab | with '
            'quote characters " and \') x 3 writers (minimal quoting, quote all, CRLF line ends) (quick: full alphabet on the '
            'comma dialect, 9 values elsewhere), judged like a cell write of the same text. '
            '(8) HISTORY: 7 classes of values that are equal (== and hash) or share their text but differ in type or validity '
            '(around 1: 1, 1.0, True, np.bool_(True), complex(1, 0), np.float64/float32/int64/uint8 1, Fraction(1), Decimal(1), '
            '"1", "1.0", " 1 ", np.complex128(1), an object whose __eq__/__hash__ are those of 1, np.str_("1"); likewise around '
            '0 / -0.0; 2^53 / float(2^53) / 2^53+1 and their spellings; 2.5; 0.1 / np.float32(0.1); "x" / np.str_("x") / "True" / '
            'True / "None" / None / ""; nan / inf spellings incl. Decimal and complex); every classifiable member is judged '
            '(a) after ALL other members of its class and (b) after each single other member (ordered pairs, both orders), the '
            'history written first in the same process to the same column / sibling columns of each type / columns of each type '
            'of another table (cell, whole sequence, selection, slice), the judged write through 12 forms + CSV (unsupported-'
            'but-equal values: every form; others: rotating); judged like the single write (oracle and L1 model), i.e. '
            'complex, np.bool_ and foreign equal-comparing objects must raise TypeError whatever was converted before; the '
            'history is part of the input (a replay repeats it) and is never shrunk. '
            '(9) NEIGHBOURS: sequences made of 3 chunks of precision-sensitive elements (ints, np.int64 and integer strings '
            'beyond 2^53 up to +-(2^63-1), 17-digit floats and their spellings, 1e22, underscores, whitespace) with one of 26 '
            'contexts inserted at rotating positions (nothing, 2.5, "2.5", "x", None, nan, "nan", "", 1.0, "1e3", "3.0", True, 0, '
            '-0.0, np.float32(1.5), inf, " 7 ", mixtures), written in ONE go through 16 sequence-valued forms (list, tuple, '
            'generator, dm[name], col[:], col[a:b], index list in order / permuted, selection whole / part, constructor '
            'keyword, a << dict, a << table built from a dict, a << table, CSV column alone / last of three columns); EVERY '
            'element is read back and judged by the normal form of that element alone (conjunction of per-element oracle / '
            'model terms); elements the column type has no value for are left out for that type; failing sequences are '
            'shrunk by dropping elements. '
            'thorough adds random ints/floats/strings, 6000 random (state, form, source, value) combinations and 8000 random '
            'two-step sequences. In EVERY case the cell is read back through col[i], list(col)[i], row.name, row[name], '
            'col[i-n], row[int] and iteration over the Row (all must agree and be plain int/float/str/None). '
            'non-trivial = the stored value differs from the assigned object or an exception is raised; distinct by '
            '(kind, path, value)')
    trusted_base = [
        'Coq 8.16.1 kernel (coqc; vm_compute for evaluating cases; no native_compute)',
        'translator /verif/translate (pystmt.py, gen_checktype.py): _checktype_regular, BaseColumn._checktype, '
        'NumericColumn._checktype, IntColumn._checktype -> Gen/KCheck.v',
        'translator /verif/translate/gen_c05paths.py -> Gen/KC05Paths.v: guard of BaseColumn._setslicekey, scalar test of '
        'BaseColumn._tosequence, exit chain of NumericColumn._tosequence (translated); IntColumn._tosequence, '
        'IntColumn._setslicekey, _setintkey, _setsequencekey, both _setdatamatrixkey, the exits and tail of the column '
        'branch of DataMatrix._set_col (its by-reference test is translated: k_setcol_by_reference), every assignment to _typechecking and the single exit of DataMatrix.__lshift__ (pinned by AST); read paths pinned by AST: '
        'BaseColumn._getintkey, NumericColumn._getintkey (self.dtype(cell), dtype = float / int), Row.__getitem__ / __getattr__ / '
        '__iter__, DataMatrix.__iter__, no column class defines __iter__; io.readtxt: the csv.reader call (delimiter and '
        'quotechar only), the row loop and the _fromdict tail',
        'hand-written CPython/NumPy models in Base/PyVal.v and Model/Store.v (int(), float(), math.isnan, ==, '
        'float64/int64 array stores), exercised by the correspondence',
        'harness/c05.py, harness/pyobs.py (classification of objects incl. the builtins int(s)/float(s) as grammar oracle; '
        'the _typechecking flag of the target column is read before a column-valued write and handed to the L1 model only)',
    ]
    assumptions = [
        'fastnumbers is not installed (checked at run time): _checktype_regular is the live variant',
        'byte strings and int64 overflow are outside the claim; complex numbers, np.bool_ and foreign objects that compare '
        'equal to a number are unsupported types (TypeError) for Mixed/FloatColumn; an IntColumn takes what int() takes '
        '(np.bool_, np.complex128 are not judged there); Fraction, Decimal and np.str_ have no class in the L0 spec and '
        'serve as history values only',
        'which exit of _tosequence / _setslicekey a write takes is decided by regenerated kernels (Gen/KC05Paths.v); what '
        'each exit does (NumPy buffer casts, list(value), the loops) is modelled by hand in Model/Store.v, '
        'Model/C05Paths.v over pinned source and tied by the correspondence',
        '_typechecking is True on every column a caller can hold: pinned (assignments only in BaseColumn.__init__ and '
        'DataMatrix.__lshift__, which has one exit, after the re-enabling loop), and observed per column-valued case',
        'float64 overflow is outside the claim: an int or integer string beyond the float64 range written to a FloatColumn '
        'raises OverflowError (not generated for FloatColumns), like int64 overflow for IntColumns',
        'dm.name = column: the four facts the translated by-reference test of DataMatrix._set_col looks at (owner, identity '
        'with one of the table\'s columns, length, row ids) are read off the objects before the write and handed to the '
        'L1 model only; the L0 oracle judges the stored cell and the column type',
    ]

    # ---- implementation runner ------------------------------------------
    def _write(self, kind, path, v, dm0=None):
        """Perform the write; return the values read back (in every basic way) for the addressed cell.
        dm0: a prepared 3-row table with column c of the kind (the second step of a two-step sequence)."""
        from datamatrix import DataMatrix, io
        ct = coltype(kind)
        pos = 1
        state = None
        if path.startswith('After/'):
            _tag, state, path = path.split('/')

        def fresh():
            if dm0 is not None:
                return dm0
            if state is not None:
                return self._state(ct, state)
            dm = DataMatrix(length=3)
            dm.k = 0, 1, 2
            dm.c = ct
            return dm
        if path == 'WholeScalar':
            dm = fresh()
            dm.c = v
        elif path == 'WholeSeq':
            dm = fresh()
            dm.c = [0, v, 0]
        elif path == 'CellInt':
            dm = fresh()
            dm.c[1] = v
        elif path == 'SliceScalar':
            dm = fresh()
            dm.c[1:3] = v
        elif path == 'SliceSeq':
            dm = fresh()
            dm.c[0:2] = [0, v]
        elif path == 'IndexList':
            dm = fresh()
            dm.c[[2, 1]] = [0, v]
        elif path == 'WholeTuple':
            dm = fresh()
            dm.c = (0, v, 0)
        elif path == 'WholeGen':
            dm = fresh()
            dm.c = (x for x in [0, v, 0])
        elif path == 'SliceGen':
            dm = fresh()
            dm.c[0:2] = iter([0, v])
        elif path == 'IndexListTuple':
            dm = fresh()
            dm.c[[2, 1]] = (0, v)
        elif path == 'SelectionGen':
            dm = fresh()
            dm.c[dm.k >= 1] = (x for x in [v, 0])
        elif path == 'Selection':
            dm = fresh()
            dm.c[dm.k == dm.k[1]] = v
        elif path == 'RowAttr':
            dm = fresh()
            dm[1].c = v
        elif path == 'CtorKeyword':
            dm = DataMatrix(length=3, default_col_type=ct, c=v)
        elif path == 'ConcatDM':
            a = DataMatrix(length=1)
            a.c = ct
            b = DataMatrix(length=1)
            b.c = ct
            b.c = [v]
            dm = a << b
        elif path == 'ConcatDict':
            a = DataMatrix(length=1, default_col_type=ct)
            a.c = ct
            tmp = DataMatrix(default_col_type=ct)
            dm = a << tmp._fromdict({'c': [v]})
        elif path.startswith('FromCol:'):
            dm = fresh()
            dm.o = coltype(path.split(':')[1])
            try:
                dm.o = [0, v, 0]
            except Exception:        # the source column itself rejects v: nothing to assign
                return ('skip', None)
            dm.c[0:3] = dm.o
        elif path in ('IndexListNp', 'SelectionNp', 'SliceNp', 'WholeNp'):
            # the value arrives inside a NumPy array (float64 for floats, int64 for ints)
            arr = np.array([0, v]) if path != 'WholeNp' else np.array([0, v, 0])
            dm = fresh()
            if path == 'IndexListNp':
                dm.c[[2, 1]] = arr
            elif path == 'SelectionNp':
                dm.c[dm.k >= 1] = np.array([v, 0])
            elif path == 'SliceNp':
                dm.c[0:2] = arr
            else:
                dm.c = arr
        elif path.startswith('ConcatFromCol:'):
            # a table built by a << b (column c only in the left operand), then c[:] = a column of another type
            a = DataMatrix(length=2)
            a.c = ct
            b = DataMatrix(length=1)
            b.k = 1
            dm = a << b
            dm.o = coltype(path.split(':')[1])
            try:
                dm.o = [0, v, 0]
            except Exception:
                return ('skip', None)
            dm.c[:] = dm.o
        elif path == 'CsvRead':
            os.makedirs(self.tmpdir, exist_ok=True)
            fd, fn = tempfile.mkstemp(suffix='.csv', dir=self.tmpdir)
            with os.fdopen(fd, 'w', encoding='utf-8', newline='') as f:
                w = csv.writer(f, lineterminator='\n')
                w.writerow(['c'])
                w.writerow(['0'])
                w.writerow([v])
                w.writerow(['0'])
            try:
                dm = io.readtxt(fn, default_col_type=ct)
            finally:
                os.unlink(fn)
        else:
            raise AssertionError(path)
        col = dm.c
        if type(col) is not ct:
            return ('typefail', 'column type is %s, expected %s' % (type(col).__name__, ct.__name__))
        return ('ok', basic_reads(dm, pos))


    # ---- table states and column objects as values -------------------------
    def _state(self, ct, state):
        """A 3-row table with column k (row numbers) and column c of type ct, obtained as `state` says."""
        from datamatrix import DataMatrix

        def base(n, with_c=True, with_k=True):
            dm = DataMatrix(length=n)
            if with_k:
                dm.k = list(range(n))
            if with_c:
                dm.c = ct
            return dm
        if state == 'fresh':
            return base(3)
        if state == 'cat':
            return base(2) << base(1)
        if state == 'catL':
            return base(2) << base(1, with_c=False)
        if state == 'catR':
            return base(2, with_c=False) << base(1)
        if state == 'catRow':
            return base(2) << base(1)[0]
        if state == 'catEmptySelR':
            a = base(3)
            return a << (a.k > 100)
        if state == 'catEmptyDMR':
            return base(3) << DataMatrix()
        if state == 'catEmptyLen0R':
            return base(3) << DataMatrix(length=0)
        if state == 'catEmptyDictR':
            return base(3) << {}
        if state == 'catEmptyColsDictR':
            return base(3) << {'k': []}
        if state == 'catEmptySelL':
            a = base(3)
            return (a.k > 100) << a
        if state == 'catEmptyDML':
            return DataMatrix() << base(3)
        if state == 'catEmptyTwice':
            a = base(3)
            return (a << (a.k > 100)) << DataMatrix()
        if state == 'slice':
            return base(5)[1:4]
        if state == 'select':
            a = base(5)
            return a.k >= 2
        if state == 'resizeSame':
            a = base(3)
            a.length = 3                  # a resize to the length the table already has
            return a
        if state == 'grown':
            a = base(2)
            a.length = 3
            a.k = [0, 1, 2]
            return a
        if state == 'shrunk':
            a = base(5)
            a.length = 3
            return a
        if state == 'shrunkGrown':
            a = base(4)
            a.length = 1
            a.length = 3
            a.k = [0, 1, 2]
            return a
        if state == 'sorted':
            from datamatrix import operations as ops
            a = base(3)
            return ops.sort(a, by=a.k)
        if state == 'rowDeleted':
            a = base(4)
            del a[3]
            return a
        raise AssertionError(state)

    def _source(self, dm, src, v):
        """A column object (3 cells) whose cell 1 is derived from v; None if v cannot get there."""
        from datamatrix import DataMatrix, MixedColumn
        if src in ('MapSame', 'MapOther', 'MapOtherSliced'):
            o = dm if src == 'MapSame' else DataMatrix(length=5 if src == 'MapOtherSliced' else 3)
            o.s = MixedColumn
            col = o.s @ (lambda x: v)
            return col[1:4] if src == 'MapOtherSliced' else col
        if src in ('ArithSame', 'ArithOther'):
            o = dm if src == 'ArithSame' else DataMatrix(length=3)
            try:
                o.s = [0, v, 0]
            except Exception:
                return None
            return o.s / 1            # true division: integral cells become floats (1 -> 1.0)
        name, k2 = src.split('.')
        o = DataMatrix(length=3) if name == 'Stored' else dm
        o.s = coltype(k2)
        try:
            o.s = [0, v, 0]
        except Exception:
            return None
        return o.s[:] if name == 'StoredSameSliced' else o.s

    def _write_colval(self, kind, state, form, src, v):
        """-> ('skip',) or (status, result, info) where info = (k2, tc, raw, kobs, set_col facts)"""
        from datamatrix import DataMatrix, MixedColumn, FloatColumn, IntColumn
        ct = coltype(kind)
        kinds = {MixedColumn: 'KMixed', FloatColumn: 'KFloat', IntColumn: 'KInt'}
        try:
            dm = self._state(ct, state)
            col = self._source(dm, src, v)
            if col is not None and (len(dm) != 3 or type(dm.c) is not ct or len(col) != 3):
                return ('typefail', 'building the table state %s / the value column %s went wrong' % (state, src),
                        (kind, True, v, kind, NOFACTS))
        except Exception as e:      # noqa: BLE001  (judged: the preparation uses only operations that must succeed)
            return ('exn', pyobs.exn_name(e), (kind, True, v, kind, NOFACTS))
        if col is None:
            return ('skip',)
        k2 = kinds[type(col)]
        raw = col[1]                       # the cell as the column hands it out
        tc = bool(getattr(dm.c, '_typechecking', True))
        # what the by-reference test of DataMatrix._set_col looks at (for the L1 model of dm.c = column only)
        try:
            if form == 'CtorKw':
                facts = (False, False, len(col) == 3, [int(i) for i in col._rowid] == [0, 1, 2])
            else:
                facts = (col._datamatrix is dm, any(col is c for c in dm._cols.values()), len(col) == len(dm),
                         [int(i) for i in col._rowid] == [int(i) for i in dm._rowid])
        except Exception:           # noqa: BLE001
            facts = NOFACTS
        try:
            if form == 'SliceAll':
                dm.c[:] = col
            elif form == 'Slice0n':
                dm.c[0:3] = col
            elif form == 'SlicePart':
                dm.c[1:3] = col[1:3]
            elif form == 'SeqKey':
                dm.c[[0, 1, 2]] = col
            elif form == 'SeqKeyPerm':
                dm.c[[2, 1, 0]] = col[[2, 1, 0]]
            elif form == 'DmKey':
                dm.c[dm.k >= 0] = col
            elif form == 'SetAttr':
                dm.c = col
            elif form == 'SetItem':
                dm['c'] = col
            elif form == 'CtorKw':
                dm = DataMatrix(length=3, c=col)
            else:
                raise AssertionError(form)
        except AssertionError:
            raise
        except Exception as e:      # noqa: BLE001
            return ('exn', pyobs.exn_name(e), (k2, tc, raw, kind, facts))
        c = dm.c
        if type(c) not in kinds:
            return ('typefail', 'column type is %s' % type(c).__name__, (k2, tc, raw, kind, facts))
        return ('ok', basic_reads(dm, 1), (k2, tc, raw, kinds[type(c)], facts))

    def cv_applicable(self, kind, state, form, src, v):
        if form == 'CtorKw' and state != 'fresh':
            return False
        return True

    def _rerun_colval(self, inp):
        kind, v = inp['kind'], self._decode(inp['value'])
        _tag, state, form, src = inp['path'].split('/')
        with warnings.catch_warnings():
            warnings.simplefilter('ignore')
            out = self._write_colval(kind, state, form, src, v)
        if out[0] == 'skip':
            return None
        k2, tc, raw, kobs, facts = out[2]
        kexp = k2 if CV_FORMS[form] == 'FSetCol' else kind
        # outside the claim / the model: int64 and float64 overflow of the cell handed out
        if not self.applicable(kexp, 'ColVal', raw) or not self.applicable(kind, 'ColVal', raw):
            return None
        pyfail = None
        if out[0] == 'exn':
            obs_lit = '(Raise %s)' % out[1]
            observed = {'raises': out[1]}
        elif out[0] == 'typefail':
            obs_lit = '(Raise OtherError)'
            observed = {'typefail': out[1]}
            pyfail = out[1]
        else:
            rs = out[1]
            lits = [pyobs.val(r) for r in rs]
            observed = {'read_back': pyobs.jsonable(rs[0]), 'type': type(rs[0]).__name__, 'column': kobs}
            if any(l is None for l in lits):
                pyfail = 'read-back is not a plain int/float/str/None: %s' % describe_reads(BASIC_READS, rs)
                obs_lit = '(Raise OtherError)'
            else:
                if len(set(lits)) != 1:
                    pyfail = 'the ways of reading the cell back disagree: %s' % describe_reads(BASIC_READS, rs)
                obs_lit = '(Ok %s)' % lits[0]
        observed['value_cell'] = pyobs.jsonable(raw)
        observed['typechecking_before'] = tc
        pv = pyobs.pyv(raw)
        trivial = out[0] == 'ok' and pyfail is None and pyobs.val(raw) == pyobs.val(out[1][0])
        setform = CV_FORMS[form] == 'FSetCol'
        observed['set_col_facts'] = list(facts) if setform else None
        if setform:
            m_expr = '(model_agrees_setcol %s %s %s %s)' % (' '.join(L.boolean(b) for b in facts), k2, pv, obs_lit)
        else:
            m_expr = '(model_agrees_colval %s %s %s %s %s %s)' % (L.boolean(tc), CV_FORMS[form], kind, k2, pv, obs_lit)
        return {
            'input': inp, 'observed': observed, 'pyfail': pyfail,
            'oracle': '(oracle_colval %s %s %s %s %s %s)' % (L.boolean(setform), kind, k2, kobs, pv, obs_lit),
            'model': m_expr,
            'nontrivial': not trivial,
            'sig': '%s|%s|%s' % (kind, inp['path'], pyobs.pyv(v) if not isinstance(v, Obj) else 'POther'),
            'tags': [kind, 'ColVal', 'state:' + state, 'form:' + form, 'src:' + src, pv.split(' ')[0].strip('()')],
        }

    # ---- writes that address no cell ---------------------------------------
    def _zero_state(self, ct, state):
        from datamatrix import DataMatrix

        def base(n):
            dm = DataMatrix(length=n)
            dm.k = list(range(n))
            dm.c = ct
            return dm
        if state in CV_STATES:
            return self._state(ct, state)
        if state == 'perm':                 # only some rows move
            return base(4)[[2, 0, 3, 1]]
        if state == 'permSelect':           # ... and then the table is narrowed down
            a = base(6)[[5, 2, 0, 4, 3, 1]]
            return a.k >= 2
        if state == 'len0':
            return base(0)
        if state == 'len0Cat':
            return base(0) << base(0)
        if state == 'len0Sorted':
            from datamatrix import operations as ops
            a = base(0)
            return ops.sort(a, by=a.k)
        raise AssertionError(state)

    def _write_zero(self, kind, state, form, v):
        """-> ('prep', text) | ('exn', name) | ('ok', None) | ('bad', text)"""
        from datamatrix import DataMatrix
        ct = coltype(kind)
        if form in ZERO_CTOR_FORMS:
            try:
                if form == 'Len0Ctor':
                    t = DataMatrix(length=0, default_col_type=ct, c=v)
                elif form == 'Len0New':
                    t = DataMatrix(length=0, default_col_type=ct)
                    t.c = v
                elif form == 'NoLenNew':
                    t = DataMatrix(default_col_type=ct)
                    t.c = v
                else:
                    t = DataMatrix(length=0, default_col_type=ct)
                    t['c'] = v
            except Exception as e:      # noqa: BLE001
                return ('exn', pyobs.exn_name(e))
            before = []
        else:
            try:
                dm = self._zero_state(ct, state)
                if form.startswith('SelTable'):
                    t = dm.k > 99
                elif form.startswith('SliceTable'):
                    t = dm[0:0]
                else:
                    t = dm
                    if form.startswith('Shrunk'):
                        t.length = 0
                if form in ('EmptySel', 'EmptySelAnd'):
                    key = (t.k > 99) if form == 'EmptySel' else ((t.k > 0) & (t.k < 0))
                    if len(key) != 0:
                        return ('prep', 'the selection is not empty')
                elif form.endswith('Sel'):
                    key = t
                elif form in ('EmptyList', 'ShrunkList'):
                    key = []
                elif form == 'EmptyTuple':
                    key = ()
                elif form == 'EmptyNpIndex':
                    key = np.array([], dtype=int)
                elif form == 'EmptySlice00':
                    key = slice(0, 0)
                elif form == 'EmptySliceEnd':
                    key = slice(len(t), None)
                elif form == 'EmptySliceRev':
                    key = slice(2, 1)
                elif form.endswith('SliceAll'):
                    key = slice(None)
                else:
                    key = None              # whole-column assignment
                if key is None and len(t) != 0:
                    return ('prep', 'whole-column form on a table with rows')
                if type(t.c) is not ct:
                    return ('prep', 'column type is %s before the write' % type(t.c).__name__)
                before = [pyobs.val(x) for x in t.c]
            except Exception as e:      # noqa: BLE001  (only operations that must succeed)
                return ('prep', 'building the table state %s / the key of %s raised %s' % (state, form, pyobs.exn_name(e)))
            try:
                if key is None:
                    if form.endswith('SetItem'):
                        t['c'] = v
                    else:
                        t.c = v
                else:
                    t.c[key] = v
            except Exception as e:      # noqa: BLE001
                return ('exn', pyobs.exn_name(e))
        try:
            if type(t.c) is not ct:
                return ('bad', 'column type is %s, expected %s' % (type(t.c).__name__, ct.__name__))
            after = [pyobs.val(x) for x in t.c]
        except Exception as e:          # noqa: BLE001
            return ('bad', 'reading the column after the write raised %s' % pyobs.exn_name(e))
        if after != before:
            return ('bad', 'a write that addresses no cell changed the column: %r -> %r' % (before, after))
        return ('ok', None)

    def _rerun_zero(self, inp):
        kind, v = inp['kind'], self._decode(inp['value'])
        _tag, state, form = inp['path'].split('/')
        if not self.applicable(kind, 'Zero', v):
            return None
        with warnings.catch_warnings():
            warnings.simplefilter('ignore')
            out = self._write_zero(kind, state, form, v)
        pyfail = None
        if out[0] == 'exn':
            obs_lit = '(Some %s)' % out[1]
            observed = {'raises': out[1]}
        elif out[0] == 'ok':
            obs_lit = 'None'
            observed = {'accepted': True}
        else:
            obs_lit = '(Some OtherError)'
            observed = {out[0]: out[1]}
            pyfail = out[1]
        pv = pyobs.pyv(v)
        return {
            'input': inp, 'observed': observed, 'pyfail': pyfail,
            'oracle': '(oracle_zero %s %s %s)' % (kind, pv, obs_lit),
            'model': '(model_agrees_zero %s %s %s)' % (kind, pv, obs_lit),
            'nontrivial': out[0] != 'ok',
            'sig': '%s|%s|%s' % (kind, inp['path'], pv),
            'tags': [kind, 'Zero', 'state:' + state, 'zform:' + form, pv.split(' ')[0].strip('()')],
        }

    # ---- (5) every way of reading a cell back ---------------------------------
    def _rerun_read(self, inp):
        kind, v = inp['kind'], self._decode(inp['value'])
        _tag, state, group = inp['path'].split('/')
        if not self.applicable(kind, 'Read', v):
            return None
        ct = coltype(kind)
        pos = {'direct': 1, 'rows': 2, 'subcol': 0, 'subtable': 1}[group] if state != 'fresh' else 1
        pyfail = None
        reads = None
        with warnings.catch_warnings():
            warnings.simplefilter('ignore')
            try:
                dm = self._zero_state(ct, state)
                if len(dm) < 3 or type(dm.c) is not ct:
                    raise LookupError('table state')
            except Exception as e:      # noqa: BLE001  (only operations that must succeed)
                dm = None
                out = ('typefail', 'building the table state %s raised %s' % (state, pyobs.exn_name(e)))
            if dm is not None:
                try:
                    dm.c[pos] = v
                    out = ('ok', None)
                except Exception as e:      # noqa: BLE001
                    out = ('exn', pyobs.exn_name(e))
            if out[0] == 'ok':
                try:
                    if type(dm.c) is not ct:
                        raise LookupError('the column became a %s' % type(dm.c).__name__)
                    reads = deep_reads(dm, pos, group)
                except Exception as e:      # noqa: BLE001  (a read path that raises is judged, not a crash)
                    out = ('typefail', 'reading the cell back (%s) raised %s: %s' % (group, pyobs.exn_name(e), e))
        if out[0] == 'exn':
            obs_lit = '(Raise %s)' % out[1]
            observed = {'raises': out[1]}
        elif out[0] == 'typefail':
            obs_lit = '(Raise OtherError)'
            observed = {'typefail': out[1]}
            pyfail = out[1]
        else:
            labels = [l for l, _x in reads]
            rs = [x for _l, x in reads]
            lits = [pyobs.val(r) for r in rs]
            observed = {'read_back': pyobs.jsonable(rs[0]), 'type': type(rs[0]).__name__, 'reads': len(rs)}
            bad = [(l, r) for l, r, t in zip(labels, rs, lits) if t is None]
            if bad:
                pyfail = 'read-back is not a plain int/float/str/None: %s' % describe_reads(*zip(*bad))
                obs_lit = '(Raise OtherError)'
            else:
                if len(set(lits)) != 1:
                    odd = [(l, r) for l, r, t in zip(labels, rs, lits) if t != lits[0]]
                    pyfail = 'the ways of reading the cell back disagree: %s gives %r, but %s' % (
                        labels[0], rs[0], describe_reads(*zip(*odd)))
                obs_lit = '(Ok %s)' % lits[0]
        pv = pyobs.pyv(v)
        return {
            'input': inp, 'observed': observed, 'pyfail': pyfail,
            'oracle': '(oracle %s %s %s)' % (kind, pv, obs_lit),
            'model': '(model_agrees_k CellInt %s %s %s)' % (kind, pv, obs_lit),
            'nontrivial': True,
            'sig': '%s|%s|%s' % (kind, inp['path'], pv),
            'tags': [kind, 'Read', 'state:' + state, 'read:' + group, pv.split(' ')[0].strip('()')],
        }

    # ---- (6) two-step sequences: a column object of any type first, then a plain value --------------------
    def _rerun_two(self, inp):
        from datamatrix import DataMatrix, MixedColumn, FloatColumn, IntColumn
        kind, v = inp['kind'], self._decode(inp['value'])
        _tag, state, form1, src, form2 = inp['path'].split('/')
        kinds = {MixedColumn: 'KMixed', FloatColumn: 'KFloat', IntColumn: 'KInt'}
        ct = coltype(kind)
        pyfail = None
        with warnings.catch_warnings():
            warnings.simplefilter('ignore')
            # step 1 (judged on its own by the family ColVal): a column object with the cells 0, 1, 0
            try:
                dm = self._state(ct, state)
                col = self._source(dm, src, 1)
                if col is None or len(dm) != 3 or type(dm.c) is not ct or len(col) != 3:
                    return None
                k2 = kinds[type(col)]
                src_before = [pyobs.val(x) for x in col]
                if form1 == 'SliceAll':
                    dm.c[:] = col
                elif form1 == 'Slice0n':
                    dm.c[0:3] = col
                elif form1 == 'SlicePart':
                    dm.c[1:3] = col[1:3]
                elif form1 == 'SeqKey':
                    dm.c[[0, 1, 2]] = col
                elif form1 == 'SeqKeyPerm':
                    dm.c[[2, 1, 0]] = col[[2, 1, 0]]
                elif form1 == 'DmKey':
                    dm.c[dm.k >= 0] = col
                elif form1 == 'SetAttr':
                    dm.c = col
                elif form1 == 'SetItem':
                    dm['c'] = col
                elif form1 == 'CtorKw':
                    dm = DataMatrix(length=3, c=col)
                    dm.k = 0, 1, 2
                else:
                    raise AssertionError(form1)
            except AssertionError:
                raise
            except Exception:           # noqa: BLE001  (the first step is judged by the family ColVal)
                return None
            kexp = k2 if CV_FORMS[form1] == 'FSetCol' else kind
            if not self.applicable(kexp, form2, v):
                return None
            aliased = dm.c is col
            # step 2: a plain value through one of the write forms, judged like a single write
            try:
                if type(dm.c) is not coltype(kexp):
                    st, res = 'typefail', 'after the first step the column is a %s, expected %s' % (
                        type(dm.c).__name__, coltype(kexp).__name__)
                else:
                    st, res = self._write(kexp, form2, v, dm0=dm)
                out = ('ok', res) if st == 'ok' else ('typefail', res)
            except Exception as e:      # noqa: BLE001
                out = ('exn', pyobs.exn_name(e))
            # the value column of step 1 must not have become a view on the target
            try:
                src_after = [pyobs.val(x) for x in col]
            except Exception as e:      # noqa: BLE001
                src_after = 'raised %s' % pyobs.exn_name(e)
        if out[0] == 'exn':
            obs_lit = '(Raise %s)' % out[1]
            observed = {'raises': out[1]}
        elif out[0] == 'typefail':
            obs_lit = '(Raise OtherError)'
            observed = {'typefail': out[1]}
            pyfail = out[1]
        else:
            rs = out[1]
            lits = [pyobs.val(r) for r in rs]
            observed = {'read_back': pyobs.jsonable(rs[0]), 'type': type(rs[0]).__name__}
            if any(l is None for l in lits):
                pyfail = 'read-back is not a plain int/float/str/None: %s' % describe_reads(BASIC_READS, rs)
                obs_lit = '(Raise OtherError)'
            else:
                if len(set(lits)) != 1:
                    pyfail = 'the ways of reading the cell back disagree: %s' % describe_reads(BASIC_READS, rs)
                obs_lit = '(Ok %s)' % lits[0]
        if pyfail is None and not aliased and src_after != src_before:
            pyfail = ('writing to the target column changed the column object assigned in the first step: '
                      '%r -> %r' % (src_before, src_after))
        observed['column_after_step1'] = kexp
        observed['aliased'] = aliased
        pv = pyobs.pyv(v)
        return {
            'input': inp, 'observed': observed, 'pyfail': pyfail,
            'oracle': '(oracle %s %s %s)' % (kexp, pv, obs_lit),
            'model': '(model_agrees_k %s %s %s %s)' % (form2, kexp, pv, obs_lit),
            'nontrivial': True,
            'sig': '%s|%s|%s' % (kind, inp['path'], pv),
            'tags': [kind, 'Two', 'state:' + state, 'form:' + form1, 'src:' + src, 'then:' + form2, 'became:' + kexp,
                     pv.split(' ')[0].strip('()')],
        }

    # ---- (7) the CSV path: text cells with whitespace in every position and dialect -------------------------
    def _rerun_csv(self, inp):
        from datamatrix import io
        kind, v = inp['kind'], self._decode(inp['value'])
        _tag, dialect, where, quoting = inp['path'].split('/')
        if not (type(v) is str and '\r' not in v and '\x00' not in v) or not self.applicable(kind, 'Csv', v):
            return None
        ct = coltype(kind)
        delimiter, quotechar = CSV_DIALECTS[dialect]
        names = {'only': ['c'], 'first': ['c', 'a', 'b'], 'middle': ['a', 'c', 'b'], 'last': ['a', 'b', 'c']}[where]
        # neighbours: numeric text with whitespace around it (a number for every column type)
        fill = {'a': ['0', ' 7 ', ''], 'b': ['', '8 ', ' 0']}
        expect = {'a': 7, 'b': 8}
        qmode, term = {'min': (csv.QUOTE_MINIMAL, '\n'), 'all': (csv.QUOTE_ALL, '\n'),
                       'crlf': (csv.QUOTE_MINIMAL, '\r\n')}[quoting]
        if kind == 'KInt':      # an IntColumn has no value for an empty cell
            fill = {'a': ['0', ' 7 ', '1'], 'b': ['2', '8 ', ' 0']}
        pyfail = None
        os.makedirs(self.tmpdir, exist_ok=True)
        fd, fn = tempfile.mkstemp(suffix='.csv', dir=self.tmpdir)
        try:
            with os.fdopen(fd, 'w', encoding='utf-8', newline='') as f:
                w = csv.writer(f, delimiter=delimiter, quotechar=quotechar, quoting=qmode, lineterminator=term)
                w.writerow(names)
                for i in range(3):
                    w.writerow([(v if i == 1 else '0') if nm == 'c' else fill[nm][i] for nm in names])
            with warnings.catch_warnings():
                warnings.simplefilter('ignore')
                try:
                    dm = io.readtxt(fn, delimiter=delimiter, quotechar=quotechar, default_col_type=ct)
                    if type(dm.c) is not ct or len(dm) != 3 or sorted(dm.column_names) != sorted(names):
                        out = ('typefail', 'readtxt gave %d rows, columns %r, column c of type %s' % (
                            len(dm), dm.column_names, type(dm.c).__name__))
                    else:
                        out = ('ok', basic_reads(dm, 1))
                        # the cells next to it, and above / below
                        for nm in names:
                            if nm != 'c':
                                got = dm[nm][1]
                                if type(got) not in (int, float) or got != expect[nm]:
                                    out = ('typefail', 'the cell %r next to the text cell was read as %r' % (
                                        fill[nm][1], got))
                        if out[0] == 'ok' and not all(type(dm.c[i]) in (int, float) and dm.c[i] == 0 for i in (0, 2)):
                            out = ('typefail', 'the cells "0" above / below were read as %r, %r' % (dm.c[0], dm.c[2]))
                except Exception as e:      # noqa: BLE001
                    out = ('exn', pyobs.exn_name(e))
        finally:
            try:
                os.unlink(fn)
            except OSError:
                pass
        if out[0] == 'exn':
            obs_lit = '(Raise %s)' % out[1]
            observed = {'raises': out[1]}
        elif out[0] == 'typefail':
            obs_lit = '(Raise OtherError)'
            observed = {'typefail': out[1]}
            pyfail = out[1]
        else:
            rs = out[1]
            lits = [pyobs.val(r) for r in rs]
            observed = {'read_back': pyobs.jsonable(rs[0]), 'type': type(rs[0]).__name__}
            if any(l is None for l in lits):
                pyfail = 'read-back is not a plain int/float/str/None: %s' % describe_reads(BASIC_READS, rs)
                obs_lit = '(Raise OtherError)'
            else:
                if len(set(lits)) != 1:
                    pyfail = 'the ways of reading the cell back disagree: %s' % describe_reads(BASIC_READS, rs)
                obs_lit = '(Ok %s)' % lits[0]
        pv = pyobs.pyv(v)
        trivial = out[0] == 'ok' and pyfail is None and pyobs.val(v) == pyobs.val(out[1][0])
        return {
            'input': inp, 'observed': observed, 'pyfail': pyfail,
            'oracle': '(oracle %s %s %s)' % (kind, pv, obs_lit),
            'model': '(model_agrees_k CsvRead %s %s %s)' % (kind, pv, obs_lit),
            'nontrivial': not trivial,
            'sig': '%s|%s|%s' % (kind, inp['path'], pv),
            'tags': [kind, 'Csv', 'dialect:' + dialect, 'where:' + where, 'quoting:' + quoting,
                     pv.split(' ')[0].strip('()')],
        }

    # ---- (8) history: equal values of another type / validity class written first ------------------------------
    def _rerun_hist(self, inp):
        from datamatrix import DataMatrix
        kind, v = inp['kind'], self._decode(inp['value'])
        hist = [self._decode(h) for h in inp['history']]
        _tag, cls, scope, form = inp['path'].split('/')
        if not hist_judgeable(kind, v) or not self.applicable(kind, form, v):
            return None
        ct = coltype(kind)
        pyfail = None

        def swallow(thunk):
            try:
                thunk()
            except Exception:       # noqa: BLE001  (a history write may be rejected; only the judged write is judged)
                pass
        with warnings.catch_warnings():
            warnings.simplefilter('ignore')
            try:
                dm = DataMatrix(length=3)
                dm.k = 0, 1, 2
                dm.c = ct
                if scope == 'same':
                    targets = [(dm, 'c')]
                else:
                    t = dm if scope == 'sibling' else DataMatrix(length=3)
                    if scope == 'other':
                        t.k = 0, 1, 2
                    t.h0, t.h1, t.h2 = coltype('KMixed'), coltype('KFloat'), coltype('KInt')
                    targets = [(t, 'h0'), (t, 'h1'), (t, 'h2')]
                prep = None
            except Exception as e:      # noqa: BLE001  (only operations that must succeed)
                prep = 'building the tables raised %s' % pyobs.exn_name(e)
            if prep is None:
                for j, h in enumerate(hist):
                    for t, name in targets:
                        swallow(lambda: t[name].__setitem__(0, h))
                        if j % 3 == 0:
                            swallow(lambda: t.__setitem__(name, [h, 0, h]))
                        elif j % 3 == 1:
                            swallow(lambda: t[name].__setitem__(t.k == 2, h))
                        else:
                            swallow(lambda: t[name].__setitem__(slice(0, 1), (h,)))
                try:
                    if type(dm.c) is not ct or len(dm) != 3:
                        prep = 'after the history writes column c is a %s of length %d' % (type(dm.c).__name__, len(dm))
                except Exception as e:      # noqa: BLE001
                    prep = 'after the history writes the table raised %s' % pyobs.exn_name(e)
            if prep is not None:
                out = ('typefail', prep)
            else:
                try:
                    st, res = self._write(kind, form, v, dm0=dm)
                    out = ('ok', res) if st == 'ok' else ('typefail', res)
                except Exception as e:      # noqa: BLE001
                    out = ('exn', pyobs.exn_name(e))
        if out[0] == 'exn':
            obs_lit = '(Raise %s)' % out[1]
            observed = {'raises': out[1]}
        elif out[0] == 'typefail':
            obs_lit = '(Raise OtherError)'
            observed = {'typefail': out[1]}
            pyfail = out[1]
        else:
            rs = out[1]
            lits = [pyobs.val(r) for r in rs]
            observed = {'read_back': safe_json(rs[0]), 'type': type(rs[0]).__name__}
            if any(l is None for l in lits):
                pyfail = 'read-back is not a plain int/float/str/None: %s' % describe_reads(BASIC_READS, rs)
                obs_lit = '(Raise OtherError)'
            else:
                if len(set(lits)) != 1:
                    pyfail = 'the ways of reading the cell back disagree: %s' % describe_reads(BASIC_READS, rs)
                obs_lit = '(Ok %s)' % lits[0]
        pv = pyobs.pyv(v)
        return {
            'input': inp, 'observed': observed, 'pyfail': pyfail,
            'oracle': '(oracle %s %s %s)' % (kind, pv, obs_lit),
            'model': '(model_agrees_k %s %s %s %s)' % (PROXY.get(form, form), kind, pv, obs_lit),
            'nontrivial': True,
            'sig': '%s|%s|%s|%s' % (kind, inp['path'], json_key(inp['value']), json_key(inp['history'])),
            'tags': [kind, 'Hist', 'class:' + cls, 'scope:' + scope, form, 'hist:%s' % ('all' if len(hist) > 1 else 'one'),
                     'judged:' + ('unsupported' if hist_unsupported(kind, v) else 'supported'),
                     pv.split(' ')[0].strip('()')],
        }

    # ---- (9) neighbours: every element of a sequence is stored like that element alone ----------------------------
    def _write_seq(self, kind, form, seq):
        """-> (table, positions of the elements)"""
        from datamatrix import DataMatrix, io
        ct = coltype(kind)
        n = len(seq)

        def table(m):
            dm = DataMatrix(length=m)
            dm.k = list(range(m))
            dm.c = ct
            return dm
        pos = list(range(n))
        if form == 'WholeSeq':
            dm = table(n)
            dm.c = list(seq)
        elif form == 'WholeTuple':
            dm = table(n)
            dm.c = tuple(seq)
        elif form == 'WholeGen':
            dm = table(n)
            dm.c = (x for x in seq)
        elif form == 'SetItem':
            dm = table(n)
            dm['c'] = list(seq)
        elif form == 'SliceAll':
            dm = table(n)
            dm.c[:] = list(seq)
        elif form == 'SlicePart':
            dm = table(n + 2)
            dm.c[1:n + 1] = list(seq)
            pos = [i + 1 for i in range(n)]
        elif form == 'IndexList':
            dm = table(n)
            dm.c[list(range(n))] = list(seq)
        elif form == 'IndexListPerm':
            dm = table(n + 1)
            pos = [(3 * i + 1) % (n + 1) for i in range(n)] if (n + 1) % 3 else list(range(n, 0, -1))
            dm.c[list(pos)] = list(seq)
        elif form == 'Selection':
            dm = table(n)
            dm.c[dm.k >= 0] = list(seq)
        elif form == 'SelectionPart':
            dm = table(n + 2)
            dm.c[(dm.k >= 1) & (dm.k <= n)] = list(seq)
            pos = [i + 1 for i in range(n)]
        elif form == 'CtorKw':
            dm = DataMatrix(length=n, default_col_type=ct, c=list(seq))
        elif form == 'ConcatDict' and kind == 'KMixed':
            a = DataMatrix(length=1)
            a.c = ct
            dm = a << {'c': list(seq)}
            pos = [i + 1 for i in range(n)]
        elif form in ('ConcatDict', 'ConcatDictTyped'):
            # a dict operand becomes a table of MixedColumns (a << dict raises 'Non-matching type' for a numeric
            # column, by design): for the numeric types the operand is built like readtxt builds it
            a = DataMatrix(length=1, default_col_type=ct)
            a.c = ct
            dm = a << DataMatrix(default_col_type=ct)._fromdict({'c': list(seq)})
            pos = [i + 1 for i in range(n)]
        elif form == 'ConcatDM':
            a = DataMatrix(length=1)
            a.c = ct
            b = DataMatrix(length=n)
            b.c = ct
            b.c = list(seq)
            dm = a << b
            pos = [i + 1 for i in range(n)]
        elif form in ('CsvRead', 'CsvReadLast'):
            os.makedirs(self.tmpdir, exist_ok=True)
            fd, fn = tempfile.mkstemp(suffix='.csv', dir=self.tmpdir)
            with os.fdopen(fd, 'w', encoding='utf-8', newline='') as f:
                w = csv.writer(f, lineterminator='\n')
                w.writerow(['c'] if form == 'CsvRead' else ['a', 'b', 'c'])
                for i, x in enumerate(seq):
                    # neighbouring columns: numbers and (where the column type has a value for it) text
                    w.writerow([x] if form == 'CsvRead' else [str(i), ('%d' if kind == 'KInt' else 'x%d') % i, x])
            try:
                dm = io.readtxt(fn, default_col_type=ct)
            finally:
                os.unlink(fn)
        else:
            raise AssertionError(form)
        return dm, pos

    def _rerun_seq(self, inp):
        kind = inp['kind']
        seq = [self._decode(d) for d in inp['values']]
        _tag, form = inp['path'].split('/')
        if form.startswith('CsvRead') and not all(type(e) is str and e != '' and '\r' not in e for e in seq):
            return None
        if not seq or not all(seq_valid(kind, e) and self.applicable(kind, 'WholeSeq', e) for e in seq):
            return None
        ct = coltype(kind)
        pyfail = None
        with warnings.catch_warnings():
            warnings.simplefilter('ignore')
            try:
                dm, pos = self._write_seq(kind, form, seq)
                if type(dm.c) is not ct or len(dm) <= max(pos):
                    out = ('typefail', 'the write gave a %s of length %d' % (type(dm.c).__name__, len(dm)))
                else:
                    out = ('ok', [basic_reads(dm, p) for p in pos])
            except AssertionError:
                raise
            except Exception as e:      # noqa: BLE001
                out = ('exn', pyobs.exn_name(e))
        obs_lits = []
        if out[0] == 'exn':
            obs_lits = ['(Raise %s)' % out[1]] * len(seq)
            observed = {'raises': out[1]}
        elif out[0] == 'typefail':
            obs_lits = ['(Raise OtherError)'] * len(seq)
            observed = {'typefail': out[1]}
            pyfail = out[1]
        else:
            observed = {'read_back': [safe_json(rs[0]) for rs in out[1]],
                        'types': [type(rs[0]).__name__ for rs in out[1]]}
            for i, rs in enumerate(out[1]):
                lits = [pyobs.val(r) for r in rs]
                if any(l is None for l in lits):
                    pyfail = pyfail or 'element %d: read-back is not a plain int/float/str/None: %s' % (
                        i, describe_reads(BASIC_READS, rs))
                    obs_lits.append('(Raise OtherError)')
                else:
                    if len(set(lits)) != 1:
                        pyfail = pyfail or 'element %d: the ways of reading the cell back disagree: %s' % (
                            i, describe_reads(BASIC_READS, rs))
                    obs_lits.append('(Ok %s)' % lits[0])
        pvs = [pyobs.pyv(e) for e in seq]
        o_expr, m_expr = 'true', 'true'
        for pv, ob in reversed(list(zip(pvs, obs_lits))):
            o_expr = '(andb (oracle %s %s %s) %s)' % (kind, pv, ob, o_expr)
            m_expr = '(andb (model_agrees_k %s %s %s %s) %s)' % (SEQ_FORMS[form], kind, pv, ob, m_expr)
        return {
            'input': inp, 'observed': observed, 'pyfail': pyfail,
            'oracle': o_expr,
            'model': m_expr,
            'nontrivial': True,
            'sig': '%s|%s|%s' % (kind, inp['path'], json_key(inp['values'])),
            'tags': [kind, 'Seq', 'sform:' + form, 'len:%d' % len(seq)] + sorted(set(
                'elem:' + pv.split(' ')[0].strip('()') for pv in pvs)),
        }

    def applicable(self, kind, path, v):
        if path.endswith('Np') and not (type(v) in (int, float) and abs(v) < 2 ** 63 if type(v) is int else type(v) is float):
            return False
        if path == 'CsvRead' and not (type(v) is str and '\r' not in v and '\x00' not in v and v != ''):
            return False
        if kind == 'KFloat':
            # float64 overflow is outside the claim: an integer beyond the float64 range
            x = v
            if type(v) is str:
                try:
                    x = int(v)
                except ValueError:
                    x = None
            if type(x) is int:
                try:
                    float(x)
                except OverflowError:
                    return False
        if kind == 'KInt':
            # int64 overflow is outside the claim (and outside the model)
            try:
                x = v
                if type(v) is str:
                    try:
                        x = int(v)
                    except ValueError:
                        x = float(v)
                if isinstance(x, (int, np.integer)) and not isinstance(x, bool) and abs(int(x)) >= 2 ** 63:
                    return False
                if isinstance(x, (int, float, np.integer, np.floating)) and not isinstance(x, bool):
                    if math.isfinite(float(x)) and (abs(int(x)) >= 2 ** 63 or abs(int(float(x))) >= 2 ** 63):
                        return False
            except (ValueError, OverflowError, TypeError):
                pass
        return True

    def rerun(self, inp):
        if inp['path'].startswith('ColVal/'):
            return self._rerun_colval(inp)
        if inp['path'].startswith('Read/'):
            return self._rerun_read(inp)
        if inp['path'].startswith('Two/'):
            return self._rerun_two(inp)
        if inp['path'].startswith('Csv/'):
            return self._rerun_csv(inp)
        if inp['path'].startswith('Zero/'):
            return self._rerun_zero(inp)
        if inp['path'].startswith('Hist/'):
            return self._rerun_hist(inp)
        if inp['path'].startswith('Seq/'):
            return self._rerun_seq(inp)
        kind, path, v = inp['kind'], inp['path'], self._decode(inp['value'])
        with warnings.catch_warnings():
            warnings.simplefilter('ignore')
            try:
                st, res = self._write(kind, path, v)
                if st == 'skip':
                    return None
                out = ('ok', res) if st == 'ok' else ('typefail', res)
            except Exception as e:      # noqa: BLE001
                out = ('exn', pyobs.exn_name(e))
        pyfail = None
        if out[0] == 'exn':
            obs_lit = '(Raise %s)' % out[1]
            observed = {'raises': out[1]}
        elif out[0] == 'typefail':
            obs_lit = '(Raise OtherError)'
            observed = {'typefail': out[1]}
            pyfail = out[1]
        else:
            rs = out[1]
            r1 = rs[0]
            lits = [pyobs.val(r) for r in rs]
            observed = {'read_back': pyobs.jsonable(r1), 'type': type(r1).__name__}
            if any(l is None for l in lits):
                pyfail = 'read-back is not a plain int/float/str/None: %s' % describe_reads(BASIC_READS, rs)
                obs_lit = '(Raise OtherError)'
            else:
                if len(set(lits)) != 1:
                    pyfail = 'the ways of reading the cell back disagree: %s' % describe_reads(BASIC_READS, rs)
                obs_lit = '(Ok %s)' % lits[0]
        pv = pyobs.pyv(v)
        trivial = out[0] == 'ok' and pyfail is None and pyobs.val(v) == pyobs.val(out[1][0])
        tags = [kind, path, pv.split(' ')[0].strip('()')]
        if path.startswith('After/'):
            _tag, state, path = path.split('/')
            tags = [kind, 'After', 'state:' + state, path, pv.split(' ')[0].strip('()')]
        if path.endswith('Np'):
            # an element of a float64 / int64 array
            npv = np.array([0, v])[1]
            pv = pyobs.pyv(npv)
        if path.startswith('FromCol:') or path.startswith('ConcatFromCol:'):
            k2 = path.split(':')[1]
            o_expr = '(oracle_from %s %s %s %s)' % (kind, k2, pv, obs_lit)
            m_expr = '(model_agrees_from %s %s %s %s)' % (kind, k2, pv, obs_lit)
        elif path.endswith('Np'):
            o_expr = '(oracle %s %s %s)' % (kind, pv, obs_lit)
            m_expr = '(model_agrees IndexList %s %s %s)' % (kind, pv, obs_lit)
        else:
            o_expr = '(oracle %s %s %s)' % (kind, pv, obs_lit)
            m_expr = '(model_agrees_k %s %s %s %s)' % (PROXY.get(path, path), kind, pv, obs_lit)
        return {
            'input': inp, 'observed': observed, 'pyfail': pyfail,
            'oracle': o_expr,
            'model': m_expr,
            'nontrivial': not trivial,
            'sig': '%s|%s|%s' % (kind, inp['path'], pv),
            'tags': tags,
        }

    # values are passed through JSON in replay files
    def _encode(self, v):
        if isinstance(v, Obj):
            return {'t': 'obj'}
        if isinstance(v, EqObj):
            return {'t': 'eqobj', 'v': self._encode(v.x)}
        if isinstance(v, np.bool_):
            return {'t': 'npbool', 'v': bool(v)}
        if isinstance(v, np.complexfloating):
            return {'t': 'npcomplex', 'dtype': v.dtype.name, 're': float(v.real).hex(), 'im': float(v.imag).hex()}
        if type(v) is complex:
            return {'t': 'complex', 're': v.real.hex(), 'im': v.imag.hex()}
        if isinstance(v, np.str_):
            return {'t': 'npstr', 'v': str(v)}
        if isinstance(v, Fraction):
            return {'t': 'fraction', 'n': str(v.numerator), 'd': str(v.denominator)}
        if isinstance(v, Decimal):
            return {'t': 'decimal', 'v': str(v)}
        if v is None:
            return {'t': 'none'}
        if type(v) is bool:
            return {'t': 'bool', 'v': v}
        if type(v) is int:
            return {'t': 'int', 'v': str(v)}
        if type(v) is float:
            return {'t': 'float', 'v': v.hex()}
        if type(v) is str:
            return {'t': 'str', 'v': v}
        if isinstance(v, np.integer):
            return {'t': 'np', 'dtype': v.dtype.name, 'v': str(int(v))}
        if isinstance(v, np.floating):
            return {'t': 'np', 'dtype': v.dtype.name, 'v': float(v).hex()}
        raise AssertionError(v)

    def _decode(self, d):
        t = d['t']
        if t == 'obj':
            return Obj()
        if t == 'none':
            return None
        if t == 'bool':
            return bool(d['v'])
        if t == 'int':
            return int(d['v'])
        if t == 'float':
            return float.fromhex(d['v'])
        if t == 'str':
            return d['v']
        if t == 'np':
            ty = getattr(np, d['dtype'])
            return ty(float.fromhex(d['v'])) if d['dtype'].startswith('float') else ty(int(d['v']))
        if t == 'eqobj':
            return EqObj(self._decode(d['v']))
        if t == 'npbool':
            return np.bool_(d['v'])
        if t == 'npcomplex':
            return getattr(np, d['dtype'])(complex(float.fromhex(d['re']), float.fromhex(d['im'])))
        if t == 'complex':
            return complex(float.fromhex(d['re']), float.fromhex(d['im']))
        if t == 'npstr':
            return np.str_(d['v'])
        if t == 'fraction':
            return Fraction(int(d['n']), int(d['d']))
        if t == 'decimal':
            return Decimal(d['v'])
        raise AssertionError(d)

    def generate(self, rng, tier):
        import datamatrix._datamatrix._basecolumn as bc
        import datamatrix._datamatrix._numericcolumn as nc
        assert not bc.fastnumbers and nc.fastnumbers is None, 'fastnumbers present: kernels assume it is not'
        os.makedirs(work_dir(), exist_ok=True)
        self.tmpdir = tempfile.mkdtemp(prefix='c05-', dir=work_dir())
        ints, floats, npv, strs, other = alphabet()
        values = ints + floats + npv + strs + other
        if tier == 'thorough':
            for _ in range(400):
                c = rng.random()
                if c < 0.3:
                    values.append(rng.randint(-2**63 + 1, 2**63 - 1))
                elif c < 0.6:
                    values.append(float(rng.choice([rng.uniform(-1e6, 1e6), rng.uniform(-1, 1) * 10 ** rng.randint(-300, 300),
                                                    float(rng.randint(-2**60, 2**60)), rng.randint(-10**6, 10**6) / 8.0])))
                elif c < 0.85:
                    x = rng.choice([str(rng.randint(-2**70, 2**70)), repr(rng.uniform(-1e9, 1e9)),
                                    '%se%d' % (rng.randint(-99, 99), rng.randint(-30, 30)),
                                    ' ' * rng.randint(0, 2) + str(rng.randint(-999, 999)) + ' ' * rng.randint(0, 2)])
                    values.append(x)
                else:
                    values.append(''.join(rng.choice('ab1 .-eé,"\n_') for _ in range(rng.randint(1, 6))))
        cases = []
        ext = alphabet(extended=True)
        for kind in KINDS:
            for path in PATHS:
                for v in values + (ext if tier == 'thorough' or path in EXT_PATHS else []):
                    if not self.applicable(kind, path, v):
                        continue
                    c = self.rerun({'kind': kind, 'path': path, 'value': self._encode(v)})
                    if c is not None:
                        cases.append(c)
        # a column object as value: every table state x every form x every source with three telling values
        # (an integral float, an unsupported object, a numeric string), and a 25-value alphabet on a sub-grid
        combos = []
        srcs = CV_SOURCES if tier == 'thorough' else CV_SOURCES_QUICK
        for state in CV_STATES:
            for form in CV_FORMS:
                for src in srcs:
                    for v in cv_values_small():
                        combos.append((state, form, src, v))
        for state in ('fresh', 'catEmptySelR', 'catL', 'catEmptyDML'):
            for form in ('SliceAll', 'SlicePart', 'SeqKey', 'SetItem'):
                for src in ('MapOther', 'MapSame', 'ArithOther'):
                    for v in cv_values():
                        combos.append((state, form, src, v))
        if tier == 'thorough':
            vs = cv_values()
            for _ in range(6000):
                combos.append((rng.choice(CV_STATES), rng.choice(sorted(CV_FORMS)), rng.choice(CV_SOURCES),
                               rng.choice(vs)))
        seen = set()
        for kind in KINDS:
            for state, form, src, v in combos:
                if not self.cv_applicable(kind, state, form, src, v):
                    continue
                inp = {'kind': kind, 'path': 'ColVal/%s/%s/%s' % (state, form, src), 'value': self._encode(v)}
                key = repr(sorted(inp.items()))
                if key in seen:
                    continue
                seen.add(key)
                c = self.rerun(inp)
                if c is not None:
                    cases.append(c)
        # plain values written into tables in every state
        after_values = [1.0, ' 4.50 ', 'abc', None, np.float64(2.0), Obj(), 2 ** 53 + 1, '9007199254740993', -(2 ** 62) - 3]
        for kind in KINDS:
            for state in CV_STATES:
                if state == 'fresh':
                    continue
                for bp in AFTER_PATHS:
                    for v in after_values:
                        path = 'After/%s/%s' % (state, bp)
                        if not self.applicable(kind, bp, v):
                            continue
                        c = self.rerun({'kind': kind, 'path': path, 'value': self._encode(v)})
                        if c is not None:
                            cases.append(c)
        # writes that address no cell: the whole alphabet on six core (state, form) pairs, a small set of valid and
        # invalid values on every table state x every zero-cell form
        zero = []
        for i, (state, form) in enumerate(ZERO_CORE):
            for v in values + (ext if i == 0 or tier == 'thorough' else []):
                zero.append((state, form, v))
        small = zero_values_small() if tier != 'thorough' else zero_values_small() + cv_values()
        for state in CV_STATES + ZERO_EXTRA_STATES:
            for form in ZERO_FORMS:
                if tier == 'thorough' or state in ZERO_STATES_QUICK:
                    vs = small
                elif form in ZERO_FORMS_QUICK:
                    vs = ['abc', None, Obj(), 1.0, float('nan')]
                else:
                    continue
                for v in vs:
                    zero.append((state, form, v))
        for form in ZERO_CTOR_FORMS:
            for v in small + cv_values():
                zero.append(('-', form, v))
        seen = set()
        for kind in KINDS:
            for state, form, v in zero:
                inp = {'kind': kind, 'path': 'Zero/%s/%s' % (state, form), 'value': self._encode(v)}
                key = repr(sorted(inp.items()))
                if key in seen:
                    continue
                seen.add(key)
                c = self.rerun(inp)
                if c is not None:
                    cases.append(c)
        # (5) every way of reading a written cell back, on every table state
        reads = []
        for state in CV_STATES + READ_EXTRA_STATES:
            for group in READ_GROUPS:
                vs = read_values() if tier == 'thorough' or state in ('fresh', 'sorted', 'permSelect') \
                    else read_values_small()
                for v in vs:
                    reads.append((state, group, v))
        for kind in KINDS:
            for state, group, v in reads:
                c = self.rerun({'kind': kind, 'path': 'Read/%s/%s' % (state, group), 'value': self._encode(v)})
                if c is not None:
                    cases.append(c)
        # (6) two steps: a column object of each type through each column-valued form, then a plain value through
        # each plain form
        two = []
        for form1 in CV_FORMS:
            for src in TWO_SOURCES:
                for form2 in AFTER_PATHS:
                    for v in ((1.5, None, 'x') if tier == 'thorough' or form1 == 'SliceAll' else (1.5, 'x')):
                        two.append(('fresh', form1, src, form2, v))
        for state in CV_STATES:
            if state == 'fresh':
                continue
            for form1 in ('SliceAll', 'SeqKey', 'DmKey', 'SetAttr'):
                for src in ('Stored.KInt', 'StoredSame.KFloat'):
                    for form2 in ('CellInt', 'Selection'):
                        for v in (1.5, 'x'):
                            two.append((state, form1, src, form2, v))
        for form1 in ('SliceAll', 'SeqKey', 'SetAttr'):
            for src in ('Stored.KInt', 'Stored.KFloat', 'StoredSame.KMixed'):
                for form2 in ('CellInt', 'IndexList', 'WholeSeq'):
                    for v in two_values():
                        two.append(('fresh', form1, src, form2, v))
        if tier == 'thorough':
            tv = two_values()
            for _ in range(8000):
                two.append((rng.choice(CV_STATES), rng.choice(sorted(CV_FORMS)), rng.choice(TWO_SOURCES),
                            rng.choice(AFTER_PATHS), rng.choice(tv)))
        seen = set()
        for kind in KINDS:
            for state, form1, src, form2, v in two:
                if form1 == 'CtorKw' and state != 'fresh':
                    continue
                inp = {'kind': kind, 'path': 'Two/%s/%s/%s/%s' % (state, form1, src, form2), 'value': self._encode(v)}
                key = repr(sorted(inp.items()))
                if key in seen:
                    continue
                seen.add(key)
                c = self.rerun(inp)
                if c is not None:
                    cases.append(c)
        # (7) CSV reading: text with whitespace, whitespace-only and empty cells in every position and dialect
        csvs = []
        for where in CSV_WHERE:
            for quoting in CSV_QUOTING:
                for v in (csv_values() if tier == 'thorough' or quoting == 'min' else []):
                    csvs.append(('comma', where, quoting, v))
        for dialect in CSV_DIALECTS:
            for where in CSV_WHERE:
                for quoting in CSV_QUOTING:
                    for v in (csv_values() if tier == 'thorough' else csv_values_small()):
                        csvs.append((dialect, where, quoting, v))
        seen = set()
        for kind in KINDS:
            for dialect, where, quoting, v in csvs:
                inp = {'kind': kind, 'path': 'Csv/%s/%s/%s' % (dialect, where, quoting), 'value': self._encode(v)}
                key = repr(sorted(inp.items()))
                if key in seen:
                    continue
                seen.add(key)
                c = self.rerun(inp)
                if c is not None:
                    cases.append(c)
        cases.extend(self._gen_hist(rng, tier))
        cases.extend(self._gen_seq(rng, tier))
        shutil.rmtree(self.tmpdir, ignore_errors=True)
        self.tmpdir = os.path.dirname(self.tmpdir)       # later re-runs (shrinking, search, replay) use .work itself
        return cases

    def _gen_hist(self, rng, tier):
        cases = []
        # (8) history: equal values of another type / validity class written first.  (a) the whole class as history
        # (these come first: their replay does not depend on what else the process converted before);
        # (b) ordered pairs (one history value, then the judged value), both orders
        hist = []
        combos = [(sc, fm) for fm in HIST_FORMS for sc in HIST_SCOPES]
        n = 0
        for cls, members in hist_classes():
            for kind in KINDS:
                for i, v in enumerate(members):
                    if not hist_judgeable(kind, v):
                        continue
                    others = members[:i] + members[i + 1:]
                    if type(v) is str:
                        forms = ['CsvRead']
                    else:
                        forms = []
                    if tier == 'thorough':
                        pick = combos
                    elif hist_unsupported(kind, v):
                        pick = [(HIST_SCOPES[(n + j) % 3], fm) for j, fm in enumerate(HIST_FORMS)]
                    else:
                        pick = [combos[(5 * n + 13 * j) % len(combos)] for j in range(3)]
                    n += 1
                    for sc, fm in pick:
                        hist.append((cls, kind, sc, fm, v, others))
                    for fm in forms:
                        hist.append((cls, kind, HIST_SCOPES[n % 3], fm, v, others))
        for cls, members in hist_classes():
            for i, v in enumerate(members):
                for j, h in enumerate(members):
                    if i == j:
                        continue
                    for ki, kind in enumerate(KINDS):
                        if not hist_judgeable(kind, v):
                            continue
                        cross = hist_unsupported(kind, v) != hist_unsupported(kind, h)
                        if tier != 'thorough' and not cross and (i + j) % 3 != ki:
                            continue        # same validity class: one column type per pair
                        if tier != 'thorough' and cross and not hist_unsupported(kind, v) and (i + 2 * j) % 3 == ki:
                            continue
                        n += 1
                        sc, fm = combos[(7 * n) % len(combos)]
                        hist.append((cls, kind, sc, fm, v, [h]))
        seen = set()
        for cls, kind, sc, fm, v, hs in hist:
            inp = {'kind': kind, 'path': 'Hist/%s/%s/%s' % (cls, sc, fm), 'value': self._encode(v),
                   'history': [self._encode(h) for h in hs]}
            key = json_key(inp)
            if key in seen:
                continue
            seen.add(key)
            c = self.rerun(inp)
            if c is not None:
                cases.append(c)
        return cases

    def _gen_seq(self, rng, tier):
        cases = []
        # (9) neighbours: sequences of precision-sensitive elements with a context inserted, on every
        # sequence-valued path; every element is judged on its own
        chunks = seq_chunks()
        seqs = []
        for fi, form in enumerate(SEQ_FORMS):
            for ci, ctx in enumerate(seq_contexts()):
                if tier != 'thorough' and form not in SEQ_FORMS_CORE and (ci + fi) % 4:
                    continue
                for chunk in (chunks if tier == 'thorough' else [chunks[(ci + fi) % len(chunks)]]):
                    at = (ci + 2 * fi) % (len(chunk) + 1)
                    seqs.append((form, chunk[:at] + ctx + chunk[at:]))
                    if ctx and (ci + fi) % 5 == 0:
                        seqs.append((form, ctx + chunk[:2]))
                        seqs.append((form, chunk[-2:] + ctx))
        if tier == 'thorough':
            pool = [e for ch in chunks for e in ch] + [e for cx in seq_contexts() for e in cx]
            for _ in range(3000):
                seqs.append((rng.choice(sorted(SEQ_FORMS)), [rng.choice(pool) for _ in range(rng.randint(2, 7))]))
        seen = set()
        for kind in KINDS:
            for form, seq in seqs:
                seq = [e for e in seq if seq_valid(kind, e) and self.applicable(kind, 'WholeSeq', e)]
                if form.startswith('CsvRead'):
                    seq = [seq_text(e) for e in seq if seq_text(e) not in (None, '')]
                    seq = [e for e in seq if seq_valid(kind, e) and self.applicable(kind, 'CsvRead', e)]
                if len(seq) < 2:
                    continue
                inp = {'kind': kind, 'path': 'Seq/%s' % form, 'values': [self._encode(e) for e in seq]}
                key = json_key(inp)
                if key in seen:
                    continue
                seen.add(key)
                c = self.rerun(inp)
                if c is not None:
                    cases.append(c)
        return cases

    def shrink_candidates(self, inp):
        # a sequence (family 9) is shortened; the history of family 8 is NOT (what the process converted before is
        # part of the state there: a shortened history could fail in this process and pass in a replay)
        vals = inp.get('values')
        if not vals or len(vals) <= 2:
            return []
        out = []
        if len(vals) >= 4:
            h = len(vals) // 2
            out += [vals[:h], vals[h:]]
        out += [vals[:i] + vals[i + 1:] for i in range(len(vals))]
        return [dict(inp, values=v) for v in out]

    def key(self, case):
        i = case['input']
        if 'values' in i:
            return 'store kind=%s path=%s values=%s' % (i['kind'], i['path'], i['values'])
        if 'history' in i:
            return 'store kind=%s path=%s value=%s after=%s' % (i['kind'], i['path'], i['value'], i['history'])
        return 'store kind=%s path=%s value=%s' % (i['kind'], i['path'], i['value'])

    tmpdir = None

    def __init__(self):
        base = work_dir()
        os.makedirs(base, exist_ok=True)
        self.tmpdir = base


PROP = C05()
