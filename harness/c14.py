"""C14 -- ops.split and ops.group partition the rows (Props/C14.v)."""
import collections
import itertools
import json
import math
import random as _random
import unicodedata
import warnings

import numpy as np

import coqlit as L
import pyobs

NAN = float('nan')
INF = float('inf')
KINDS = ('KMixed', 'KFloat', 'KInt')

# Behaviour of the UNCHANGED implementation that the property does not allow (reported, undecided): kept out of the
# default stream.  True adds (a) MixedColumn keys holding several NaN objects (split yields one NaN part per NaN
# object), (b) a by-/split-column known under two names (dm.B = dm.A: col.name is a list).
INCLUDE_PENDING_FINDINGS = False


class HarnessInputError(Exception):
    """the input description itself is malformed: a defect of the generator, never an observation"""


# forms of the `by` argument of group that the UNCHANGED implementation accepts (`for col in by` over any iterable of
# columns; None; one column).  A dict keys view / set of columns is not among them: columns are unhashable, the
# caller cannot even build it.  One-shot iterables (gen / map / iter / reversed) can be walked only once.
BY_FORMS_MULTI = ('list', 'tuple', 'gen', 'map', 'iter', 'dictvalues', 'deque', 'reversed')
BY_FORMS = BY_FORMS_MULTI + ('single', 'none')


def make_by(dm, keys, form):
    """the `by` argument of ops.group for the key columns `keys` in the given form (same columns, same order)"""
    if form == 'none':
        return None
    if form == 'single' and len(keys) == 1:
        return dm[keys[0]]
    if form == 'tuple':
        return tuple(dm[k] for k in keys)
    if form == 'gen':
        return (dm[k] for k in keys)
    if form == 'map':
        return map(dm.__getitem__, list(keys))
    if form == 'iter':
        return iter([dm[k] for k in keys])
    if form == 'dictvalues':
        # positions as dict keys: the same column may occur twice
        return {i: dm[k] for i, k in enumerate(keys)}.values()
    if form == 'deque':
        return collections.deque(dm[k] for k in keys)
    if form == 'reversed':
        return reversed([dm[k] for k in keys][::-1])
    return [dm[k] for k in keys]


def split_args(dm, keys, form):
    """the column arguments of ops.split: positional, so an iterable can only be handed over unpacked"""
    if form in ('gen', 'map', 'iter', 'reversed'):
        return make_by(dm, keys, form)
    return [dm[k] for k in keys]


def coltype(kind):
    from datamatrix import MixedColumn, FloatColumn, IntColumn
    return {'KMixed': MixedColumn, 'KFloat': FloatColumn, 'KInt': IntColumn}[kind]


def is_series(col):
    from datamatrix._datamatrix._seriescolumn import _SeriesColumn
    return isinstance(col, _SeriesColumn)


def new_column(dm, name, kind, depth=None):
    """an empty column of the given kind; KSeries: a SeriesColumn of the given depth (a payload next to the plain
    columns: never a key, read on the Python side only)"""
    if kind == 'KSeries':
        from datamatrix import SeriesColumn
        dm[name] = SeriesColumn(depth=int(depth))
    else:
        dm[name] = coltype(kind)


def series_rows(col):
    """the rows of a series column as lists of floats"""
    a = np.asarray(col._seq, dtype=float)
    if a.ndim != 2:
        raise ValueError('series column with a %d-dimensional buffer' % a.ndim)
    return [[float(x) for x in row] for row in a]


def same_floats(a, b):
    return len(a) == len(b) and all((x == y and math.copysign(1, x) == math.copysign(1, y)) or (x != x and y != y)
                                    for x, y in zip(a, b))


def kindname(col):
    from datamatrix import MixedColumn, FloatColumn, IntColumn
    t = type(col)
    return {MixedColumn: 'KMixed', FloatColumn: 'KFloat', IntColumn: 'KInt'}.get(t)


def plain(x):
    if isinstance(x, np.integer):
        return int(x)
    if isinstance(x, np.floating):
        return float(x)
    return x


def jv(x):
    """JSON-able rendering of an observed value"""
    x = plain(x)
    if type(x) is float:
        return {'f': x.hex()}
    if x is None or type(x) in (int, str):
        return x
    return {'object': type(x).__name__}


class Problems(list):
    pass


def val_lit(x, problems):
    lit = pyobs.val(plain(x))
    if lit is None:
        problems.append('a cell / yielded value is not a plain int/float/str/None: %r' % (x,))
        return 'VNone'
    return lit


def view(dm, problems):
    """the plain columns, column-wise (series columns are read by series_view)"""
    out = []
    for name, col in dm.columns:
        if is_series(col):
            continue
        k = kindname(col)
        if k is None:
            problems.append('column %s has unexpected type %s' % (name, type(col).__name__))
            k = 'KMixed'
        out.append((name, k, [plain(x) for x in col]))
    return out


def view_lit(v, problems):
    return L.lst('(%s, %s, %s)' % (L.string(n), k, L.lst(val_lit(x, problems) for x in cells)) for n, k, cells in v)


def view_json(v):
    return [[n, k, [jv(x) for x in cells]] for n, k, cells in v]


def series_view(dm):
    """{name: (depth, rows)} of the series columns"""
    return {name: (int(col.depth), series_rows(col)) for name, col in dm.columns if is_series(col)}


def check_series_part(src_series, src_uid, part, problems, what):
    """A series column that sits next to the plain columns travels with its rows: every row of a part holds, in every
    series column of the source, the samples of the source row with the same uid (Python-side comparison)."""
    if not src_series:
        return
    got = series_view(part)
    if 'uid' not in part:
        return
    uids = [plain(u) for u in part['uid']]
    for name, (depth, rows) in src_series.items():
        if name not in got:
            problems.append('%s lacks the series column %s' % (what, name))
            continue
        d, prows = got[name]
        if d != depth or len(prows) != len(uids):
            problems.append('%s: series column %s has depth %d / %d rows, expected depth %d / %d rows' % (
                what, name, d, len(prows), depth, len(uids)))
            continue
        for u, prow in zip(uids, prows):
            if u not in src_uid:
                continue        # judged through the plain columns
            if not same_floats(prow, rows[src_uid.index(u)]):
                problems.append('%s: the row with uid %r holds %r in series column %s, the source row holds %r' % (
                    what, u, prow, name, rows[src_uid.index(u)]))
                break


def snapshot(dm):
    return (len(dm), [int(r) for r in dm._rowid],
            [(n, id(c), type(c).__name__,
              repr(np.asarray(c._seq).tolist()) if is_series(c) else [repr(plain(x)) for x in c],
              [int(r) for r in c._rowid], c._datamatrix is dm) for n, c in dm.columns])


def build(inp, trace=None):
    """The source DataMatrix: base columns, then the row-order steps, then the in-place history.  `trace` receives
    the name of every implementation step before it is executed, so that an exception can be attributed."""
    from datamatrix import DataMatrix, operations as ops
    trace = [] if trace is None else trace
    cols = inp['cols']
    n = len(cols[0]['cells']) if cols else 0
    trace.append('DataMatrix(length=%d)' % n)
    dm = DataMatrix(length=n)
    for c in cols:
        trace.append('column %s = %s' % (c['name'], c['kind']))
        new_column(dm, c['name'], c['kind'], c.get('depth'))
        if c['kind'] == 'KSeries':
            for i, row in enumerate(c['cells']):
                dm[c['name']][i] = [float.fromhex(x) for x in row]
        elif n:
            dm[c['name']] = [pyobs.dec(x) for x in c['cells']]
    for new, old in inp.get('alias', []):
        trace.append('dm.%s = dm.%s' % (new, old))
        dm[new] = dm[old]
    for i, st in enumerate(inp.get('order', [])):
        trace.append('order[%d] %s' % (i, st['t']))
        if st['t'] == 'select':
            # dm[[]] means "no columns"; an empty row selection is written as a slice
            dm = dm[list(st['keep'])] if st['keep'] else dm[0:0]
        elif st['t'] == 'slice':
            dm = dm[st['a']:st['b']]
        elif st['t'] == 'shuffle':
            state = _random.getstate()
            try:
                _random.seed(st['seed'])
                dm = ops.shuffle(dm)
            finally:
                _random.setstate(state)
        elif st['t'] == 'sort':
            dm = ops.sort(dm, by=dm[st['by']])
        else:
            raise HarnessInputError(st)
    apply_history(dm, inp.get('hist', []), trace)
    return dm


def apply_history(dm, hist, trace=None):
    """In-place history on the table that is split / grouped afterwards: probes (split / multi-column split / group /
    keep_only / unique / count / name / a selection, results discarded) and mutations (dm.length, cell / slice /
    selection / Row assignment, rename, row deletion, new column, column deletion).  The source is read AFTER
    the history, so the oracle judges the final operation against the table as it stands then."""
    from datamatrix import operations as ops
    trace = [] if trace is None else trace

    def need(*names):
        # a step that names a column the table does not have (any more) / a row it does not have is a malformed
        # input description (shrinking produces them), never an observation
        for nm in names:
            if nm not in dm._cols:
                raise HarnessInputError('history step %r names the column %r, which the table does not have' % (st, nm))

    def need_row(i):
        if not 0 <= i < len(dm._rowid):
            raise HarnessInputError('history step %r addresses a row the table does not have' % (st,))

    for i, st in enumerate(hist):
        t = st['t']
        trace.append('hist[%d] %s' % (i, t if t != 'probe' else 'probe-' + st['what']))
        need(*([st[f] for f in ('col', 'by', 'old') if f in st] + list(st.get('cols', []))
               + ([st['name']] if t == 'delcol' else [])))
        if t in ('setcell', 'setrow', 'delrow'):
            need_row(st['i'])
        if (t == 'rename' and st['new'] in dm._cols) or (t == 'newcol' and st['name'] in dm._cols):
            raise HarnessInputError('history step %r: the column exists already' % (st,))
        if t == 'probe':
            col = dm[st['col']]
            if st['what'] == 'split':
                list(ops.split(col))
            elif st['what'] == 'unique':
                list(col.unique)
            elif st['what'] == 'count':
                col.count
            elif st['what'] == 'group':
                ops.group(dm, by=[col])
            elif st['what'] == 'split2':
                # a multi-column split: fetches the sub-columns by NAME
                list(ops.split(*[dm[c] for c in st['cols']]))
            elif st['what'] == 'keep_only':
                ops.keep_only(dm, *[dm[c] for c in st['cols']])
            elif st['what'] == 'name':
                col.name
            elif st['what'] == 'select':
                dm[st['col']] == pyobs.dec(st['ref'])
            else:
                raise HarnessInputError(st)
        elif t == 'use':
            # another operation on the same table whose result is discarded (copies and permutes row-id objects whose
            # position caches an earlier split / selection filled)
            import random as _random
            _random.seed(st.get('seed', 0))
            how = st['how']
            if how == 'shuffle_dm':
                ops.shuffle(dm)
            elif how == 'shuffle_col':
                ops.shuffle(dm[st['col']])
            elif how == 'sample':
                ops.random_sample(dm, min(2, len(dm)))
            elif how == 'sort':
                ops.sort(dm, by=dm[st['col']])
            else:
                raise HarnessInputError(st)
        elif t == 'length':
            dm.length = max(0, len(dm) + st['delta'])
            if 'uid' in dm and len(dm):
                dm.uid = [int(u) for u in st['uids'][:len(dm)]]       # keep the payload ids unique
        elif t == 'setcell':
            dm[st['col']][st['i']] = pyobs.dec(st['v'])
        elif t == 'setslice':
            dm[st['col']][st['a']:st['b']] = pyobs.dec(st['v'])
        elif t == 'setsel':
            sel = dm[st['by']] == pyobs.dec(st['ref'])
            dm[st['col']][sel] = pyobs.dec(st['v'])
        elif t == 'setrow':
            row = dm[st['i']]
            row[st['col']] = pyobs.dec(st['v'])
        elif t == 'rename':
            dm.rename(st['old'], st['new'])
        elif t == 'delrow':
            del dm[st['i']]
        elif t == 'newcol':
            new_column(dm, st['name'], st['kind'], st.get('depth'))
            if st['kind'] == 'KSeries':
                for i in range(len(dm)):
                    dm[st['name']][i] = [float.fromhex(x) for x in st['v']]     # the same samples in every row
            elif len(dm):
                dm[st['name']] = pyobs.dec(st['v'])
        elif t == 'delcol':
            if st.get('how') == 'object':
                del dm[dm[st['name']]]
            else:
                del dm[st['name']]
        else:
            raise HarnessInputError(st)


def rid_shape(rid):
    """class of the row-id layout of the source (input-distribution histogram)"""
    n = len(rid)
    if n < 2:
        return 'rid:trivial'
    lo, hi = min(rid), max(rid)
    contig = hi - lo == n - 1 and len(set(rid)) == n
    if rid == sorted(rid):
        return 'rid:identity' if rid == list(range(n)) else ('rid:ascending-offset' if contig else 'rid:ascending-gapped')
    ends = rid[0] == lo and rid[-1] == hi
    span = rid[-1] - rid[0] == n - 1
    return 'rid:permuted-%s%s%s' % ('contiguous' if contig else 'gapped', '-min-first-max-last' if ends else '',
                                    '-endspan' if span and not (contig and ends) else '')


class C14:
    id = 'C14'
    props_file = 'theories/Props/C14.v'
    kernel_files = ['KSplitGroup.v']
    oracle_vos = ['theories/Run/SC14.vo']
    model_vos = ['theories/Run/RC14.vo']
    oracle_imports = ['From DM Require Import Run.SC14.']
    model_imports = ['From DM Require Import Run.SC14 Run.RC14.']
    exhaustive = False
    rule = ('source tables of 0..12 rows (thorough: 0..16) with 1-3 key columns (group: 0-3) of type Mixed (text / '
            'numbers / numbers+text+None), Float (incl. nan, +-inf, -0.0) or Int over alphabets of 2-5 values, '
            'adversarial presets (text keys whose concatenations coincide, numeric keys whose sums or digit '
            'concatenations coincide), 0-2 payload columns and a unique uid column; the table is used as built, '
            'selected (non-contiguous / reordered row ids), shuffled or sorted before the call; operations: '
            'split(col..) without values, split(col, v1..vn) with occurring, absent and repeated values, '
            'group(dm, by); plus every key vector of length 0..4 over a 3-letter alphabet (exhaustive) and a small '
            'malformed stream (mixed column/value arguments, by-column of another DataMatrix -> ValueError); '
            'histories on one table: split/unique/count/group first, then dm.length grow/shrink, cell / slice / '
            'selection / Row assignment (in place), then the operation, judged against the table as read after '
            'the history; row-id layouts (tables of 4-12 rows with Int/Float key and payload columns next to Mixed '
            'ones, the uid stored three times: Mixed, Float, Int): 13 derivation routes -- index lists with the '
            'smallest id first, the largest last and the interior permuted (random and hand-written, also after an '
            'offset slice, applied twice, after a probe), sort by a rank / key column whose minimum and maximum are '
            'already in place, shuffles filtered for that shape, rotations, reversal, swapped ends, gapped lists '
            'with and without last-first = length-1; key combinations whose Python hashes coincide (-1/-2, '
            '0/2**61-1, inf/314159); '
            'nearly-equal DISTINCT key values (FloatColumn, MixedColumn: adjacent doubles, 0.1+0.2 vs 0.3, 1e16 vs '
            '1e16+2, relative distances 1e-16..5e-6, denormals / 1e-9 vs 0.0 and -0.0; IntColumn / MixedColumn '
            'integers beyond 2**53 sharing their nearest double) drawn cluster-wise so that they meet in one column, '
            'as the only, first or second key column of split, split with values (references: the occurring values '
            'and their neighbours a few ulps / 1e-12 / 1e-7 away) and group; '
            'the by-argument of group in every form the unchanged code accepts (list, tuple, generator expression, '
            'map object, iterator, reversed, dict values view, deque, one column, None; a by-column given twice), '
            'split arguments unpacked from one-shot iterables -- half of all group cases, and all forms on fixed '
            'tables with 0-3 by-columns (a dict keys view / set of columns cannot be built: columns are unhashable). '
            'text keys that differ only in their unicode normal form (NFC vs NFD spellings of accents, Hangul syllable '
            'vs jamo, combining marks in another order, Angstrom / Ohm sign vs letter), compatibility form (ligature, '
            'fullwidth letter, micro sign vs Greek mu, superscript digit, no-break / zero-width space), case (sharp s, '
            'dotted / dotless i) or surrounding blanks, drawn cluster-wise so that the twins meet in one column, alone '
            'and next to other keys, in split, split with values (references: every other spelling of an occurring '
            'text), multi-column split and group, verbatim presets and a share of every random family; '
            'ONE table object used twice: a first judged call (split, multi-column split, split with values, group), '
            'optional further uses (multi-column split, keep_only, name, selection, unique; discarded), then in-place '
            'changes -- rename of a key column / of another column, dm.length grow, shrink-and-grow, row deletion, '
            'new column (plain or series), column deletion by name / by object, cell / slice / Row / selection '
            'writes into a key -- then a second judged call by the (renamed) key columns; every kind of change '
            'directed, with and without a SeriesColumn next to the plain columns (its rows are compared on the '
            'Python side: every row of every part holds the samples of the source row with the same uid; group '
            'leaves it out), and the first use also as a discarded probe; both calls of such a case are judged '
            '(oracle and model terms are conjunctions); '
            'Every implementation call of a case (construction, derivation, history, reading the source, the '
            'call, consuming the generator, reading every part / group, the after-snapshot) runs inside one '
            'guard: an exception is an observation of that case (pyfail naming the step), judged against the '
            'spec (split / group of every generated input succeed) and shrunk like any other failure. '
            'Observed: every yielded value and every cell of every part / of the grouped table, and a full '
            'before/after snapshot of the source (cells, row ids, column objects). non-trivial = at least two '
            'parts/groups; distinct by (operation, kinds, key cells, order steps, values)')
    trusted_base = [
        'Coq 8.16.1 kernel (coqc; vm_compute for evaluating cases; no native_compute)',
        'translator /verif/translate/gen_splitgroup.py (ast -> Gen/KSplitGroup.v) incl. its pinned fragments of '
        'operations.split/group, BaseColumn._compare/_compare_value/_compare_nan/unique/_getrowidkey, '
        'NumericColumn._compare_value/unique/_getrowidkey/_rowid_argsort, BaseColumn.name, DataMatrix._selectrowid '
        '(name and argsort are pinned as computed from / validated against the current state on every call: the '
        'model has no cache that an in-place change could leave stale)',
        'harness/c14.py runner (reads parts/groups cell by cell, snapshot of the source) + Run/SC14.v, Run/RC14.v',
        'modelled, not verified: Python ==, hash/dict/set/tuple semantics, sorted(), numpy.unique / == / where / '
        'fancy indexing, argsort + searchsorted / Index.index as position lookup of a row id (bodies pinned, tied by '
        'correspondence on 13 row-id layouts), float(int) as round53',
    ]
    assumptions = [
        'cells are normal forms of their column type (C05); MixedColumn keys do not contain NaN (property '
        'quantifier: NaN only for FloatColumn keys) -- see defect candidate in the level note',
        'grouped (non-by) columns hold numbers only, as the documentation of group requires; a series column in '
        'the source is never a key; split must carry its rows along (compared on the Python side by uid), what '
        'group does with it is outside the claim (it is left out with a warning)',
        'explicit split values: any int/str/None/float for Mixed keys, numbers for Float keys, integers and '
        'non-numeric objects for Int keys (coercions of other references belong to C02)',
        'group refinement theorem (C14_model_group_refines): premise wf_group_b (distinct row ids, columns as long '
        'as the id list, >= 1 column unless no rows, distinct column names, no by-cell is the literal text nan) is '
        'evaluated on every dumped source as part of the model obligation',
        'the order of groups is compared as a set by the oracle (documented as unpredictable) and exactly by the '
        'model tie; the order of `unique` on a Mixed column that mixes a non-integral float with text/None, or '
        'holds both None and the string None, is not part of the oracle',
        'source unchanged is an observation on the Python side (snapshot before/after); in Coq it is the statement '
        'that the model returns its source state unmodified',
    ]

    # ------------------------------------------------------------------ runner
    def rerun(self, inp):
        with warnings.catch_warnings():
            warnings.simplefilter('ignore')
            return self._rerun(inp)

    @staticmethod
    def _validate(inp):
        if inp.get('op') not in ('split', 'splitv', 'group', 'bad_split', 'bad_group'):
            raise HarnessInputError('unknown operation %r' % (inp.get('op'),))
        names = [c['name'] for c in inp['cols']] + [a[0] for a in inp.get('alias', [])]
        first = inp.get('first')
        if first is not None:
            if first.get('op') not in ('split', 'splitv', 'group') or not isinstance(first.get('keys'), list):
                raise HarnessInputError('malformed first call %r' % (first,))
            if first['op'] != 'group' and not first['keys']:
                raise HarnessInputError('split needs a key column')
            for k in first['keys']:
                if k not in names:
                    raise HarnessInputError('key column %r of the first call is not a column of the input' % (k,))
        # names that the in-place history introduces
        names = names + [h['new'] for h in inp.get('hist', []) if h.get('t') == 'rename'] \
            + [h['name'] for h in inp.get('hist', []) if h.get('t') == 'newcol']
        for k in inp['keys']:
            if k not in names:
                raise HarnessInputError('key column %r is not a column of the input' % (k,))
        if inp.get('by_form') is not None and inp['by_form'] not in BY_FORMS:
            raise HarnessInputError('unknown form of the column arguments %r' % (inp.get('by_form'),))
        if inp['op'] in ('split', 'splitv', 'bad_split') and not inp['keys']:
            raise HarnessInputError('split needs a key column')
        for st in inp.get('order', []):
            if st.get('t') not in ('select', 'slice', 'shuffle', 'sort'):
                raise HarnessInputError(st)

    def _rerun(self, inp):
        """Every call into the implementation (construction, derivation steps, history, reading the source, the
        operation itself, consuming the generator, reading every part / the grouped table, the after-snapshot) runs
        inside one guard: an exception there is an OBSERVATION of this case (`pyfail`; the L0 spec says that split /
        group of every generated input succeed, the malformed stream expects ValueError from the call alone), never a
        crash of the harness.  Only a malformed input description (HarnessInputError) escapes."""
        self._validate(inp)
        st = {'stage': 'building the source', 'trace': [], 'src': None, 'rid': None, 'tags': [], 'nparts': 0}
        try:
            return self._run(inp, st)
        except HarnessInputError:
            raise
        except Exception as e:      # noqa: BLE001
            where = st['stage'] + ((' (' + st['trace'][-1] + ')') if st['trace'] and st['stage'].startswith('building') else '')
            if st['stage'].startswith('first call') and inp.get('first'):
                op_now = inp['first']['op']
            else:
                op_now = inp['op']
            expect = {'bad_split': 'split(col, col, value) raises ValueError from the call itself',
                      'bad_group': 'group by a column of another DataMatrix raises ValueError from the call itself'
                      }.get(op_now, '%s of this input succeeds' % ('group' if op_now == 'group' else 'split'))
            return self._result(inp, st, oracle='true', model='true',
                              observed={'raised': pyobs.exn_name(e), 'while': where, 'message': str(e)[:200]},
                              problems=['%s raised %s: %s -- the property says that %s' % (
                                  where, type(e).__name__, str(e)[:120], expect)],
                              extra_tags=['raised:' + st['stage'].split(' ')[0]])

    def _result(self, inp, st, oracle, model, observed, problems, extra_tags=()):
        op = inp['op']
        return {
            'input': inp,
            'observed': {'source': view_json(st['src']) if st['src'] is not None else None, 'rowid': st['rid'],
                         'result': observed},
            'pyfail': '; '.join(problems[:3]) if problems else None,
            'oracle': oracle, 'model': model,
            'nontrivial': st['nparts'] >= 2,
            'sig': json.dumps([op, inp['keys'], inp['cols'], inp.get('order'), inp.get('values'), inp.get('by_form'),
                               inp.get('hist'), inp.get('alias'), inp.get('first')],
                              sort_keys=True),
            'tags': st['tags'] + list(extra_tags),
        }

    def _run(self, inp, st):
        problems = Problems()
        op = inp['op']
        tags = st['tags']
        tags.extend(list(inp.get('tags', [])) + [op])
        tags.append('order:' + ('+'.join(s['t'] for s in inp.get('order', [])) or 'none'))
        if inp.get('hist'):
            tags.append('hist:' + '+'.join(h['t'] if h['t'] != 'probe' else 'probe-' + h['what'] for h in inp['hist']))
        kinds_present = set(c['kind'] for c in inp['cols'])
        if 'KSeries' in kinds_present:
            tags.append('cols:series')
        for k in inp['keys']:
            kk = [c for c in inp['cols'] if c['name'] == k]
            tags.append('key:' + (kk[0]['kind'] if kk else '?'))
        if 'KMixed' in kinds_present and len(kinds_present - {'KSeries'}) > 1:
            tags.append('cols:mixed+numeric')
        first = inp.get('first')
        if first is None:
            dm = build(inp, st['trace'])
            oracle, model, observed = self._judge(dm, inp, st, problems, '')
        else:
            # the same table object: a first judged call, in-place changes, the judged call
            tags.append('first:' + first['op'])
            dm = build(dict(inp, hist=[]), st['trace'])
            o1, m1, obs1 = self._judge(dm, first, st, problems, 'first call: ')
            st['stage'] = 'building the source: in-place changes after the first call'
            apply_history(dm, inp.get('hist', []), st['trace'])
            o2, m2, obs2 = self._judge(dm, inp, st, problems, 'second call: ')
            oracle = 'andb (%s) (%s)' % (o1, o2)
            model = 'andb (%s) (%s)' % (m1, m2)
            observed = {'first': obs1, 'second': obs2}
        return self._result(inp, st, oracle, model, observed, problems)

    def _judge(self, dm, inp, st, problems, pre):
        """one judged call (inp: op, keys, values, by_form, alias) on the table as it stands: reads the source, calls,
        reads every part / the grouped table, compares the source snapshot -> (oracle term, model term, observed)"""
        from datamatrix import DataMatrix, operations as ops
        from datamatrix._datamatrix._seriescolumn import _SeriesColumn
        op = inp['op']
        tags = st['tags']
        for k in inp['keys']:
            if k not in dm._cols:
                raise HarnessInputError('%skey column %r is not a column of the table at this point' % (pre, k))
        st['stage'] = pre + 'reading the source'
        src = view(dm, problems)
        src_series = series_view(dm)
        src_uid = [plain(u) for u in dm['uid']] if 'uid' in dm else []
        if len(set(src_uid)) != len(src_uid):
            src_series = {}
        rid = [int(r) for r in dm._rowid]
        st['src'], st['rid'] = src, rid
        tags.extend(['n=%d' % len(dm), rid_shape(rid)])
        before = snapshot(dm)
        src_l = view_lit(src, problems)
        rid_l = L.lst(L.N(r) for r in rid)
        # a column known under several names is a by-column under each of them
        alias = inp.get('alias', [])
        bynames = list(inp['keys']) + [new for new, old in alias if old in inp['keys'] and new not in inp['keys']]
        names_l = L.lst(L.string(k) for k in inp['keys'])
        oracle = model = 'true'
        observed = None
        if op == 'split':
            st['stage'] = pre + 'split (call and consuming the generator)'
            res = list(ops.split(*split_args(dm, inp['keys'], inp.get('by_form'))))
            st['stage'] = pre + 'reading the parts of split'
            obs = []
            for item in res:
                if not isinstance(item, tuple) or len(item) != len(inp['keys']) + 1 \
                        or not isinstance(item[-1], DataMatrix):
                    problems.append('split yielded %r, expected (value.., DataMatrix)' % (item,))
                    continue
                obs.append(([plain(v) for v in item[:-1]], view(item[-1], problems)))
                check_series_part(src_series, src_uid, item[-1], problems, pre + 'the part for %r' % (item[:-1],))
            st['nparts'] = max(st['nparts'], len(obs))
            obs_l = L.lst('(%s, %s)' % (L.lst(val_lit(v, problems) for v in vs), view_lit(pv, problems))
                          for vs, pv in obs)
            oracle = 'split_oracle %s %s %s' % (src_l, names_l, obs_l)
            model = 'split_model %s %s %s %s' % (rid_l, src_l, names_l, obs_l)
            observed = [[[jv(v) for v in vs], view_json(pv)] for vs, pv in obs]
        elif op == 'splitv':
            st['stage'] = pre + 'split with values (call and consuming the generator)'
            values = [pyobs.dec(v) for v in inp['values']]
            res = list(ops.split(dm[inp['keys'][0]], *values))
            st['stage'] = pre + 'reading the parts of split'
            obs = []
            for j, item in enumerate(res):
                if not isinstance(item, DataMatrix):
                    problems.append('split with values yielded %r, expected a DataMatrix' % (item,))
                    continue
                obs.append(view(item, problems))
                check_series_part(src_series, src_uid, item, problems, pre + 'part %d' % j)
            st['nparts'] = max(st['nparts'], len([o for o in obs if o and o[0][2]]))
            vals_l = L.lst(val_lit(v, problems) for v in values)
            obs_l = L.lst(view_lit(pv, problems) for pv in obs)
            oracle = 'splitv_oracle %s %s %s %s' % (src_l, L.string(inp['keys'][0]), vals_l, obs_l)
            model = 'splitv_model %s %s %s %s %s' % (rid_l, src_l, L.string(inp['keys'][0]), vals_l, obs_l)
            observed = [view_json(pv) for pv in obs]
        elif op == 'group':
            st['stage'] = pre + 'group (the call)'
            if inp.get('by_form'):
                tags.append('by:' + inp['by_form'])
            cm = ops.group(dm, make_by(dm, inp['keys'], inp.get('by_form')))
            st['stage'] = pre + 'reading the grouped table'
            if not isinstance(cm, DataMatrix):
                problems.append('group returned %r, expected a DataMatrix' % (cm,))
                cm = DataMatrix(length=0)
            bycols, sercols = [], []
            for name, _k, _c in src:
                if name not in cm:
                    problems.append('grouped table lacks column %s' % name)
                    continue
                col = cm[name]
                if isinstance(col, _SeriesColumn):
                    a = np.asarray(col._seq, dtype=float)
                    if a.ndim != 2 or a.shape != (len(cm), col.depth):
                        problems.append('series column %s has shape %r, length %d, depth %d' % (
                            name, a.shape, len(cm), col.depth))
                        continue
                    sercols.append((name, int(col.depth), [[float(x) for x in row] for row in a]))
                else:
                    k = kindname(col)
                    if k is None:
                        problems.append('grouped column %s has unexpected type %s' % (name, type(col).__name__))
                        k = 'KMixed'
                    bycols.append((name, k, [plain(x) for x in col]))
            # a series column of the source is outside the claim (group leaves it out with a warning)
            extra = [n for n in cm.column_names if n not in [s[0] for s in src] and n not in src_series]
            if extra:
                problems.append('grouped table has extra columns %r' % extra)
            st['nparts'] = max(st['nparts'], len(cm))
            obs_l = '{| g_n := %s; g_by := %s; g_series := %s |}' % (
                L.nat(len(cm)), view_lit(bycols, problems),
                L.lst('(%s, %s, %s)' % (L.string(n), L.nat(d), L.lst(L.lst(L.fl(x) for x in row) for row in rows))
                      for n, d, rows in sercols))
            bynames_l = L.lst(L.string(k) for k in bynames)
            oracle = 'group_oracle %s %s %s' % (src_l, bynames_l, obs_l)
            model = 'group_model %s %s %s %s' % (rid_l, src_l, bynames_l, obs_l)
            observed = {'n': len(cm), 'by': view_json(bycols),
                        'series': [[n, d, [[x.hex() for x in row] for row in rows]] for n, d, rows in sercols]}
        elif op == 'bad_split':
            # columns and values mixed: ValueError
            st['stage'] = 'preparing split(col, col, value)'
            args = [dm[inp['keys'][0]], dm[inp['keys'][-1]], 'a']
            out = pyobs.outcome(lambda: list(ops.split(*args)))
            observed = list(out) if out[0] == 'exn' else ['ok']
            if out != ('exn', 'ValueError'):
                problems.append('split(col, col, value) did not raise ValueError: %r' % (observed,))
        elif op == 'bad_group':
            st['stage'] = 'preparing group by a foreign column'
            other = DataMatrix(length=len(dm))
            other.z = 0
            out = pyobs.outcome(lambda: ops.group(dm, by=[other.z]))
            observed = list(out) if out[0] == 'exn' else ['ok']
            if out != ('exn', 'ValueError'):
                problems.append('group by a column of another DataMatrix did not raise ValueError: %r' % (observed,))
        else:
            raise HarnessInputError(op)
        st['stage'] = pre + 'reading the source after the call'
        after = snapshot(dm)
        if after != before:
            problems.append('%sthe source DataMatrix was modified by %s' % (pre, op))
        return oracle, model, observed

    # ------------------------------------------------------------------ generator
    POOLS = {
        'text': ['a', 'bc', 'ab', 'c', '', 'abc', 'b', 'None'],
        'mnum': [0, 1, 2, 12, 11, -1, 1.5, -0.5, INF, 21],
        'mint': [0, 1, 2, 12, 11, -1, 21, 112],
        'mhet': ['a', 'ab', 1, 12, 2, None, 'b', '', -3],
        'mhetf': ['a', 1, 2.5, None, 'None', -0.5],
        'float': [0.0, -0.0, 1.0, 2.0, 1.5, NAN, INF, -INF, 3.0, 12.0],
        'int': [0, 1, 2, 3, -1, 12, 2 ** 40, 21],
        # ordinary values next to the clusters of NEAR (filled in below)
        'fnear': [1.0, 2.5, 0.0, -1.0, NAN, INF, 0.5, 12.0],
        'mnear': [1, 2.5, 0, -1, 'a', None, 0.5, 12],
        'inear': [0, 1, -1, 2 ** 40],
        # ordinary text next to the clusters of UNI (filled in below)
        'utext': ['a', 'b', '', 'cafe', 'z', '\u00e9t\u00e9'],
    }
    FLAVOUR_KIND = {'text': 'KMixed', 'mnum': 'KMixed', 'mint': 'KMixed', 'mhet': 'KMixed', 'mhetf': 'KMixed',
                    'float': 'KFloat', 'int': 'KInt', 'fnear': 'KFloat', 'mnear': 'KMixed', 'inear': 'KInt',
                    'utext': 'KMixed'}
    # clusters of DISTINCT values that are nearly equal: adjacent doubles, a few ulps apart, relative distance
    # 1e-12 / 1e-10 / 1e-7 / 5e-6, absolute distance below 1e-8 around zero, integers beyond 2**53 that share
    # their nearest double.  Every value of a cluster is a key of its own.
    NEAR = {
        'fnear': [
            [0.1 + 0.2, 0.3], [-0.3, -(0.1 + 0.2)],
            [1.0, math.nextafter(1.0, 2.0), math.nextafter(1.0, 0.0)],
            [1e16, 1e16 + 2], [float(2 ** 53), float(2 ** 53) + 2.0],
            [0.0, -0.0, 5e-324, -5e-324], [1e-310, 1.0000001e-310], [1e-9, 2e-9, 0.0],
            [2.5, 2.5 * (1 + 2.0 ** -40), 2.5 * (1 + 2.0 ** -33)],
            [1e300, math.nextafter(1e300, INF)], [-1e-5, math.nextafter(-1e-5, 0.0)],
            [123456.789, 123456.789 * (1 + 1e-7)], [100.0, 100.0005],
            [1.7976931348623157e308, math.nextafter(1.7976931348623157e308, 0.0), INF],
        ],
        'mnear': [
            [0.1 + 0.2, 0.3], [1, math.nextafter(1.0, 2.0), math.nextafter(1.0, 0.0)],
            [10 ** 16, 10 ** 16 + 1, 10 ** 16 + 2], [2 ** 53, 2 ** 53 + 1],
            [0, 5e-324], [2.5, 2.5 * (1 + 2.0 ** -40)], [-0.3, -(0.1 + 0.2)], [100.5, 100.5005],
        ],
        'inear': [[2 ** 53, 2 ** 53 + 1, 2 ** 53 + 2], [-2 ** 53, -2 ** 53 - 1], [2 ** 62, 2 ** 62 + 1],
                  [10 ** 16, 10 ** 16 + 1]],
    }
    # clusters of DISTINCT text values that look alike / are equal after a unicode normalisation (NFC / NFD:
    # composed vs decomposed accents, Hangul syllable vs jamo, combining marks in another order, Angstrom / Ohm sign
    # vs the letter; NFKC / NFKD: ligature, fullwidth form, micro sign vs Greek mu, no-break space; case folding:
    # sharp s, dotted / dotless i; surrounding blanks).  Every value of a cluster is a key of its own.
    UNI = [
        ['caf\u00e9', 'cafe\u0301', 'cafe'],
        ['\u00c5', 'A\u030a', '\u212b', 'A'],
        ['\u00f1', 'n\u0303', 'n'],
        ['\uac00', '\u1100\u1161'],
        ['q\u0307\u0323', 'q\u0323\u0307'],
        ['\u1e69', 's\u0323\u0307', '\u1e63\u0307', 's\u0307\u0323'],
        ['\u2126', '\u03a9'],
        ['\ufb01', 'fi', 'FI'],
        ['\uff41', 'a', 'A'],
        ['\u00b5', '\u03bc', '\u039c'],
        ['\u00df', 'ss', '\u1e9e', 'SS'],
        ['i\u0307', '\u0130', 'i', '\u0131', 'I'],
        ['a', 'a ', ' a', 'a\u00a0', 'a\u200b'],
        ['\u00e9', 'e\u0301', '\u00e8', 'e'],
        ['x\u00b2', 'x2', 'x\u2082'],
    ]
    NEAR['utext'] = UNI
    # rows of key combinations that coincide under concatenation / addition
    PRESETS = [
        (['text', 'text'], [('a', 'bc'), ('ab', 'c'), ('abc', ''), ('', 'abc')]),
        (['int', 'int'], [(1, 2), (2, 1), (0, 3), (3, 0)]),
        (['mint', 'mint'], [(1, 12), (11, 2), (112, 0), (1, 2), (2, 1)]),
        (['float', 'float'], [(1.0, 2.0), (2.0, 1.0), (NAN, 1.0), (1.0, NAN), (NAN, NAN), (1.5, 1.5)]),
        (['text', 'mint'], [('a', 1), ('a1', 0), ('', 1), ('a', 12)]),
        (['mhet', 'text'], [(None, 'a'), ('None', 'a'), (1, 'a'), ('a', ''), ('', 'a')]),
        (['text', 'text', 'text'], [('a', 'b', 'c'), ('ab', '', 'c'), ('a', 'bc', ''), ('', 'ab', 'c'), ('a', 'b', 'c')]),
        (['int', 'float', 'mint'], [(1, 1.0, 1), (1, 1.0, 2), (2, 0.0, 1), (1, NAN, 1), (0, 2.0, 1)]),
        # distinct combinations whose Python hashes coincide: hash(-1) == hash(-2), hash(0) == hash(2**61 - 1),
        # hash(inf) == hash(314159), hash(-inf) == hash(-314159)
        (['int', 'text'], [(-1, 'a'), (-2, 'a'), (-1, 'b'), (-2, 'b'), (1, 'a')]),
        (['mint', 'int'], [(0, 1), (2 ** 61 - 1, 1), (-1, 1), (-2, 1), (0, 2)]),
        (['float', 'int'], [(INF, 0), (314159.0, 0), (-INF, 0), (-314159.0, 0), (-1.0, 0), (-2.0, 0)]),
        (['mnum'], [(-1,), (-2,), (INF,), (314159,), (0,), (2 ** 61 - 1,)]),
        # distinct values that are nearly equal (see NEAR), alone, as first and as second key column
        (['fnear'], [(0.1 + 0.2,), (0.3,), (1.0,), (math.nextafter(1.0, 2.0),), (NAN,), (2.5,)]),
        (['fnear', 'text'], [(0.3, 'a'), (0.1 + 0.2, 'a'), (0.3, 'b'), (0.1 + 0.2, 'b'), (1e16, 'a'), (1e16 + 2, 'a')]),
        (['int', 'fnear'], [(1, 0.3), (1, 0.1 + 0.2), (2, 0.3), (2, 0.1 + 0.2), (1, NAN), (2, 5e-324), (2, 0.0)]),
        (['mnear', 'fnear'], [(0.3, 1.0), (0.1 + 0.2, 1.0), (0.3, math.nextafter(1.0, 2.0)), (10 ** 16, 0.0),
                              (10 ** 16 + 1, 0.0), (10 ** 16, -5e-324)]),
        (['inear'], [(2 ** 53,), (2 ** 53 + 1,), (2 ** 53 + 2,), (1,)]),
        # text keys that differ only in their unicode normal form / compatibility form / case, alone, next to
        # other keys, as first and as second key column
        (['utext'], [('caf\u00e9',), ('tea',), ('cafe\u0301',), ('',), (' ',), ('cafe',)]),
        (['utext'], [('\u00c5',), ('A\u030a',), ('\u212b',), ('\ufb01',), ('fi',), ('\u00b5',), ('\u03bc',),
                     ('\uff41',), ('a',)]),
        (['int', 'utext'], [(1, 'caf\u00e9'), (1, 'cafe\u0301'), (2, 'cafe\u0301'), (2, 'caf\u00e9'), (1, 'tea'),
                            (2, '\u00b5'), (2, '\u03bc')]),
        (['utext', 'text'], [('\u00f1', 'a'), ('n\u0303', 'a'), ('\u00f1', 'b'), ('n\u0303', 'b'), ('n', 'a'),
                             ('\uac00', 'a'), ('\u1100\u1161', 'a')]),
        (['utext', 'utext'], [('\u00e9', 'e\u0301'), ('e\u0301', '\u00e9'), ('\u00e9', '\u00e9'),
                              ('e\u0301', 'e\u0301'), ('e', '\u0301')]),
        (['float', 'utext', 'int'], [(1.0, '\ufb01', 1), (1.0, 'fi', 1), (NAN, '\ufb01', 1), (NAN, 'fi', 1),
                                     (1.0, '\uff41', 2), (1.0, 'a', 2)]),
    ]

    def _payload(self, rng, n, numeric):
        cols = []
        for name in ('p', 'q')[:rng.choice([0, 1, 1, 2])]:
            fl = rng.choice(['float', 'int', 'mnum'] if numeric else ['float', 'int', 'mnum', 'mhet', 'text'])
            pool = self.POOLS[fl]
            cols.append({'name': name, 'kind': self.FLAVOUR_KIND[fl],
                         'cells': [pyobs.enc(rng.choice(pool)) for _ in range(n)]})
        uid = rng.sample(range(100), n) if n <= 100 else list(range(n))
        cols.append({'name': 'uid', 'kind': 'KInt', 'cells': [pyobs.enc(u) for u in uid]})
        return cols

    def _order(self, rng, n_base, keys, mode):
        steps = []
        n = n_base
        if mode in ('select', 'select+shuffle', 'select+sort'):
            k = rng.randint(0, n_base) if rng.random() < 0.2 else rng.randint(max(0, n_base - 4), n_base)
            keep = sorted(rng.sample(range(n_base), k))
            if rng.random() < 0.3:
                rng.shuffle(keep)
            steps.append({'t': 'select', 'keep': keep})
            n = k
        if mode in ('shuffle', 'select+shuffle'):
            steps.append({'t': 'shuffle', 'seed': rng.randint(0, 10 ** 6)})
        if mode in ('sort', 'select+sort') and keys:
            steps.append({'t': 'sort', 'by': rng.choice(keys)})
        return steps, n

    ALL_FLAVOURS = ['text', 'text', 'mint', 'mnum', 'mhet', 'mhet', 'mhetf', 'float', 'float', 'int', 'utext']

    def _pool(self, rng, f):
        """the alphabet of one key column: 1-5 values of the flavour's pool; for the nearly-equal flavours one or two
        whole clusters (so that nearly-equal values do meet in the column) plus 0-2 ordinary values"""
        if f not in self.NEAR:
            return rng.sample(self.POOLS[f], rng.randint(1, min(5, len(self.POOLS[f]))))
        pool = []
        for cl in rng.sample(self.NEAR[f], rng.choice([1, 1, 2])):
            pool.extend(cl if rng.random() < 0.7 else rng.sample(cl, 2))
        pool.extend(rng.sample(self.POOLS[f], rng.choice([0, 1, 2])))
        return pool

    def _table(self, rng, maxn, nkeys_choices, near=False):
        """-> (cols, keys) base table; near: at least one key column holds nearly-equal distinct values (True: numbers;
        'uni': text that differs only in its unicode normal / compatibility form or case)"""
        if near:
            nk = max(1, rng.choice(nkeys_choices))
            n = rng.randint(2, maxn) if rng.random() < 0.9 else rng.randint(0, maxn)
            special = ['utext'] if near == 'uni' else ['fnear', 'fnear', 'fnear', 'mnear', 'inear']
            flav = [rng.choice(special if rng.random() < 0.6 else self.ALL_FLAVOURS) for _ in range(nk)]
            if not any(f in special for f in flav):
                flav[rng.randrange(nk)] = rng.choice(special if near == 'uni' else ['fnear', 'fnear', 'mnear'])
            keycols = []
            for j, f in enumerate(flav):
                pool = self._pool(rng, f)
                keycols.append({'name': 'k%d' % j, 'kind': self.FLAVOUR_KIND[f],
                                'cells': [pyobs.enc(rng.choice(pool)) for _ in range(n)]})
            return keycols, [c['name'] for c in keycols], n
        if rng.random() < 0.3:
            flavours, combos = rng.choice(self.PRESETS)
            n = rng.randint(0, maxn)
            rows = [rng.choice(combos) for _ in range(n)]
            if n >= len(combos) and rng.random() < 0.5:
                rows[:len(combos)] = combos
                rng.shuffle(rows)
            keycols = [{'name': 'k%d' % j, 'kind': self.FLAVOUR_KIND[f], 'cells': [pyobs.enc(r[j]) for r in rows]}
                       for j, f in enumerate(flavours)]
        else:
            nk = rng.choice(nkeys_choices)
            n = rng.randint(0, maxn)
            keycols = []
            for j in range(nk):
                f = rng.choice(self.ALL_FLAVOURS)
                pool = self._pool(rng, f)
                keycols.append({'name': 'k%d' % j, 'kind': self.FLAVOUR_KIND[f],
                                'cells': [pyobs.enc(rng.choice(pool)) for _ in range(n)]})
        return keycols, [c['name'] for c in keycols], n

    SPELLINGS = [lambda x: unicodedata.normalize('NFC', x), lambda x: unicodedata.normalize('NFD', x),
                 lambda x: unicodedata.normalize('NFKC', x), lambda x: unicodedata.normalize('NFKD', x),
                 str.casefold, str.upper, str.lower, str.strip, lambda x: x + ' ']

    def _values(self, rng, keycol):
        """explicit values for split(col, v1, ...)"""
        kind = keycol['kind']
        present = [pyobs.dec(x) for x in keycol['cells']]
        if kind == 'KMixed':
            extra = ['zz', 'a', 7, None, 1.5, '', NAN, 0]
        elif kind == 'KFloat':
            extra = [7, 1, 2.0, NAN, INF, -INF, 0, -0.0, 1.5]
        else:
            extra = [7, 1, 2.0, 'zz', None, 0, -1]
        # references next to a float that occurs: the adjacent doubles, a few ulps / 1e-12 / 1e-7 relative away
        floats = [x for x in present if type(x) is float and x == x and abs(x) != INF]
        if kind in ('KMixed', 'KFloat') and floats:
            x = rng.choice(floats)
            extra = extra + [math.nextafter(x, INF), math.nextafter(x, -INF), x * (1 + 2.0 ** -50), x * (1 + 1e-12),
                             x * (1 - 1e-7), 0.3, 0.1 + 0.2]
        # references next to a text that occurs: its other unicode spellings
        texts = [x for x in present if type(x) is str and x]
        if kind == 'KMixed' and texts:
            x = rng.choice(texts)
            extra = extra + [f(x) for f in self.SPELLINGS if f(x) != x][:6] + [y for cl in self.UNI if x in cl for y in cl]
        k = rng.randint(1, 5)
        vals = []
        for _ in range(k):
            if present and rng.random() < 0.65:
                vals.append(rng.choice(present))
            else:
                vals.append(rng.choice(extra))
        if kind == 'KMixed':
            # NaN cells are outside the quantifier for Mixed keys, a NaN reference is fine
            pass
        return [pyobs.enc(v) for v in vals]

    def _case(self, rng, op, maxn, near=False):
        nk = {'split': [1, 1, 2, 2, 3], 'splitv': [1], 'group': [0, 1, 1, 2, 2, 3]}[op]
        keycols, keys, n = self._table(rng, maxn, nk, near)
        if op == 'splitv':
            keycols, keys = keycols[:1], keys[:1]
        cols = keycols + self._payload(rng, n, numeric=(op == 'group'))
        mode = rng.choice(['none', 'none', 'select', 'shuffle', 'sort', 'select+shuffle', 'select+sort'])
        steps, _n = self._order(rng, n, keys, mode)
        inp = {'op': op, 'cols': cols, 'keys': keys, 'order': steps,
               'tags': ['unicode' if near == 'uni' else 'near' if near else 'random']}
        if op == 'splitv':
            inp['values'] = self._values(rng, keycols[0])
        if op == 'group':
            inp['by_form'] = self._by_form(rng, len(keys))
        if op == 'split' and rng.random() < 0.15:
            inp['by_form'] = rng.choice(['gen', 'map', 'iter', 'reversed'])      # split(*iterable)
        return inp

    @staticmethod
    def _by_form(rng, nkeys):
        """how the by-columns are handed to group: half of the cases a list (or the single column / None where that
        is possible), the other half any other iterable the unchanged code accepts"""
        if rng.random() < 0.5:
            return rng.choice(BY_FORMS_MULTI[1:])
        if nkeys == 0:
            return rng.choice(['none', 'list'])
        if nkeys == 1:
            return rng.choice(['single', 'list'])
        return 'list'

    # ------------------------------------------------------------------ row-id layouts (derivation routes)
    # index lists whose result has its smallest row id first and its largest last with the interior permuted
    # (contiguous: 0..m-1; offset: a..b), written out by hand
    HAND = [[0, 2, 1, 3], [0, 3, 1, 2, 4], [0, 2, 1, 3, 4, 5], [0, 1, 3, 2, 4], [0, 4, 2, 3, 1, 5], [0, 2, 4, 1, 3, 5],
            [1, 3, 2, 4], [2, 4, 3, 5], [1, 4, 2, 3, 5], [0, 1, 2, 4, 3, 5, 6], [0, 5, 4, 3, 2, 1, 6]]
    ROUTES = ['interior', 'hand', 'sort-rank', 'sort-key', 'shuffle-shaped', 'offset-interior', 'rotate', 'reverse',
              'swap-ends', 'endspan-gapped', 'gapped-ends', 'double', 'interior+probe']

    @staticmethod
    def _interior_perm(rng, m):
        """[0, <1..m-2 permuted, not the identity>, m-1]   (m >= 4)"""
        mid = list(range(1, m - 1))
        for _ in range(20):
            rng.shuffle(mid)
            if mid != list(range(1, m - 1)):
                break
        else:
            mid.reverse()
        return [0] + mid + [m - 1]

    @staticmethod
    def _shuffle_perm(seed, m):
        """the permutation ops.shuffle applies under random.seed(seed): random.shuffle of a length-m sequence"""
        r = _random.Random()
        r.seed(seed)
        l = list(range(m))
        r.shuffle(l)
        return l

    def _route(self, rng, route, n, keycols):
        """-> (order steps, rank cells (ints, one per base row), hist)   for a base table of n >= 4 rows"""
        rank = list(range(n))
        rng.shuffle(rank)
        hist = []
        if route == 'interior':
            steps = [{'t': 'select', 'keep': self._interior_perm(rng, n)}]
        elif route == 'hand':
            fits = [h for h in self.HAND if max(h) < n]
            steps = [{'t': 'select', 'keep': list(rng.choice(fits))}]
        elif route == 'sort-rank':
            # the rank column already has its minimum in the first and its maximum in the last row
            target = self._interior_perm(rng, n)
            rank = [0] * n
            for pos, row in enumerate(target):
                rank[row] = pos
            steps = [{'t': 'sort', 'by': 'rk'}]
        elif route == 'sort-key':
            # a numeric key whose smallest value is in the first and whose largest is in the last row
            kc = keycols[0]
            pool = {'KInt': [1, 2, 3, 2, 1], 'KFloat': [1.0, 2.5, 2.0, 1.5], 'KMixed': [1, 2, 3, 2.5]}[kc['kind']]
            cells = [0] + [rng.choice(pool) for _ in range(n - 2)] + [9]
            if cells[1:-1] == sorted(cells[1:-1]):
                cells[1], cells[-2] = max(pool), min(pool)
            kc['cells'] = [pyobs.enc(float(c) if kc['kind'] == 'KFloat' else c) for c in cells]
            steps = [{'t': 'sort', 'by': kc['name']}]
        elif route == 'shuffle-shaped':
            steps = None
            for _ in range(600):
                seed = rng.randint(0, 10 ** 6)
                perm = self._shuffle_perm(seed, n)
                if perm[0] == 0 and perm[-1] == n - 1 and perm != list(range(n)):
                    steps = [{'t': 'shuffle', 'seed': seed}]
                    break
            if steps is None:
                steps = [{'t': 'select', 'keep': self._interior_perm(rng, n)}]
        elif route == 'offset-interior':
            a = rng.randint(1, n - 4) if n > 4 else 0
            b = rng.randint(a + 4, n)
            steps = [{'t': 'slice', 'a': a, 'b': b}, {'t': 'select', 'keep': self._interior_perm(rng, b - a)}]
        elif route == 'rotate':
            k = rng.randint(1, n - 1)
            steps = [{'t': 'select', 'keep': list(range(k, n)) + list(range(k))}]
        elif route == 'reverse':
            steps = [{'t': 'select', 'keep': list(range(n - 1, -1, -1))}]
        elif route == 'swap-ends':
            mid = list(range(1, n - 1))
            if rng.random() < 0.5:
                rng.shuffle(mid)
            steps = [{'t': 'select', 'keep': [n - 1] + mid + [0]}]
        elif route == 'endspan-gapped':
            # last id - first id = length - 1 although the ids are not that range
            m = rng.randint(3, n - 1)
            f = rng.randint(0, n - m)
            outside = [i for i in range(n) if i < f or i > f + m - 1]
            inside = [i for i in range(f + 1, f + m - 1)]
            k_out = rng.randint(1, min(len(outside), m - 2))
            mid = rng.sample(outside, k_out) + rng.sample(inside, m - 2 - k_out)
            rng.shuffle(mid)
            steps = [{'t': 'select', 'keep': [f] + mid + [f + m - 1]}]
        elif route == 'gapped-ends':
            # gaps, smallest id first, largest last, interior permuted
            m = rng.randint(4, max(4, n - 1))
            keep = sorted(rng.sample(range(n), m))
            mid = keep[1:-1]
            while mid == keep[1:-1]:
                rng.shuffle(mid)
            steps = [{'t': 'select', 'keep': [keep[0]] + mid + [keep[-1]]}]
        elif route == 'double':
            steps = [{'t': 'select', 'keep': self._interior_perm(rng, n)},
                     {'t': 'select', 'keep': self._interior_perm(rng, n)}]
        elif route == 'interior+probe':
            # the same layout, after the table has answered other questions first (caches populated)
            steps = [{'t': 'select', 'keep': self._interior_perm(rng, n)}]
            hist = [{'t': 'probe', 'what': rng.choice(['split', 'unique', 'count', 'group']), 'col': keycols[0]['name']}]
        else:
            raise HarnessInputError(route)
        return steps, rank, hist

    def _shaped_case(self, rng, op, maxn, route):
        """tables of >= 4 (mostly >= 6) rows with numeric (Int / Float) key and payload columns next to Mixed ones,
        reordered through `route`; small key alphabets so that parts / groups hold several rows"""
        n = min(maxn, rng.choice([4, 5, 6, 6, 7, 8, 8, 9, 10, 12]))
        if route == 'shuffle-shaped':
            n = min(n, 7)
        if route == 'endspan-gapped':
            n = max(n, 5)
        nk = 1 if op == 'splitv' else rng.choice([1, 1, 2])
        flav = [rng.choice(['int', 'float', 'int', 'float', 'text', 'mint'])]
        if nk == 2:
            flav.append(rng.choice(['int', 'float', 'text', 'mhet'] if flav[0] in ('text', 'mint') else ['text', 'mint', 'int']))
        if route == 'sort-key' and flav[0] == 'text':
            flav[0] = 'int'
        keycols = []
        for j, f in enumerate(flav):
            pool = rng.sample(self.POOLS[f][:5], rng.randint(2, 3))
            keycols.append({'name': 'k%d' % j, 'kind': self.FLAVOUR_KIND[f],
                            'cells': [pyobs.enc(rng.choice(pool)) for _ in range(n)]})
        steps, rank, hist = self._route(rng, route, n, keycols)
        uid = rng.sample(range(100), n)
        rk_kind = rng.choice(['KFloat', 'KInt'])
        cols = list(keycols)
        if op != 'group':       # grouped columns must hold numbers: the text label only for split
            cols.append({'name': 'lab', 'kind': 'KMixed', 'cells': [pyobs.enc('r%d' % i) for i in range(n)]})
        cols += [{'name': 'um', 'kind': 'KMixed', 'cells': [pyobs.enc(u) for u in uid]},      # the uid in object storage
                 {'name': 'rk', 'kind': rk_kind,
                  'cells': [pyobs.enc(float(r) if rk_kind == 'KFloat' else r) for r in rank]},
                 {'name': 'uf', 'kind': 'KFloat', 'cells': [pyobs.enc(u + 0.5) for u in uid]},  # ... in a float buffer
                 {'name': 'uid', 'kind': 'KInt', 'cells': [pyobs.enc(u) for u in uid]}]        # ... in an int buffer
        inp = {'op': op, 'cols': cols, 'keys': [c['name'] for c in keycols], 'order': steps,
               'tags': ['layout', 'route:' + route]}
        if hist:
            inp['hist'] = hist
        if op == 'splitv':
            inp['values'] = self._values(rng, keycols[0])
        if op == 'group':
            inp['by_form'] = self._by_form(rng, len(keycols))
        return inp

    def _pending_cases(self, rng):
        """behaviour of the unchanged tree that the property does not allow (see INCLUDE_PENDING_FINDINGS)"""
        out = []
        # (a) several NaN objects in a MixedColumn key
        for cells in ([NAN, 'a', NAN, 'a'], [NAN, NAN], [1, NAN, 'b', NAN, NAN, 1]):
            cols = [{'name': 'k0', 'kind': 'KMixed', 'cells': [pyobs.enc(v) for v in cells]},
                    {'name': 'uid', 'kind': 'KInt', 'cells': [pyobs.enc(10 + i) for i in range(len(cells))]}]
            out.append({'op': 'split', 'cols': cols, 'keys': ['k0'], 'order': [], 'tags': ['pending:mixed-nan']})
            out.append({'op': 'group', 'cols': cols, 'keys': ['k0'], 'order': [], 'by_form': 'list',
                        'tags': ['pending:mixed-nan']})
        # (b) the by-/split-column is known under two names
        for kind, cells in (('KMixed', ['x', 'y', 'x', 'y']), ('KInt', [1, 2, 1, 2])):
            cols = [{'name': 'A', 'kind': kind, 'cells': [pyobs.enc(v) for v in cells]},
                    {'name': 'C', 'kind': 'KInt', 'cells': [pyobs.enc(v) for v in [1, 1, 2, 2]]},
                    {'name': 'uid', 'kind': 'KInt', 'cells': [pyobs.enc(10 + i) for i in range(4)]}]
            for keys in (['C', 'A'], ['A', 'C']):
                out.append({'op': 'split', 'cols': cols, 'keys': keys, 'order': [], 'alias': [['B', 'A']],
                            'tags': ['pending:alias']})
            for form in ('single', 'list'):
                out.append({'op': 'group', 'cols': cols, 'keys': ['A'], 'order': [], 'alias': [['B', 'A']],
                            'by_form': form, 'tags': ['pending:alias']})
        return out

    def _hist_case(self, rng, op, maxn):
        """split / unique / count first, then mutate the same table in place, then the operation"""
        inp = self._case(rng, op, maxn, near=rng.random() < 0.15)
        if op == 'group':       # grouped columns must stay numeric after dm.length / assignments
            inp['cols'] = [c for c in inp['cols'] if c['name'] in inp['keys'] or c['name'] == 'uid' or c['kind'] != 'KMixed']
        inp['tags'] = ['history']
        n = len(inp['cols'][0]['cells'])
        for st in inp['order']:
            if st['t'] == 'select':
                n = len(st['keep'])
        keys = inp['keys']
        targets = [c for c in inp['cols'] if c['name'] != 'uid']
        extra = {'KMixed': ['zz', 5, None, 'a', ''], 'KFloat': [1.0, NAN, 7.5, 0.0, 0.3, 0.1 + 0.2], 'KInt': [1, 9, 0]}

        def value_for(col):
            pool = [pyobs.dec(x) for x in col['cells']] + extra[col['kind']]
            return pyobs.enc(rng.choice(pool))

        def probe():
            col = rng.choice(keys) if keys else 'uid'
            return {'t': 'probe', 'what': rng.choice(['split', 'split', 'unique', 'count', 'group']), 'col': col}

        def grow():
            delta = rng.choice([1, 2, 3])
            return {'t': 'length', 'delta': delta, 'uids': rng.sample(range(100, 200), n + delta + 8)}

        def use():
            col = rng.choice(keys) if keys else 'uid'
            return {'t': 'use', 'how': rng.choice(['shuffle_dm', 'shuffle_dm', 'shuffle_col', 'sample', 'sort']),
                    'col': col, 'seed': rng.randrange(1000)}

        hist = [probe()]
        if rng.random() < 0.3:
            # split / select, then shuffle or sample the same table (results discarded), then the judged operation
            hist.extend(use() for _ in range(rng.randint(1, 2)))
            if rng.random() < 0.3:
                hist.append(probe())
                hist.append(use())
        elif rng.random() < 0.45 or not targets:
            st = grow()
            n += st['delta']
            hist.append(st)
        else:
            for _ in range(rng.randint(1, 3)):
                kind = rng.choice(['length', 'length', 'setcell', 'setslice', 'setsel', 'setrow', 'probe'])
                if kind == 'probe':
                    hist.append(probe())
                elif kind == 'length' or n == 0:
                    delta = rng.choice([1, 2, 3, -1, -2])
                    delta = max(delta, -n)
                    hist.append({'t': 'length', 'delta': delta, 'uids': rng.sample(range(100, 200), n + max(delta, 0) + 8)})
                    n += delta
                else:
                    col = rng.choice(targets)
                    if kind == 'setcell':
                        hist.append({'t': 'setcell', 'col': col['name'], 'i': rng.randrange(n), 'v': value_for(col)})
                    elif kind == 'setslice':
                        a = rng.randint(0, n)
                        hist.append({'t': 'setslice', 'col': col['name'], 'a': a, 'b': rng.randint(a, n), 'v': value_for(col)})
                    elif kind == 'setrow':
                        hist.append({'t': 'setrow', 'col': col['name'], 'i': rng.randrange(n), 'v': value_for(col)})
                    else:
                        by = rng.choice(targets)
                        hist.append({'t': 'setsel', 'col': col['name'], 'by': by['name'], 'ref': value_for(by), 'v': value_for(col)})
        inp['hist'] = hist
        if op == 'splitv':
            # values may also name the default cell of freshly added rows
            kind = [c for c in inp['cols'] if c['name'] == keys[0]][0]['kind']
            inp['values'] = inp['values'] + [pyobs.enc({'KMixed': '', 'KFloat': NAN, 'KInt': 0}[kind])]
        return inp

    # ------------------------------------------------------------------ the same table used twice
    CHANGES = ['rename-key', 'rename-key', 'rename-other', 'grow', 'grow', 'shrink-grow', 'delrow', 'newcol', 'delcol',
               'write-key', 'write-key']

    def _repeat_case(self, rng, maxn, change=None, series=None, uni=False):
        """ONE table object: a first judged call (split / multi-column split / split with values / group), then
        in-place changes (rename of a key column or of another column, grow, shrink-and-grow, row deletion, new
        column, column deletion, cell writes into a key), then a second judged call by the (renamed) key columns;
        with and without a SeriesColumn next to the plain columns."""
        op1 = rng.choice(['split', 'split', 'splitv', 'group', 'group'])
        op2 = rng.choice(['split', 'split', 'splitv', 'group', 'group'])
        nk = rng.choice([1, 2, 2, 3])
        if change == 'rename-key' and rng.random() < 0.8:
            # calls that look columns up by NAME: group, split by several columns
            op1, op2, nk = rng.choice(['split', 'group']), rng.choice(['split', 'group']), rng.choice([2, 2, 3])
        grouped = 'group' in (op1, op2)
        n = rng.randint(2, maxn) if rng.random() < 0.9 else rng.randint(0, maxn)
        flavours = ['text', 'mint', 'mhet', 'float', 'int', 'int', 'utext' if uni or rng.random() < 0.3 else 'text']
        keycols = []
        for j in range(nk):
            f = 'utext' if (uni and j == 0) else rng.choice(flavours)
            pool = self._pool(rng, f)[:4]
            keycols.append({'name': 'k%d' % j, 'kind': self.FLAVOUR_KIND[f],
                            'cells': [pyobs.enc(rng.choice(pool)) for _ in range(n)]})
        cols = keycols + self._payload(rng, n, numeric=grouped)
        if grouped:     # grouped columns must hold numbers (also in rows that dm.length adds)
            cols = [c for c in cols if c in keycols or c['kind'] != 'KMixed']
        if series is None:
            series = rng.random() < 0.5
        if series:
            d = rng.randint(1, 3)
            cols.insert(rng.randint(0, len(cols)), {
                'name': 's', 'kind': 'KSeries', 'depth': d,
                'cells': [[float(rng.choice([0, 1, 2.5, -1, i + 0.25, NAN])).hex() for _ in range(d)] for i in range(n)]})
        mode = rng.choice(['none', 'none', 'none', 'select', 'shuffle', 'sort', 'select+shuffle'])
        steps, n = self._order(rng, n, [c['name'] for c in keycols], mode)
        kind_of = dict((c['name'], c['kind']) for c in cols)
        names = [c['name'] for c in keycols]      # current names of the key columns, in order
        present = [c['name'] for c in cols]

        def call(op, names_now, want=()):
            """a call by some of the key columns (those of `want` among them); a grouped table keeps every text key
            among the by-columns"""
            ks = [k for k in names_now if k not in want]
            rng.shuffle(ks)
            ks = list(want) + ks
            if op == 'splitv':
                ks = ks[:1]
            elif op == 'split':
                ks = ks[:max(len(want), rng.choice([1, 2, 2, 3]))]
                rng.shuffle(ks)
            else:
                must = [k for k in names_now if kind_of[k] == 'KMixed' or k in want]
                opt = [k for k in ks if k not in must]
                ks = must + opt[:rng.randint(0, len(opt))]
                rng.shuffle(ks)
            spec = {'op': op, 'keys': ks}
            if op == 'splitv':
                src = [c for c in keycols if c['name'] == origin[ks[0]]][0]
                # values may also name the default cell of freshly added rows
                spec['values'] = self._values(rng, src) + [pyobs.enc({'KMixed': '', 'KFloat': NAN, 'KInt': 0}[src['kind']])]
            if op == 'group':
                spec['by_form'] = self._by_form(rng, len(ks))
            elif op == 'split' and rng.random() < 0.15:
                spec['by_form'] = rng.choice(['gen', 'map', 'iter', 'reversed'])
            return spec

        origin = dict((k, k) for k in names)       # current name -> name in the base table
        first = call(op1, names)
        hist = []
        renamed = []
        # further uses of the table before it is changed (results discarded)
        for _ in range(rng.choice([0, 0, 0, 1, 2])):
            what = rng.choice(['split2', 'keep_only', 'name', 'select', 'group', 'split', 'unique'])
            k = rng.choice(names)
            st = {'t': 'probe', 'what': what, 'col': k}
            if what in ('split2', 'keep_only'):
                st['cols'] = rng.sample(names, min(len(names), rng.choice([1, 2, 2, 3]))) + (
                    ['uid'] if what == 'keep_only' and rng.random() < 0.5 else [])
            if what == 'select':
                st['ref'] = [c for c in keycols if c['name'] == k][0]['cells'][0] if n else pyobs.enc(0)
            hist.append(st)
        extra = {'KMixed': ['zz', 5, None, 'a', '', 'cafe\u0301', 'caf\u00e9'], 'KFloat': [1.0, NAN, 7.5, 0.0, 0.3],
                 'KInt': [1, 9, 0]}
        fresh = iter(['r0', 'r1', 'r2', 'r3', 'kk', 'zz0', 'a0', 'condition'])
        changes = [change] if change else []
        while len(changes) < rng.choice([1, 1, 2, 3]):
            changes.append(rng.choice(self.CHANGES))
        rng.shuffle(changes)
        for ch in changes:
            if ch == 'rename-other' and not [x for x in present if x not in names and x != 'uid']:
                ch = 'rename-key'
            if ch == 'rename-key':
                old = rng.choice(names)
                new = next(fresh)
                if rng.random() < 0.3:
                    new = old + '_'         # sorts right after the old name
                hist.append({'t': 'rename', 'old': old, 'new': new})
                renamed = [x for x in renamed if x != old] + [new]
                names[names.index(old)] = new
                present[present.index(old)] = new
                kind_of[new] = kind_of.pop(old)
                origin[new] = origin.pop(old)
            elif ch == 'rename-other':
                old = rng.choice([x for x in present if x not in names and x != 'uid'])
                new = next(fresh)
                hist.append({'t': 'rename', 'old': old, 'new': new})
                present[present.index(old)] = new
                kind_of[new] = kind_of.pop(old)
            elif ch in ('grow', 'shrink-grow'):
                if ch == 'shrink-grow' and n:
                    d = -rng.randint(1, min(n, 3))
                    hist.append({'t': 'length', 'delta': d, 'uids': rng.sample(range(100, 200), n + 8)})
                    n += d
                d = rng.choice([1, 2, 3])
                hist.append({'t': 'length', 'delta': d, 'uids': rng.sample(range(200, 300), n + d + 8)})
                n += d
                if rng.random() < 0.5:      # fill the key of the new rows
                    k = rng.choice(names)
                    src = [c for c in keycols if c['name'] == origin[k]][0]
                    pool = [pyobs.dec(x) for x in src['cells']] + extra[src['kind']]
                    hist.append({'t': 'setslice', 'col': k, 'a': n - d, 'b': n, 'v': pyobs.enc(rng.choice(pool))})
            elif ch == 'delrow':
                for _ in range(rng.choice([1, 1, 2])):
                    if n:
                        hist.append({'t': 'delrow', 'i': rng.randrange(n)})
                        n -= 1
            elif ch == 'newcol':
                name = next(fresh)
                kind = rng.choice(['KInt', 'KFloat'] if op2 == 'group' else ['KInt', 'KFloat', 'KMixed', 'KSeries'])
                st = {'t': 'newcol', 'name': name, 'kind': kind}
                if kind == 'KSeries':
                    st['depth'] = rng.randint(1, 3)
                    st['v'] = [float(rng.choice([0, 1.5, -2])).hex() for _ in range(st['depth'])]
                else:
                    st['v'] = pyobs.enc({'KInt': 7, 'KFloat': rng.choice([0.5, NAN]), 'KMixed': rng.choice(['w', 3])}[kind])
                hist.append(st)
                present.append(name)
                kind_of[name] = kind
            elif ch == 'delcol':
                # a payload column, or a key column that the second call does not use
                cands = [x for x in present if x != 'uid' and (x not in names or len(names) > 1)]
                if cands:
                    name = rng.choice(cands)
                    hist.append({'t': 'delcol', 'name': name, 'how': rng.choice(['name', 'object'])})
                    present.remove(name)
                    if name in names:
                        names.remove(name)
                    renamed = [x for x in renamed if x != name]
            elif ch == 'write-key':
                k = rng.choice(names)
                src = [c for c in keycols if c['name'] == origin[k]][0]
                pool = [pyobs.dec(x) for x in src['cells']] + extra[src['kind']]
                how = rng.choice(['setcell', 'setcell', 'setslice', 'setrow', 'setsel'])
                if n == 0:
                    how = 'setslice'
                if how in ('setcell', 'setrow'):
                    hist.append({'t': how, 'col': k, 'i': rng.randrange(n), 'v': pyobs.enc(rng.choice(pool))})
                elif how == 'setslice':
                    a = rng.randint(0, n)
                    hist.append({'t': 'setslice', 'col': k, 'a': a, 'b': rng.randint(a, n), 'v': pyobs.enc(rng.choice(pool))})
                else:
                    hist.append({'t': 'setsel', 'col': k, 'by': k, 'ref': pyobs.enc(rng.choice(pool)),
                                 'v': pyobs.enc(rng.choice(pool))})
            else:
                raise HarnessInputError(ch)
        second = call(op2, names, renamed[-1:] if rng.random() < 0.8 else ())
        inp = {'op': op2, 'cols': cols, 'keys': second['keys'], 'order': steps, 'first': first, 'hist': hist,
               'tags': ['repeat'] + ['change:' + c for c in sorted(set(changes))] + (['unicode'] if uni else [])}
        if rng.random() < 0.2:
            # the first use as a discarded probe instead of a judged call
            del inp['first']
            probe = {'t': 'probe', 'col': first['keys'][0] if first['keys'] else 'uid',
                     'what': {'split': 'split2', 'splitv': 'split', 'group': 'group'}[op1], 'cols': first['keys']}
            if first['keys']:
                inp['hist'] = [probe] + hist
            inp['tags'] = inp['tags'] + ['first:probe']
        for f in ('values', 'by_form'):
            if f in second:
                inp[f] = second[f]
        return inp

    def generate(self, rng, tier, scale=1.0):
        cases = []
        quick = tier == 'quick'
        # exhaustive: every key vector of length 0..4 over 3 letters (text whose concatenations coincide)
        alpha = ['a', 'ab', 'b']
        for n in range(0, 5 if quick else 6):
            for vec in itertools.product(alpha, repeat=n):
                second = [alpha[(i * 7 + len(v)) % 3] for i, v in enumerate(vec)]
                cols = [{'name': 'k0', 'kind': 'KMixed', 'cells': [pyobs.enc(v) for v in vec]},
                        {'name': 'k1', 'kind': 'KMixed', 'cells': [pyobs.enc(v) for v in second]},
                        {'name': 'uid', 'kind': 'KInt', 'cells': [pyobs.enc(10 + i) for i in range(n)]}]
                cases.append(self.rerun({'op': 'split', 'cols': cols, 'keys': ['k0'], 'order': [], 'tags': ['exhaustive']}))
                cases.append(self.rerun({'op': 'group', 'cols': cols, 'keys': ['k0', 'k1'], 'order': [],
                                         'by_form': 'list', 'tags': ['exhaustive']}))
        # the presets, verbatim, all operations
        for flavours, combos in self.PRESETS:
            rows = list(combos) + list(combos[:2])
            keycols = [{'name': 'k%d' % j, 'kind': self.FLAVOUR_KIND[f], 'cells': [pyobs.enc(r[j]) for r in rows]}
                       for j, f in enumerate(flavours)]
            cols = keycols + [{'name': 'uid', 'kind': 'KInt', 'cells': [pyobs.enc(50 - i) for i in range(len(rows))]}]
            keys = [c['name'] for c in keycols]
            cases.append(self.rerun({'op': 'split', 'cols': cols, 'keys': keys, 'order': [], 'tags': ['preset']}))
            cases.append(self.rerun({'op': 'group', 'cols': cols, 'keys': keys, 'order': [], 'by_form': 'list',
                                     'tags': ['preset']}))
            # the parts for every occurring value of the first column, last first, then its first value again
            vals = []
            for x in reversed(keycols[0]['cells']):
                if x not in vals:
                    vals.append(x)
            cases.append(self.rerun({'op': 'splitv', 'cols': cols, 'keys': keys[:1], 'order': [],
                                     'values': vals + vals[-1:], 'tags': ['preset']}))
        # every accepted form of the `by` argument (and of unpacked split arguments) on fixed tables: 0, 1, 2 and 3
        # by-columns, one of them twice
        fcols = [{'name': 'a', 'kind': 'KMixed', 'cells': [pyobs.enc(v) for v in ['x', 'x', 'y', 'y', 'x', 'ab', 'a']]},
                 {'name': 'b', 'kind': 'KMixed', 'cells': [pyobs.enc(v) for v in [1, 2, 1, 1, 1, 'c', 'bc']]},
                 {'name': 'f', 'kind': 'KFloat', 'cells': [pyobs.enc(v) for v in [0.5, NAN, 0.5, 0.5, NAN, 0.5, 2.0]]},
                 {'name': 'p', 'kind': 'KFloat', 'cells': [pyobs.enc(v) for v in [1.5, 2.5, 3.5, 4.5, 5.5, 6.5, 7.5]]},
                 {'name': 'uid', 'kind': 'KInt', 'cells': [pyobs.enc(70 + i) for i in range(7)]}]
        for keys in ([], ['a'], ['f'], ['a', 'b'], ['b', 'f', 'a'], ['a', 'a'], ['f', 'b', 'f']):
            for form in BY_FORMS:
                if (form == 'single' and len(keys) != 1) or (form == 'none' and keys):
                    continue
                # grouped (non-by) columns must hold numbers: the text columns only where they are by-columns
                gcols = [c for c in fcols if c['kind'] != 'KMixed' or c['name'] in keys]
                cases.append(self.rerun({'op': 'group', 'cols': gcols, 'keys': keys, 'order': [], 'by_form': form,
                                         'tags': ['by-forms']}))
                if keys and form in ('list', 'gen', 'map', 'iter', 'reversed'):
                    scols = [c for c in fcols if c['name'] != 'p'] + [
                        {'name': 'lab', 'kind': 'KMixed', 'cells': [pyobs.enc('r%d' % i) for i in range(7)]}]
                    cases.append(self.rerun({'op': 'split', 'cols': scols, 'keys': keys, 'order': [],
                                             'by_form': form, 'tags': ['by-forms']}))
        reps = int((600 if quick else 5000) * scale)
        maxn = 12 if quick else 16
        for _ in range(reps):
            for op in ('split', 'splitv', 'group'):
                cases.append(self.rerun(self._case(rng, op, maxn)))
        # distinct key values that are nearly equal (FloatColumn / MixedColumn; integers beyond 2**53): every
        # operation, 1-3 key columns, every derivation mode
        for _ in range(int((80 if quick else 700) * scale)):
            for op in ('split', 'splitv', 'group'):
                cases.append(self.rerun(self._case(rng, op, maxn, near=True)))
        # row-id layouts: every derivation route, every operation
        for _ in range(max(1, int((8 if quick else 60) * scale))):
            for route in self.ROUTES:
                for op in ('split', 'splitv', 'group'):
                    cases.append(self.rerun(self._shaped_case(rng, op, maxn, route)))
        if INCLUDE_PENDING_FINDINGS:
            for inp in self._pending_cases(rng):
                cases.append(self.rerun(inp))
        # histories: probe (split / unique / count), mutate the same table in place, then the operation
        for _ in range(int((110 if quick else 1200) * scale)):
            for op in ('split', 'split', 'splitv', 'group'):
                cases.append(self.rerun(self._hist_case(rng, op, 8 if quick else 12)))
        # text keys that differ only in their unicode normal form / compatibility form / case: every operation,
        # 1-3 key columns, every derivation mode
        for _ in range(int((40 if quick else 400) * scale)):
            for op in ('split', 'splitv', 'group'):
                cases.append(self.rerun(self._case(rng, op, maxn, near='uni')))
        # the same table object used twice: a first judged call, in-place changes (every kind, with and without a
        # SeriesColumn next to the plain columns), a second judged call
        for change in sorted(set(self.CHANGES)):
            for series in (False, True):
                reps = (10 if quick else 60) if change in ('rename-key', 'grow') else (4 if quick else 30)
                for _ in range(max(1, int(reps * scale))):
                    cases.append(self.rerun(self._repeat_case(rng, 8 if quick else 12, change, series)))
        for _ in range(int((120 if quick else 1200) * scale)):
            cases.append(self.rerun(self._repeat_case(rng, 8 if quick else 12, uni=rng.random() < 0.15)))
        # malformed stream
        for _ in range(int((12 if quick else 100) * scale)):
            inp = self._case(rng, 'split', 6)
            inp['op'] = rng.choice(['bad_split', 'bad_group'])
            inp['tags'] = ['malformed']
            cases.append(self.rerun(inp))
        return cases

    def search(self, rng, tier, broken):
        return self.generate(rng, 'quick', scale=3.0)

    # ------------------------------------------------------------------ shrinking
    @staticmethod
    def _final_rowids(inp):
        """row ids of the source after the derivation steps (implementation call: guarded)"""
        try:
            with warnings.catch_warnings():
                warnings.simplefilter('ignore')
                dm = build(dict(inp, hist=[]))
                return [int(r) for r in dm._rowid]
        except Exception:       # noqa: BLE001
            return None

    def shrink_candidates(self, inp):
        cols = inp['cols']
        n = len(cols[0]['cells']) if cols else 0
        # drop history steps
        for i in range(len(inp.get('hist', []))):
            c = dict(inp)
            c['hist'] = inp['hist'][:i] + inp['hist'][i + 1:]
            yield c
        # the first call: as a discarded probe, not at all, by fewer columns / values
        first = inp.get('first')
        if first is not None:
            c = dict(inp)
            del c['first']
            if first['keys']:
                c2 = dict(c)
                c2['hist'] = [{'t': 'probe', 'col': first['keys'][0], 'cols': first['keys'],
                               'what': {'split': 'split2', 'splitv': 'split', 'group': 'group'}[first['op']]}] \
                    + list(inp.get('hist', []))
                yield c2
            yield c
            if len(first['keys']) > 1:
                for k in first['keys']:
                    yield dict(inp, first=dict(first, keys=[x for x in first['keys'] if x != k]))
            if first.get('by_form') in BY_FORMS_MULTI[1:]:
                yield dict(inp, first=dict(first, by_form='list'))
            if first.get('values') and len(first['values']) > 1:
                yield dict(inp, first=dict(first, values=first['values'][:1]))
        # drop order steps
        for i in range(len(inp.get('order', []))):
            c = dict(inp)
            c['order'] = inp['order'][:i] + inp['order'][i + 1:]
            yield c
        # replace the derivation chain by the one index list that yields the same row ids (the base table's row
        # ids are its positions); afterwards base rows can be dropped
        order = inp.get('order', [])
        if order and not (len(order) == 1 and order[0]['t'] == 'select'):
            rid = self._final_rowids(inp)
            if rid is not None and len(set(rid)) == len(rid) and all(0 <= r < n for r in rid):
                c = dict(inp)
                c['order'] = [{'t': 'select', 'keep': rid}]
                yield c
        # drop a base row (select steps are re-indexed)
        for r in range(n):
            c = dict(inp)
            c['cols'] = [dict(col, cells=col['cells'][:r] + col['cells'][r + 1:]) for col in cols]
            order = []
            for st in inp.get('order', []):
                if st['t'] == 'select':
                    order.append({'t': 'select', 'keep': [k - (k > r) for k in st['keep'] if k != r]})
                else:
                    order.append(st)
            if any(st['t'] == 'select' for st in order[1:]) or any(st['t'] == 'slice' for st in order):
                continue
            c['order'] = order
            yield c
        # drop a payload column
        for col in cols:
            if col['name'] not in inp['keys'] and col['name'] != 'uid':
                c = dict(inp)
                c['cols'] = [x for x in cols if x is not col]
                yield c
        # drop a key column
        if len(inp['keys']) > 1 and inp['op'] in ('split', 'group'):
            for k in inp['keys']:
                c = dict(inp)
                c['keys'] = [x for x in inp['keys'] if x != k]
                yield c
        # the column arguments as a plain list
        if inp.get('by_form') in BY_FORMS_MULTI[1:]:
            c = dict(inp)
            c['by_form'] = 'list'
            yield c
        # drop an explicit value
        if inp.get('values') and len(inp['values']) > 1:
            for i in range(len(inp['values'])):
                c = dict(inp)
                c['values'] = inp['values'][:i] + inp['values'][i + 1:]
                yield c

    def key(self, case):
        inp = case['input']
        hist = ''.join(' ' + (h['t'] if h['t'] != 'probe' else 'probe-' + h['what']) for h in inp.get('hist', []))
        form = inp.get('by_form')
        form = '[%s]' % form if form in BY_FORMS_MULTI[1:] else ''     # the list / one column / None: as before
        if inp.get('first'):        # the same table used twice
            hist = ' first-' + inp['first']['op'] + hist
        return '%s%s%s keys=%s rows=%d' % (inp['op'], form, (' after' + hist) if hist else '', ','.join(
            '%s:%s' % (c['kind'], json.dumps([x.get('v') for x in c['cells']], separators=(',', ':')))
            for c in inp['cols'] if c['name'] in inp['keys']), len(inp['cols'][0]['cells']) if inp['cols'] else 0)


PROP = C14()
