from core_props import C08

PROP = C08()
