"""C18 -- series functions act row by row and follow their formulas (Props/C18.v)."""
import json
import math
import os
import threading
import warnings
from fractions import Fraction

import coqlit as L

NAN = float('nan')
# Pending finding (unchanged /repo): a series function applied to a DETACHED part of a series column -- srs.z(dm.s[1:]),
# srs.endlock(dm.s[[2, 0]]) -- returns a column with the length of the whole DataMatrix, rows written positionally from
# row 0 and the other rows NaN (_SeriesColumn._map, endlock, threshold, lock), or raises (reduce, fft, concatenate,
# baseline); only window / col[:, a:b] are right.  True adds hosts {'kind': 'colslice' | 'colindex'} to the generator.
INCLUDE_PENDING_FINDINGS = False
ROWLOCAL = {'endlock', 'threshold', 'window', 'getslice', 'concatenate', 'setdepth', 'downsample', 'interpolate',
            'reduce', 'baseline', 'z', 'smooth', 'fft', 'lowpass', 'highpass', 'bandpass'}
ABSTRACT = {'smooth', 'fft', 'lowpass', 'highpass', 'bandpass'}
ARITH = {'downsample', 'interpolate', 'reduce', 'baseline', 'z'}
FILTERS = ('lowpass', 'highpass', 'bandpass')
ALL_FNS = ['endlock', 'lock', 'threshold', 'window', 'getslice', 'concatenate', 'normalize_time', 'setdepth',
           'downsample', 'interpolate', 'reduce', 'baseline', 'z', 'smooth', 'fft', 'lowpass', 'highpass', 'bandpass']
# functions whose call needs nothing but the series column itself (a prelude entry can run them on the host of the case)
S_ONLY = [f for f in ALL_FNS if f not in ('lock', 'concatenate', 'normalize_time', 'baseline')]
LCM = 27720          # lcm(1..12): block means / slopes of integer multiples of it are integers
# Pending finding (unchanged /repo): a user-supplied operation that is allowed to modify the array it is given reaches
# the storage of the INPUT column on two paths: (a) reduce(series, operation=f) with an f that does not accept `axis`
# (the per-row fallback `for i, val in enumerate(series): col[i] = operation(val)` hands over row VIEWS of series._seq);
# (b) downsample(series, by, fnc=f) (`fnc(a.reshape(-1, by), axis=1)` on a row view).  After the call the input series
# is sorted / NaN.  reduce with an operation that accepts axis, and baseline with any reduce_fnc, are safe (they work
# on copies) and are in the default stream.  True adds (a) and (b) to the family of mutating operations.
INCLUDE_PENDING_FINDINGS_MUTATING_OPS = False
# User-supplied operations that are ALLOWED to modify / reorder the array they are given (name -> the pure operation
# they compute, whether they accept `axis`).  'median' = nanmedian, 'mean' = nanmean, 'npmedian' = np.median (NaN as
# soon as the row holds a NaN).
MUT_OPS = {
    'nanmedian_ow': ('median', True),        # functools.partial(np.nanmedian, overwrite_input=True)
    'median_ow': ('npmedian', True),         # functools.partial(np.median, overwrite_input=True)
    'sort_mean': ('mean', True),             # sorts its argument in place, then nanmean
    'sort_median': ('median', True),         # sorts its argument in place, then nanmedian
    'nan_mean': ('mean', True),              # nanmean, then writes NaN into every cell of its argument
    'rev_median': ('median', True),          # reverses its argument in place along the depth, then nanmedian
    'sort_mean_noaxis': ('mean', False),     # the same without an `axis` parameter (reduce falls back to row by row)
    'nan_median_noaxis': ('median', False),
}
# Plain NumPy reducers handed over as `operation` / `reduce_fnc` (name -> NumPy function, the pure per-row operation it
# computes).  np.mean / sum / max / min / std / amax / amin called on a non-ndarray first look for a METHOD of the same
# name on their argument (a SeriesColumn has PROPERTIES mean, sum, max, min, std, median: the per-sample statistics
# over rows); np.median / ptp / var / prod convert their argument.  Either way the result must be the per-row value:
# NaN as soon as the row holds a NaN for the plain reducers, NaN ignored for the nan-aware ones.
PLAIN_OPS = {
    'np_mean': ('mean', 'np_mean'), 'np_sum': ('sum', 'np_sum'), 'np_max': ('max', 'np_max'), 'np_min': ('min', 'np_min'),
    'np_amax': ('amax', 'np_max'), 'np_amin': ('amin', 'np_min'), 'np_std': ('std', 'np_std'),
    'np_median': ('median', 'npmedian'), 'np_ptp': ('ptp', 'np_ptp'), 'np_var': ('var', 'np_var'),
    'nansum': ('nansum', 'nansum'), 'nanmax': ('nanmax', 'nanmax'), 'nanmin': ('nanmin', 'nanmin'),
    'nanstd': ('nanstd', 'nanstd'), 'nanvar': ('nanvar', 'nanvar'),
}
PLAIN_STRICT = sorted(k for k in PLAIN_OPS if k.startswith('np_'))      # the reducers named by numpy's plain names
PLAIN_METHOD = ['np_mean', 'np_sum', 'np_max', 'np_min', 'np_std', 'np_amax', 'np_amin']   # delegate to a method of the argument
# the pure operations the Coq oracle knows (exact rationals); std is a square root and var is compared on the Python side
COQ_RED = {'mean': 'RMean', 'median': 'RMedian', 'npmedian': '(RStrict RMedian)', 'np_mean': '(RStrict RMean)',
           'np_sum': '(RStrict RSum)', 'np_max': '(RStrict RMax)', 'np_min': '(RStrict RMin)', 'np_ptp': '(RStrict RPtp)',
           'nansum': 'RSum', 'nanmax': 'RMax', 'nanmin': 'RMin'}
U53 = 2.0 ** -53
MUT_AXIS = sorted(k for k, v in MUT_OPS.items() if v[1])
MUT_NOAXIS = sorted(k for k, v in MUT_OPS.items() if not v[1])


def make_op(name):
    """the callable of a MUT_OPS entry"""
    import functools
    import numpy as np
    if name == 'nanmedian_ow':
        return functools.partial(np.nanmedian, overwrite_input=True)
    if name == 'median_ow':
        return functools.partial(np.median, overwrite_input=True)
    if name == 'sort_mean':
        def f(a, axis):
            a = np.asarray(a)
            a.sort(axis=axis)
            return np.nanmean(a, axis=axis)
    elif name == 'sort_median':
        def f(a, axis):
            a = np.asarray(a)
            a.sort(axis=axis)
            return np.nanmedian(a, axis=axis)
    elif name == 'nan_mean':
        def f(a, axis):
            a = np.asarray(a)
            r = np.array(np.nanmean(a, axis=axis))
            a[...] = np.nan
            return r
    elif name == 'rev_median':
        def f(a, axis):
            a = np.asarray(a)
            a[...] = a[..., ::-1].copy()
            return np.nanmedian(a, axis=axis)
    elif name == 'sort_mean_noaxis':
        def f(a):
            a = np.asarray(a)
            a.sort()
            return float(np.nanmean(a))
    elif name == 'nan_median_noaxis':
        def f(a):
            a = np.asarray(a)
            r = float(np.nanmedian(a))
            a[...] = np.nan
            return r
    else:
        raise AssertionError(name)
    return f


def op_pure(op):
    """the pure operation ('mean' | 'median' | 'npmedian') computed by the `operation` / `reduce_fnc` called `op`"""
    if op in MUT_OPS:
        return MUT_OPS[op][0]
    if op in PLAIN_OPS:
        return PLAIN_OPS[op][1]
    return 'median' if op == 'median' else 'mean'


def plain_fn(op):
    """the NumPy function of a PLAIN_OPS entry"""
    import numpy as np
    return getattr(np, PLAIN_OPS[op][0])


# ---------------------------------------------------------------------- literals
def isnan(x):
    return x is None or (isinstance(x, float) and x != x)


def smp(x):
    """float (or None = NaN) -> Coq term of type option Q"""
    if isnan(x):
        return 'nn'
    if math.isinf(x):
        raise OverflowError('inf')
    fr = Fraction(float(x))
    if fr.denominator == 1:
        return 'z %s' % L.z(fr.numerator) if fr.numerator >= 0 else 'z %s' % L.z(fr.numerator)
    return 'q %s %d' % (L.z(fr.numerator), fr.denominator)


def rowlit(r):
    return '[' + '; '.join(smp(x) for x in r) + ']'


def rowslit(rows):
    return '[' + '; '.join(rowlit(r) for r in rows) + ']'


def obslit(o):
    return 'None' if o is None else '(Some %s)' % rowslit(o)


def qlit(x):
    fr = Fraction(x)
    return '(%s # %d)' % (L.z(fr.numerator), fr.denominator)


def zopt(x):
    return 'None' if x is None else '(Some %s)' % L.z(x)


def timeslit(tss):
    return '[' + '; '.join('[' + '; '.join(zopt(None if isnan(t) else int(t)) for t in ts) + ']' for ts in tss) + ']'


PREDS = {
    'gt': (lambda c: (lambda v: v > c), lambda c: '(PGt %s)' % qlit(c)),
    'lt': (lambda c: (lambda v: v < c), lambda c: '(PLt %s)' % qlit(c)),
    'ge': (lambda c: (lambda v: v >= c), lambda c: '(PGe %s)' % qlit(c)),
    'valid': (lambda c: (lambda v: v == v), lambda c: 'PValid'),
    'nan': (lambda c: (lambda v: v != v), lambda c: 'PNan'),
}


# ---------------------------------------------------------------------- exact references (Python side, tolerance mode
# and the input-side decision whether a float computation is exact)
def fexact(fr):
    try:
        return Fraction(float(fr)) == fr
    except OverflowError:
        return False


def fvalid(r):
    return [Fraction(float(x)) for x in r if not isnan(x)]


def ref_mean(r):
    v = fvalid(r)
    return None if not v else sum(v) / len(v)


def ref_median(r):
    v = sorted(fvalid(r))
    n = len(v)
    if not n:
        return None
    return v[n // 2] if n % 2 else (v[n // 2 - 1] + v[n // 2]) / 2


def ref_npmedian(r):
    """np.median: NaN as soon as the row holds a NaN"""
    return None if any(isnan(x) for x in r) else ref_median(r)


def fsqrt(v):
    """square root of a non-negative Fraction as a Fraction, relative error below 2^-90"""
    if v <= 0:
        return Fraction(0)
    n, d = v.numerator, v.denominator
    return Fraction(math.isqrt((n * d) << 200), d << 100)


def ref_var(r):
    """population variance of the valid samples (np.nanvar)"""
    v = fvalid(r)
    if not v:
        return None
    m = sum(v) / len(v)
    return sum((x - m) ** 2 for x in v) / len(v)


def strict(f):
    """the plain NumPy reducer: NaN as soon as the row holds a NaN"""
    return lambda r: None if any(isnan(x) for x in r) else f(r)


def _nanstd(r):
    v = ref_var(r)
    return None if v is None else fsqrt(v)


def _nanmax(r):
    v = fvalid(r)
    return max(v) if v else None


def _nanmin(r):
    v = fvalid(r)
    return min(v) if v else None


def _ptp(r):
    v = fvalid(r)
    return max(v) - min(v) if v else None


REDUCERS = {'mean': ref_mean, 'median': ref_median, 'npmedian': ref_npmedian,
            'np_mean': strict(ref_mean), 'np_sum': strict(lambda r: sum(fvalid(r), Fraction(0))),
            'np_max': strict(_nanmax), 'np_min': strict(_nanmin), 'np_ptp': strict(_ptp), 'np_var': strict(ref_var),
            'np_std': strict(_nanstd), 'nansum': lambda r: sum(fvalid(r), Fraction(0)), 'nanmax': _nanmax,
            'nanmin': _nanmin, 'nanvar': ref_var, 'nanstd': _nanstd}


def _gamma(k):
    return k * U53 / (1 - k * U53)


def red_err(pure, r):
    """an a-priori bound for the absolute rounding error of the binary64 computation of reducer `pure` on row r (any
    summation order; two-pass variance: mean, then the mean of the squared deviations): what a tolerance must grant on
    rows whose values are large relative to their spread.  M = max|x|, N = number of samples, g_k = k*u/(1-k*u):
    sum, mean: g_N * N * M resp. g_N * M; max, min, ptp, median: 2u * M; var: g_(N+4) * var + (g_N * M)^2 (the error of
    the mean enters squared); std: g_(N+6) * std + g_N * M."""
    v = fvalid(r)
    if not v:
        return 0.0
    n = len(r)
    big = float(max(abs(x) for x in v))
    gn = _gamma(n + 2)
    if pure in ('np_sum', 'nansum'):
        return 2 * gn * n * big
    if pure in ('np_var', 'nanvar'):
        return 2 * (_gamma(n + 6) * float(ref_var(r)) + (gn * big) ** 2)
    if pure in ('np_std', 'nanstd'):
        return 2 * (_gamma(n + 8) * float(fsqrt(ref_var(r))) + gn * big)
    return 2 * gn * big


def z_tolerance(r):
    """A-priori bounds for the two-pass z transform (a - nanmean(a)) / nanstd(a) of row r in binary64 (the analysis of
    harness/c15.py z_tolerance, for the POPULATION standard deviation): with M = max|x|, s = exact standard deviation,
    kappa = M/s (how large the values are relative to their spread), N = number of samples, g_k = k*u/(1-k*u):
    the computed mean is within g_N*M of the mean for any summation order; the computed variance is
    (s^2 + dm^2)(1+T), |T| <= g_(N+6), so H = (g_N*kappa)^2 bounds the relative excess of the variance -- SECOND order
    in u*kappa, where a single-pass formula E[a^2] - E[a]^2 loses u*kappa^2; each score carries two more roundings.
      |mean(z)|    <= (g_N*kappa + g_2*(1+H/2)) * (1+g_(N+6))
      |std(z) - 1| <= g_(N+6) + (H + g_(N+6) + H*g_(N+6))/2 + g_2*(1+H/2)*(1+g_(N+6))
      |z_i - ref_i| <= 2 * (bound_mean + |ref_i| * bound_std)
    plus 8u for the harness' own fsum-based measurement; never below 1e-9 (the tolerance used before).
    -> (kappa, tol_mean, tol_std)"""
    v = fvalid(r)
    m = sum(v) / len(v)
    var = sum((x - m) ** 2 for x in v) / len(v)
    kappa = float(max(abs(x) for x in v)) / math.sqrt(var)
    n = len(r)
    g = _gamma(n + 6)
    gk = _gamma(n) * kappa
    h = gk * gk
    slack = 1 + 2.0 ** -40
    b_mean = ((gk + _gamma(2) * (1 + h / 2)) * (1 + g) + 8 * U53) * slack
    b_std = (g + (h + g + h * g) / 2 + _gamma(2) * (1 + h / 2) * (1 + g) + 8 * U53) * slack
    return kappa, max(1e-9, b_mean), max(1e-9, b_std)


def ref_downsample(r, by):
    return [ref_mean(r[k * by:(k + 1) * by]) for k in range(len(r) // by)]


def ref_interpolate(r):
    idx = [i for i, x in enumerate(r) if not isnan(x)]
    if not idx:
        return [None] * len(r)
    out = []
    for i, x in enumerate(r):
        if not isnan(x):
            out.append(Fraction(float(x)))
            continue
        before = [p for p in idx if p < i]
        after = [p for p in idx if p > i]
        if before and after:
            p, q = before[-1], after[0]
            a, b = Fraction(float(r[p])), Fraction(float(r[q]))
            out.append(a + (b - a) * (i - p) / (q - p))
        elif before:
            out.append(Fraction(float(r[before[-1]])))
        else:
            out.append(Fraction(float(r[after[0]])))
    return out


def pyslice(r, lo, hi):
    return r[slice(lo, hi)]


def ref_baseline(r, bl, lo, hi, red, divisive):
    b = REDUCERS[red](pyslice(bl, lo, hi if hi is not None else len(bl)))
    out = []
    for x in r:
        if isnan(x) or b is None:
            out.append(None)
        elif divisive:
            out.append(None if b == 0 else Fraction(float(x)) / b)
        else:
            out.append(Fraction(float(x)) - b)
    return out, b


def ref_z(r):
    """-> (row of floats or None, exact rational sd or None)"""
    m = ref_mean(r)
    if m is None:
        return [None] * len(r), None, False
    v = fvalid(r)
    var = sum((x - m) ** 2 for x in v) / len(v)
    if var == 0:
        return None, None, False
    sd_f = math.sqrt(var)
    out = [None if isnan(x) else float(Fraction(float(x)) - m) / sd_f for x in r]
    # exact rational standard deviation?
    n, d = var.numerator, var.denominator
    rn, rd = math.isqrt(n), math.isqrt(d)
    sd = Fraction(rn, rd) if rn * rn == n and rd * rd == d else None
    exact = False
    if sd is not None:
        inter = [m, var, sd] + [x - m for x in v] + [(x - m) ** 2 for x in v] + [(x - m) / sd for x in v]
        partial, ok = Fraction(0), True
        for x in v:                        # partial sums of the mean and of the variance stay exact
            partial += x
            ok = ok and fexact(partial)
        partial = Fraction(0)
        for x in v:
            partial += (x - m) ** 2
            ok = ok and fexact(partial)
        exact = ok and all(fexact(t) for t in inter)
    return out, sd, exact


def close(a, b, extra=0.0):
    """relative tolerance 1e-9 (absolute below 1), plus `extra`: an a-priori rounding bound of the computation"""
    if a is None or b is None:
        return isnan(a) and isnan(b)
    if isnan(a) or isnan(b):
        return isnan(a) and isnan(b)
    a, b = float(a), float(b)
    if math.isinf(a) or math.isinf(b):
        return a == b
    return abs(a - b) <= 1e-9 * max(1.0, abs(a), abs(b)) + extra


def same(a, b):
    """bit-level agreement up to NaN payload and the sign of zero"""
    if isnan(a) or isnan(b):
        return isnan(a) and isnan(b)
    return float(a) == float(b)


# ---------------------------------------------------------------------- the implementation runner
def tolist(a):
    return [None if x != x else float(x) for x in a]


class Run(object):
    """Builds the host DataMatrix, derives the reordered / selected host, applies the function to both."""

    def __init__(self, inp):
        import numpy as np
        from datamatrix import DataMatrix, SeriesColumn
        self.np = np
        self.inp = inp
        self.cols = {}
        self.build_fail = None
        self.detach = None      # row key (slice / index list) applied to every column handed to the function
        n = len(inp['rows'])
        if inp.get('src') or inp.get('table'):
            # a source with a configuration / a history: built through the public API, must end up holding inp['rows']
            try:
                with warnings.catch_warnings():
                    warnings.simplefilter('ignore')
                    dm = self.build_table(inp)
                    self.build_fail = self.verify_build(dm, inp)
            except Exception as e:       # noqa -- judged (pyfail), and the case goes on with a plainly built source
                self.build_fail = 'building the source raised %s: %s' % (type(e).__name__, e)
            if self.build_fail is None:
                self.dm = dm
                return
        self.dm = self.table_of(inp, list(range(n)), plain=True)

    # ---- sources: every series column is created according to inp['src'][name] = {'dn': defaultnan, 'hist': ...},
    # the host table according to inp['table']; whatever the history, the column ends up holding the rows of the input
    def table_of(self, inp, order, plain=False):
        """a DataMatrix whose row j holds row order[j] of the input (None: a filler row)"""
        from datamatrix import DataMatrix
        dm = DataMatrix(length=len(order))
        dm.k = [-1 if i is None else i for i in order]
        if plain or not self.late_cols(inp):
            self.add_series(dm, inp, order, plain)
        if inp.get('lock') is not None:
            dm.l = list(inp['lock']) if plain else [0 if i is None else inp['lock'][i] for i in order]
        if inp.get('sortkey') is not None:
            dm.o = list(inp['sortkey']) if plain else [0 if i is None else inp['sortkey'][i] for i in order]
        return dm

    @staticmethod
    def late_cols(inp):
        """True: the series columns are created on the table after it went through its history, False: before"""
        return (inp.get('table') or {}).get('cols') == 'after'

    def add_series(self, dm, inp, order, plain=False):
        np = self.np
        src = {} if plain else (inp.get('src') or {})
        for name, rows in self.all_series(inp).items():
            depth = len(rows[0]) if rows else inp['depth']
            arr = np.full((len(order), depth), 77.25, dtype=float)
            for j, i in enumerate(order):
                if i is not None and depth:
                    arr[j] = [NAN if v is None else v for v in rows[i]]
            self.build_col(dm, name, arr, src.get(name) or {})

    def build_col(self, dm, name, arr, cfg):
        from datamatrix import SeriesColumn
        np = self.np
        m, d = arr.shape
        dn = bool(cfg.get('dn', True))
        h = cfg.get('hist', 'plain') if d else 'plain'
        k = max(1, int(cfg.get('k', 1)))
        d0 = max(0, min(int(cfg.get('d0', 0)), d - 1))

        def junk(c):
            return np.arange(m * c, dtype=float).reshape(m, c) * 0.5 + 100.5
        if h == 'plain':
            dm[name] = SeriesColumn(depth=d, defaultnan=dn)
            if d:
                dm[name] = arr
        elif h == 'grow':           # created narrower, grown with the depth setter, the new cells written afterwards
            dm[name] = SeriesColumn(depth=d0, defaultnan=dn)
            if d0:
                dm[name] = arr[:, :d0]
            dm[name].depth = d
            dm[name][:, d0:] = arr[:, d0:]
        elif h == 'shrink':         # created wider, cut with the depth setter: the storage is a view of the wider buffer
            dm[name] = SeriesColumn(depth=d + k, defaultnan=dn)
            dm[name] = np.hstack([arr, junk(k)])
            dm[name].depth = d
        elif h == 'shrinkgrow':     # wider, cut below the depth, grown again, then filled
            dm[name] = SeriesColumn(depth=d + k, defaultnan=dn)
            dm[name] = junk(d + k)
            dm[name].depth = d0
            dm[name].depth = d
            dm[name] = arr
        elif h == 'op':             # the result of an operation on another column (inherits the settings of that column)
            dm['_raw'] = SeriesColumn(depth=d, defaultnan=dn)
            dm['_raw'] = arr
            dm[name] = dm['_raw'] * 1
            del dm['_raw']
        elif h == 'slice':          # a depth slice of a wider column
            dm['_raw'] = SeriesColumn(depth=d + 2 * k, defaultnan=dn)
            dm['_raw'] = np.hstack([junk(k), arr, junk(k)])
            dm[name] = dm['_raw'][:, k:k + d]
            del dm['_raw']
        else:
            raise AssertionError(cfg)

    def build_table(self, inp):
        dm = self.build_rows(inp)
        if self.late_cols(inp):
            self.add_series(dm, inp, [int(v) for v in dm.k])
        return dm

    def build_rows(self, inp):
        import random
        from datamatrix import operations as ops
        np = self.np
        n = len(inp['rows'])
        tab = inp.get('table') or {'kind': 'plain'}
        kind = tab['kind'] if n >= 2 or tab['kind'] in ('truncate', 'index', 'select') else 'plain'
        prng = random.Random(int(tab.get('seed', 0)))
        extra = max(1, int(tab.get('extra', 1)))
        n0 = max(1, min(int(tab.get('n0', 1)), n - 1))
        if kind == 'plain':
            return self.table_of(inp, list(range(n)))
        if kind == 'append':        # rows added after the columns were created (dm.length = n), then written
            dm = self.table_of(inp, list(range(n0)))
            dm.length = n
            full = self.table_of(inp, list(range(n)), plain=True)
            for name, col in full.columns:
                if name not in dm:
                    continue
                if hasattr(col, 'depth'):
                    if col.depth:
                        dm[name][n0:] = np.array(col._seq[n0:])
                else:
                    dm[name][n0:] = list(col[n0:])
            return dm
        if kind == 'lshift':        # two tables stacked
            return self.table_of(inp, list(range(n0))) << self.table_of(inp, list(range(n0, n)))
        if kind == 'truncate':      # a longer table cut with dm.length = n
            dm = self.table_of(inp, list(range(n)) + [None] * extra)
            dm.length = n
            return dm
        if kind == 'index':         # rows picked out of a longer table in another order
            order = list(range(n)) + [None] * extra
            prng.shuffle(order)
            big = self.table_of(inp, order)
            return big[[order.index(i) for i in range(n)]]
        if kind == 'select':        # a selection of a longer table
            order = list(range(n))
            for _ in range(extra):
                order.insert(prng.randint(0, len(order)), None)
            big = self.table_of(inp, order)
            return big.k >= 0
        if kind == 'sort':          # a table sorted into the row order of the input
            order = list(range(n))
            prng.shuffle(order)
            big = self.table_of(inp, order)
            return ops.sort(big, by=big.k)
        if kind == 'shufflesort':
            big = self.table_of(inp, list(range(n)))
            state = random.getstate()
            random.seed(int(tab.get('seed', 0)))
            try:
                sh = ops.shuffle(big)
            finally:
                random.setstate(state)
            return ops.sort(sh, by=sh.k)
        raise AssertionError(tab)

    def verify_build(self, dm, inp):
        """None when the table built with a history holds exactly the rows of the input, in their order"""
        n = len(inp['rows'])
        if len(dm) != n or [int(v) for v in dm.k] != list(range(n)):
            return 'the source table built as %r does not hold the input rows in order' % (inp.get('table'),)
        for name, rows in self.all_series(inp).items():
            col = dm[name]
            depth = len(rows[0]) if rows else inp['depth']
            if col.depth != depth or col._seq.shape != (n, depth):
                return 'source column %s built as %r has depth %r, shape %r instead of (%d, %d)' % (
                    name, (inp.get('src') or {}).get(name), col.depth, col._seq.shape, n, depth)
            got = [tolist(col[i]) for i in range(n)] if depth else [[] for _ in range(n)]
            if not all(len(a) == len(b) and all(bits_equal(x, y) for x, y in zip(a, b)) for a, b in zip(got, rows)):
                return 'source column %s built as %r / table %r holds %r instead of the rows written to it %r' % (
                    name, (inp.get('src') or {}).get(name), inp.get('table'), got, rows)
        for name, key in (('l', 'lock'), ('o', 'sortkey')):
            if inp.get(key) is not None and [v for v in dm[name]] != list(inp[key]):
                return 'source column %s does not hold %r' % (name, inp[key])
        return None

    def col(self, dm, name):
        """the column handed to the function: the column of the host, or (pending finding) a detached slice of it"""
        c = dm[name]
        return c if self.detach is None else c[self.detach]

    @staticmethod
    def all_series(inp):
        d = {'s': inp['rows']}
        for i, extra in enumerate(inp.get('more', [])):
            d['s%d' % (i + 2)] = extra
        return d

    def derived(self):
        from datamatrix import operations as ops
        host = self.inp.get('host') or {'kind': 'id'}
        dm = self.dm
        if host['kind'] == 'id':
            return dm[:]
        if host['kind'] == 'index':
            return dm[list(host['ps'])]
        if host['kind'] == 'sort':
            return ops.sort(dm, by=dm.o)
        if host['kind'] == 'select':
            return dm.k == set(host['ps'])
        if host['kind'] == 'colslice':      # the host stays, the columns handed over are slices of its columns
            self.detach = slice(host['lo'], host['hi'])
            return dm
        if host['kind'] == 'colindex':
            self.detach = list(host['ps'])
            return dm
        raise AssertionError(host)

    def apply(self, dm, fn=None, p=None):
        """the call of the case (or, for a prelude entry, of function `fn` with parameters `p`) on the host `dm`"""
        from datamatrix import series as srs
        np = self.np
        inp = self.inp
        if fn is None:
            fn, p = inp['fn'], inp.get('params', {})
        s = self.col(dm, 's')
        if fn == 'endlock':
            return srs.endlock(s)
        if fn == 'lock':
            lk = self.col(dm, 'l') if p.get('as', 'col') == 'col' else [int(v) for v in self.col(dm, 'l')]
            return srs.lock(s, lk)
        if fn == 'threshold':
            return srs.threshold(s, PREDS[p['pred']][0](p.get('c', 0.0)), min_length=p['min_length'])
        if fn == 'window':
            if p.get('end') is None and p.get('omit_end'):
                return srs.window(s, start=p['start'])
            return srs.window(s, start=p['start'], end=p.get('end'))
        if fn == 'getslice':
            return s[:, p.get('lo'):p.get('hi')]
        if fn == 'concatenate':
            return srs.concatenate(*[self.col(dm, name) for name in sorted(self.all_series(inp))])
        if fn == 'normalize_time':
            return srs.normalize_time(s, self.col(dm, 's2'))
        if fn == 'setdepth':
            c = s             # dm is a private copy in this case (see observe)
            c.depth = p['depth']
            return c
        if fn == 'downsample':
            if p.get('fnc'):
                return srs.downsample(s, by=p['by'], fnc=make_op(p['fnc']))
            return srs.downsample(s, by=p['by'])
        if fn == 'interpolate':
            return srs.interpolate(s)
        if fn == 'reduce':
            op = p.get('op', 'mean')
            if op == 'default':
                return srs.reduce(s)
            if op == 'noaxis':
                return srs.reduce(s, operation=lambda a: float(np.nanmean(a)))
            if op in MUT_OPS:
                return srs.reduce(s, operation=make_op(op))
            if op in PLAIN_OPS:
                return srs.reduce(s, operation=plain_fn(op))
            return srs.reduce(s, operation=np.nanmean if op == 'mean' else np.nanmedian)
        if fn == 'baseline':
            kw = {}
            if p.get('rop'):
                kw['reduce_fnc'] = make_op(p['rop'])
            elif p.get('red') in PLAIN_OPS:
                kw['reduce_fnc'] = plain_fn(p['red'])
            elif p.get('red') == 'mean':
                kw['reduce_fnc'] = np.nanmean
            if p.get('method') is not None:
                kw['method'] = p['method']
            if 'bl_start' in p:
                kw['bl_start'] = p['bl_start']
            if p.get('bl_end') is not None:
                kw['bl_end'] = p['bl_end']
            return srs.baseline(s, self.col(dm, 's2'), **kw)
        if fn == 'z':
            return srs.z(s)
        if fn == 'smooth':
            return srs.smooth(s, winlen=p['winlen'], wintype=p['wintype'])
        if fn == 'fft':
            return srs.fft(s, truncate=p['truncate'])
        if fn in FILTERS:
            kw = {'order': p['order']} if 'order' in p else {}
            if 'fs' in p:
                kw['sampling_freq'] = p['fs']
            if fn == 'lowpass':
                return srs.filter_lowpass(s, freq_max=p['f'], **kw)
            if fn == 'highpass':
                return srs.filter_highpass(s, freq_min=p['f'], **kw)
            return srs.filter_bandpass(s, freq_range=(p['f'], p['f2']), **kw)
        raise AssertionError(fn)

    def snapshot(self, dm):
        snap = {}
        for name, col in dm.columns:
            snap[name] = (col._seq.tobytes() if hasattr(col._seq, 'tobytes') else repr(list(col._seq)),
                          getattr(col, 'depth', None), [int(i) for i in col._rowid], len(col))
        snap['#len'] = len(dm)
        snap['#names'] = [name for name, _c in dm.columns]
        return snap

    def observe(self, dm):
        """Apply to one host; returns dict(rows=[[...]] | None, exc=name, zero_point, fails=[...])."""
        from datamatrix._datamatrix._seriescolumn import _SeriesColumn
        from datamatrix import FloatColumn
        fn = self.inp['fn']
        fails = []
        work = dm
        if fn == 'setdepth':        # the depth setter changes its column: it gets a table of its own
            work = dm[:]
            if dm is self.dm and (self.inp.get('src') or self.inp.get('table')) and not self.build_fail:
                # a copy would not have the history of the source (a cut column is a view of a wider buffer): build it again
                again = Run(self.inp)
                if not again.build_fail:
                    work = again.dm
        before = self.snapshot(dm)
        given = self.col(work, 's')
        inrows = [tolist(given[i]) for i in range(len(given))] if given.depth else [[] for _ in range(len(given))]
        taken = []      # np.asarray(col) / np.array(col) of every series column taken BEFORE the call: not live views
        if fn != 'setdepth':
            with warnings.catch_warnings():
                warnings.simplefilter('ignore')
                for name in sorted(self.all_series(self.inp)):
                    for how, mk in (('np.asarray', self.np.asarray), ('np.array', self.np.array)):
                        try:
                            a = mk(self.col(work, name))
                            taken.append((how, name, a, a.tobytes()))
                        except Exception:       # noqa -- not this property's business
                            pass
        try:
            with warnings.catch_warnings():
                warnings.simplefilter('ignore')
                res = self.apply(work)
        except Exception as e:           # noqa
            res = e
        after = self.snapshot(dm)
        if before != after:
            fails.append('%s changed its input (column data, depth, row ids or the host table)' % fn)
        for how, name, a, was in taken:
            if a.tobytes() != was:
                fails.append('%s(dm.%s) taken before the call of %s was changed by the call (it shares the storage of the '
                             'column the call worked on)' % (how, name, fn))
        out = {'in': inrows, 'rows': None, 'exc': None, 'zp': None, 'fails': fails,
               'ks': [int(v) for v in self.col(dm, 'k')]}
        if isinstance(res, Exception):
            out['exc'] = type(res).__name__
            return out
        if fn == 'lock':
            if not (isinstance(res, tuple) and len(res) == 2):
                fails.append('lock did not return (series, zero_point)')
                return out
            res, zp = res
            out['zp'] = int(zp)
        want = FloatColumn if fn == 'reduce' else _SeriesColumn
        if type(res) is not want:
            fails.append('%s returned %s instead of %s' % (fn, type(res).__name__, want.__name__))
            return out
        if len(res) != len(given):
            fails.append('%s returned %d rows for %d input rows' % (fn, len(res), len(given)))
        if res._datamatrix is not given._datamatrix:
            fails.append('%s: the result is not attached to the DataMatrix of its input' % fn)
        if [int(i) for i in res._rowid] != [int(i) for i in given._rowid]:
            fails.append('%s: the result rows are not the input rows (row ids differ)' % fn)
        if fn == 'reduce':
            vals = [res[i] for i in range(len(res))]
            if not all(type(v) is float for v in vals):
                fails.append('reduce: cells are not floats')
            out['rows'] = [[None if v != v else float(v)] for v in vals]
        else:
            if res._seq.shape != (len(res), res.depth):
                fails.append('%s: storage shape %r does not match (rows, depth) = (%d, %d)' % (
                    fn, res._seq.shape, len(res), res.depth))
            out['rows'] = [tolist(res[i]) for i in range(len(res))] if res.depth else [[] for _ in range(len(res))]
            out['depth'] = int(res.depth)
        return out


# ---------------------------------------------------------------------- call histories
def run_prelude(run, prelude):
    """Executes the calls of a prelude (results are discarded, exceptions are observations of no interest here).
    on='same': on the host table of the case itself; otherwise on a table of its own built from the entry's rows."""
    for pre in prelude:
        try:
            with warnings.catch_warnings():
                warnings.simplefilter('ignore')
                if pre.get('on') == 'same':
                    run.apply(run.dm[:] if pre['fn'] == 'setdepth' else run.dm, pre['fn'], pre.get('params', {}))
                else:
                    r2 = Run(pre)
                    r2.observe(r2.dm)
        except Exception:       # noqa
            pass


def run_main(inp):
    """The main call of `inp` on its host table, nothing before it -> JSON-able observation."""
    run = Run(inp)
    o = run.observe(run.dm)
    return {'rows': o['rows'], 'exc': o['exc'], 'zero_point': o['zp']}


def bits_equal(a, b):
    """bit-identical samples (NaN payloads aside)"""
    if isnan(a) or isnan(b):
        return isnan(a) and isnan(b)
    return float(a) == float(b) and math.copysign(1.0, a) == math.copysign(1.0, b)


def obs_diff(a, b):
    """None when two observations of the same call are bit-identical, else a description of the first difference"""
    for k in ('exc', 'zero_point'):
        if a.get(k) != b.get(k):
            return '%s %r vs %r' % (k, a.get(k), b.get(k))
    ra, rb = a.get('rows'), b.get('rows')
    if (ra is None) != (rb is None):
        return 'rows %r vs %r' % (ra, rb)
    if ra is None:
        return None
    if len(ra) != len(rb):
        return '%d rows vs %d rows' % (len(ra), len(rb))
    for i, (x, y) in enumerate(zip(ra, rb)):
        if len(x) != len(y) or not all(bits_equal(u, v) for u, v in zip(x, y)):
            return 'row %d: %r vs %r' % (i, x, y)
    return None


# Every case is evaluated in a process forked from a "zygote" that has imported the library but never called it
# (harness/c18_zygote.py): the state of a fresh interpreter.  Cases are therefore independent of one another and of
# the order in which the generator emits them, and a replay sees exactly what the run saw.
IN_CHILD = False
_LOCAL = threading.local()
_ALL_ZYGOTES = []


def zygote():
    z = getattr(_LOCAL, 'z', None)
    if z is None:
        import atexit
        import c18_zygote
        z = _LOCAL.z = c18_zygote.Zygote()
        _ALL_ZYGOTES.append(z)
        atexit.register(z.close)
    return z


def in_fresh_process(mode, inp):
    """mode 'case': PROP.rerun_here(inp) -> {'case': ...};  mode 'main': run_main(inp) -> {'obs': ...};
    {'error': text} when the child could not answer (the caller then falls back to this process)"""
    try:
        return zygote().request({'mode': mode, 'input': inp})
    except Exception as e:      # noqa -- the helper process could not be started / died
        return {'error': '%s: %s' % (type(e).__name__, e)}


def ref_butter(fn, p, rows):
    """direct SciPy reference for the Butterworth filters: butter(..., output='sos') + sosfilt per row (what the
    documentation of filter_lowpass/highpass/bandpass promises) -> rows of floats, or None when SciPy rejects the
    parameters"""
    import numpy as np
    from scipy.signal import butter, sosfilt
    wn = (p['f'], p['f2']) if fn == 'bandpass' else p['f']
    try:
        sos = butter(p.get('order', 2), wn, btype=fn, fs=p.get('fs'), output='sos')
    except Exception:       # noqa
        return None
    out = []
    with warnings.catch_warnings():
        warnings.simplefilter('ignore')
        for r in rows:
            out.append(tolist(sosfilt(sos, np.array([NAN if v is None else v for v in r], dtype=float))))
    return out


# ---------------------------------------------------------------------- the property object
class C18:
    id = 'C18'
    props_file = 'theories/Props/C18.v'
    kernel_files = ['KSeries.v']
    oracle_vos = ['theories/Run/SC18.vo']
    model_vos = ['theories/Run/RC18.vo']
    oracle_imports = ['From Coq Require Import QArith.', 'From DM Require Import Run.SC18.']
    model_imports = ['From Coq Require Import QArith.', 'From DM Require Import Run.SC18 Run.RC18.']
    exhaustive = False
    rule = ('series of 1-5 rows x depth 1-9 (thorough: up to 7 x 12) whose rows are drawn from NaN patterns (none, leading, '
            'trailing, interior, both ends, all-NaN, single valid sample) over small dyadic values; every function of '
            'the property with parameters in range (by 1..depth, min_length 0..depth+1, window/slice bounds incl. negative '
            'and None, lock offsets with ties, integer increasing timestamps with trailing NaN, 2-3 concatenated columns); '
            'each case is run on the host table and on a reordered / selected host (dm[positions], ops.sort by a key column, '
            'dm.k == {..}); structural functions and exactly-representable arithmetic inputs are compared exactly with the '
            'L0 spec inside Coq on both hosts, other arithmetic inputs with relative tolerance 1e-9 on the Python side; '
            'for all functions incl. smooth/fft/Butterworth: f(reordered) == reorder(f(original)), per-row call == column '
            'call, inputs unchanged, one row per input row on the same DataMatrix; the Butterworth filters (orders 1-3, '
            'sampling frequency omitted / None / 2 / 10 / 100) are also compared with scipy.signal.butter(output=sos) + sosfilt '
            'per row (1e-9).  A malformed stream (wrong lock length, by > depth, bad timestamps, reversed windows) is compared '
            'with the L1 model only.  Every case is evaluated in a process forked from a helper that has imported the library '
            'but never called it (the state of a fresh interpreter), so cases do not influence one another.  Call histories: '
            'for each of the 18 functions, cases with a prelude of 1-4 (sometimes 8-20) other calls made first in the same '
            'process -- the same function with other parameters or other data, the other filters with the same cut-off / order '
            '/ sampling frequency, smooth with the same window length and another window type, any of the 18 functions in '
            'random order, on the host table of the case, on a copy of its rows or on other rows; the main call after the '
            'prelude must be bit-identical to the main call evaluated alone in another fresh process (and satisfies all the '
            'checks above).  Sources with a configuration / a history, for each of the 18 functions: every series column '
            'handed over (signal, baseline, timestamps, concatenated columns) created with defaultnan=False or True, plainly / '
            'narrower and grown / wider and cut (its storage is then a view of the wider buffer) / cut and grown again with '
            'the depth setter, as the result of an operation on or a depth slice of another column; the host table built '
            'plainly or by appending rows after the columns existed (dm.length, <<), cutting a longer table, indexing / '
            'selecting / sorting / shuffling another table (the series columns created before or after that); the source must hold exactly the rows written to it and all the '
            'checks above apply (the result holds NaN where there is no data whatever the source pads with; the depth '
            'setter pads with 0 for a defaultnan=False column, with NaN otherwise).  User-supplied operations that are allowed '
            'to modify / reorder the array they are given: reduce(operation=) and baseline(reduce_fnc=) with '
            'functools.partial(np.nanmedian / np.median, overwrite_input=True), functions that sort their argument in place, '
            'reverse it in place or write NaN into every cell of it before / after reducing (with and, for baseline, without '
            'an axis parameter), also on sources with a history and after a prelude; and any of the 18 functions after 1-2 '
            'such reduce calls on its own host table: the result is that of the pure operation (nanmean / nanmedian / '
            'np.median), every column of the host (signal, baseline, other columns) reads bit for bit as before the call, and '
            'np.asarray(col) / np.array(col) of every series column taken before the call are unchanged after it (not live '
            'views of the storage the call works on); checked for every case of every family.  Plain NumPy reducers as '
            'operation / reduce_fnc: np.mean, sum, max, min, std, amax, amin (NumPy calls a method of that name on a non-array '
            'argument when it has one -- a SeriesColumn has properties of these names), np.median, ptp, var and the nan-aware '
            'nansum, nanmax, nanmin, nanstd, nanvar, on tables whose number of rows EQUALS the depth of the reduced column '
            '(baseline: the width of the window), differs from it, and where a selection / index list / a main host that is '
            'itself a selection makes the two equal: per row the value of the reducer on that row (NaN as soon as the row '
            'holds a NaN for the plain ones), exactly inside Coq for sum / max / min / ptp / mean / median on exactly '
            'representable inputs, else against the rational reference with 1e-9 plus the a-priori rounding bound of the '
            'reducer.  Rows riding on a large offset (|mean| / spread from 1e3 to 1e12, one row in six without offset, '
            'non-integer samples, whole-number offsets, every NaN pattern) for z, reduce, baseline (baseline column on the '
            'same or another offset), downsample, interpolate: z is judged per row -- mean 0, standard deviation 1, each '
            'score against the exact rational reference -- with the tolerance max(1e-9, a-priori bound of the two-pass '
            'formula for the conditioning max|x|/std of that row) (second order in u*max|x|/std; a single-pass E[a^2]-E[a]^2 '
            'loses u*(max|x|/std)^2 and is far outside), the others with 1e-9 relative to the magnitude of the operands.  '
            'non-trivial = the output differs from the input column; distinct by (function, parameters, rows, '
            'host, prelude, source configuration)')
    trusted_base = [
        'Coq 8.16.1 kernel (coqc; vm_compute for evaluating cases; no native_compute)',
        'translator /verif/translate/gen_series.py (+ py2coq.py): slice bounds, depth arithmetic and run-length tests of '
        'series.py / _seriescolumn.py -> Gen/KSeries.v, and its pinned connecting statements',
        'hand-written NumPy models in Model/Series.v (basic slicing, reshape, np.interp, nanmean/nanmedian, searchsorted on '
        'arange), exercised by the correspondence',
        'harness/c18.py (runner, literal printer via fractions.Fraction, exactness filter, tolerance references) and '
        'harness/c18_zygote.py (fork server: every case starts from the state of a fresh interpreter)',
        'scipy.signal.butter / sosfilt called directly as the reference of the three filters',
        'modelled, not verified: NumPy/SciPy numerics (fft, convolve, sosfilt, butter), IEEE rounding',
    ]
    assumptions = [
        'samples are finite binary64 values or NaN (no infinities in inputs); a case whose output holds an infinity is '
        'checked on the Python side only',
        'arithmetic functions (interpolate, downsample, reduce, baseline, z) are compared exactly inside Coq only on inputs '
        'for which every intermediate float operation is exact (decided from the input with fractions.Fraction); on other '
        'inputs the comparison with the rational reference uses relative tolerance 1e-9 on the Python side',
        'smooth and fft: only the row-wise and history-independence statements are checked (their numerical content is '
        'not part of the property); the Butterworth filters are in addition compared with SciPy (butter + sosfilt, relative '
        'tolerance 1e-9)',
        'history independence is checked from the state of a fresh interpreter that has imported datamatrix, numpy and '
        'scipy.signal; state kept outside the process (files) is not reset between cases',
        'rows with a large offset: the tolerance granted to z (and to var / std / sum reducers and to a baseline value) is '
        'the rigorous a-priori rounding bound of the documented two-pass computation in binary64 for that row (u = 2^-53, '
        'g_k = k*u/(1-k*u), any summation order), never below the 1e-9 used for well-conditioned rows; offsets beyond '
        'max|x|/std ~ 1e13 (where a double mean cannot resolve the spread) are not generated',
        'np.max / np.min of an EMPTY baseline window (ValueError in NumPy itself) is not generated for the plain reducers',
        'z: rows with zero variance or no valid sample are outside the formula (mean 0 / sd 1 is unsatisfiable); the '
        'standard deviation enters the Coq oracle as a rational witness checked by sd*sd == variance',
        'host-table reordering / selection itself (dm[positions], ops.sort, dm.k == set) is the subject of C01/C02/C10; here the '
        'derived host is read back and used as the input of the second run',
        'the series column passed in is a column of its DataMatrix (not a detached slice of it)',
        'user-supplied operations reach their argument through NumPy (np.asarray(a) / a NumPy reduction), not through '
        'private attributes of the column; pending finding kept out of the default stream '
        '(INCLUDE_PENDING_FINDINGS_MUTATING_OPS): reduce with a mutating operation WITHOUT an axis parameter and '
        'downsample with a mutating fnc are handed row views of the input storage and change the input',
        'defaultnan=False is a setting of the SOURCE column (its own new cells -- depth setter, appended rows -- are 0); '
        'the columns returned by the series functions hold NaN where there is no data whatever that setting is (lock, '
        'normalize_time, concatenate, endlock, ... allocate a fresh column); every source history ends with the column '
        'holding exactly the rows of the input, which is verified before the call (a mismatch is reported as a violation)',
    ]

    # ---- one case ----------------------------------------------------------
    def rerun(self, inp):
        """The case is evaluated from the state of a fresh interpreter (forked helper); when it has a prelude, its main
        call is evaluated a second time in another fresh process WITHOUT the prelude and must be bit-identical."""
        if IN_CHILD or os.environ.get('C18_INPROCESS') == '1':
            return self.rerun_here(inp)
        ans = in_fresh_process('case', inp)
        if 'case' not in ans:
            case = self.rerun_here(inp)      # as before: an exception of the runner surfaces in the driver
            case['tags'] = sorted(set(case['tags'] + ['evaluated-in-this-process']))
            return case
        case = ans['case']
        case['input'] = inp
        if inp.get('prelude') and not inp.get('malformed'):
            fresh = in_fresh_process('main', inp)
            if 'obs' not in fresh:
                fresh = {'obs': run_main(inp)}
            fresh, after = fresh['obs'], case['observed']['host']
            d = obs_diff(fresh, after)
            if d:
                def show(o):
                    return o['rows'] if o['exc'] is None else o['exc']
                msg = ('%s depends on the call history: evaluated first in a fresh interpreter it gives %r, the same call on '
                       'the same input after the calls %s gives %r (%s)' % (
                           inp['fn'], show(fresh), json.dumps([[e['fn'], e.get('params')] for e in inp['prelude']],
                                                              sort_keys=True), show(after), d))
                case['pyfail'] = msg + ('; ' + case['pyfail'] if case.get('pyfail') else '')
            case['observed']['host_without_prelude'] = fresh
        return case

    def rerun_many(self, inps):
        """rerun for a list of inputs, a few helper processes in parallel; order preserved"""
        if IN_CHILD or os.environ.get('C18_INPROCESS') == '1' or len(inps) < 8:
            return [self.rerun(i) for i in inps]
        from concurrent.futures import ThreadPoolExecutor
        with ThreadPoolExecutor(max_workers=min(4, os.cpu_count() or 1)) as ex:
            out = list(ex.map(self.rerun, inps))
        while _ALL_ZYGOTES:
            _ALL_ZYGOTES.pop().close()
        _LOCAL.z = None
        return out

    def rerun_here(self, inp):
        fn = inp['fn']
        run = Run(inp)
        run_prelude(run, inp.get('prelude') or [])
        o0 = run.observe(run.dm)
        try:
            dm1 = run.derived()
            o1 = run.observe(dm1)
        except Exception as e:       # the host operation itself failed: not this property's business
            o1 = None
        fails = list(o0['fails'])
        if run.build_fail:
            fails.append('source: ' + run.build_fail)
        if o1:
            fails += ['derived host: ' + f for f in o1['fails']]
        malformed = bool(inp.get('malformed'))
        oracle_parts, model_parts = [], []
        mode = 'exact'
        try:
            for which, o in ((0, o0), (1, o1)):
                if o is None:
                    continue
                oc, mc, md = self.terms(inp, o)
                if md == 'tol':
                    mode = 'tol'
                if oc and not malformed:
                    oracle_parts.append(oc)
                if mc and which == 0:
                    model_parts.append(mc)
                if malformed:
                    continue
                if o['exc'] is not None and self.inside(inp, o):
                    fails.append('%s raised %s on an input inside the property' % (fn, o['exc']))
                fails += self.python_checks(inp, o)
        except OverflowError:
            mode = 'inf'
            oracle_parts, model_parts = [], []
        # row-wise statements between the two hosts
        if o1 and not malformed and o0['rows'] is not None and o1['rows'] is not None:
            ps = o1['ks']
            if all(0 <= p < len(o0['rows']) for p in ps) and len(o1['rows']) == len(ps):
                if fn in ROWLOCAL:
                    exp = [o0['rows'][p] for p in ps]
                    if not (len(exp) == len(o1['rows']) and all(
                            len(a) == len(b) and all(same(x, y) for x, y in zip(a, b)) for a, b in zip(exp, o1['rows']))):
                        fails.append('%s does not commute with reordering/selecting rows: f(host%r) = %r, expected %r' % (
                            fn, ps, o1['rows'], exp))
                    if mode == 'exact' and fn not in ABSTRACT:
                        oracle_parts.append('o_commutes %s %s %s' % (
                            '[' + '; '.join(L.nat(p) for p in ps) + ']', rowslit(o0['rows']), rowslit(o1['rows'])))
            if fn in ABSTRACT or fn in ('z', 'interpolate', 'downsample'):
                fails += self.per_row_calls(inp, o0)
        observed = {'host': {'rows': o0['rows'], 'exc': o0['exc'], 'zero_point': o0['zp']},
                    'derived': None if o1 is None else {'positions': o1['ks'], 'rows': o1['rows'], 'exc': o1['exc'],
                                                        'zero_point': o1['zp']}}
        nontrivial = o0['rows'] is not None and o0['rows'] != o0['in']
        tags = ['fn:' + fn, 'mode:' + mode, 'rows:%d' % len(inp['rows']), 'depth:%d' % inp['depth'],
                'host:' + (inp.get('host') or {'kind': 'id'})['kind']] + (['malformed'] if malformed else [])
        for r in inp['rows']:
            tags.append('nan:' + nan_class(r))
        mop = (inp.get('params') or {}).get('op') if fn == 'reduce' else (inp.get('params') or {}).get(
            'rop' if fn == 'baseline' else 'fnc')
        if mop in MUT_OPS:
            tags += ['mutating-operation', 'operation:%s:%s' % (fn, mop)]
        if fn == 'baseline' and (inp.get('params') or {}).get('red') in PLAIN_OPS:
            mop = inp['params']['red']
        if fn in ('reduce', 'baseline'):
            # the depth of the column that is reduced (baseline: of the window) against the number of rows
            w = inp['depth']
            if fn == 'baseline' and inp.get('more') and inp['more'][0]:
                q = inp.get('params') or {}
                b0 = inp['more'][0][0]
                w = len(pyslice(b0, q.get('bl_start', -100), q.get('bl_end') if q.get('bl_end') is not None else len(b0)))
            tags.append('rows%sreduced-depth' % ('==' if len(inp['rows']) == w else '!='))
            if o1 is not None and len(o1['ks']) == w:
                tags.append('derived-rows==reduced-depth')
            if mop in PLAIN_OPS:
                tags += ['plain-reducer', 'operation:%s:%s' % (fn, mop)] + [
                    'plain-reducer:%s' % t for t in tags if 'reduced-depth' in t]
        if inp.get('offset'):
            tags += ['large-offset', 'large-offset:' + fn]
            for r in inp['rows']:
                try:
                    if ref_z(r)[0] is not None and any(x is not None for x in r):
                        tags.append('max|x|/std~1e%d' % int(math.floor(math.log10(z_tolerance(r)[0]) + 0.5)))
                except (ValueError, ZeroDivisionError, OverflowError):
                    pass
        for name, cfg in sorted((inp.get('src') or {}).items()):
            tags += ['src:' + cfg.get('hist', 'plain'), 'src-defaultnan:%s' % cfg.get('dn', True),
                     'src:%s:%s%s' % (fn, cfg.get('hist', 'plain'), '' if cfg.get('dn', True) else ':defaultnan=False')]
        if inp.get('table'):
            tags.append('table:' + inp['table']['kind'])
        for e in inp.get('prelude') or []:
            if any(v in MUT_OPS for v in (e.get('params') or {}).values() if isinstance(v, str)):
                tags.append('before:mutating-operation')
            tags += ['history', 'before:' + e['fn'], 'before-on:' + ('host' if e.get('on') == 'same' else 'same-rows' if e.get(
                'rows') == inp['rows'] else 'other-rows')]
        return {
            'input': inp, 'observed': observed, 'pyfail': '; '.join(fails) if fails else None,
            'oracle': '(' + ' && '.join(oracle_parts) + ')' if oracle_parts else 'true',
            'model': '(' + ' && '.join(model_parts) + ')' if model_parts else 'true',
            'nontrivial': nontrivial,
            'sig': json.dumps([fn, inp.get('params'), inp['rows'], inp.get('more'), inp.get('lock'), inp.get('host'),
                               inp.get('prelude'), inp.get('src'), inp.get('table')], sort_keys=True),
            'tags': sorted(set(tags)),
        }

    @staticmethod
    def inside(inp, o):
        """False for inputs the property does not quantify over (the oracle is silent there as well)"""
        if C18._empty_reduction(inp):
            return False              # max / min / ptp of an EMPTY window have no value: NumPy raises ValueError
        if inp['fn'] == 'normalize_time':
            tss = [inp['more'][0][k] for k in o['ks']]
            if all(all(t is None for t in ts) for ts in tss):
                return False          # no timestamp at all: the depth of the result is undefined
        return True

    @staticmethod
    def _empty_reduction(inp):
        """a user-chosen reducer without an identity element (max, min, ptp and their nan-variants) over an empty window:
        baseline with an empty [bl_start:bl_end] slice of the baseline series, reduce of a depth-0 series"""
        p = inp.get('params') or {}
        red = str(p.get('red') or '')
        if not any(t in red for t in ('max', 'min', 'ptp')):
            return False
        try:
            if inp['fn'] == 'baseline':
                depth = len(inp['more'][0][0]) if inp.get('more') and inp['more'][0] else inp['depth']
                return len(range(*slice(p.get('bl_start'), p.get('bl_end')).indices(depth))) == 0
            if inp['fn'] == 'reduce':
                return inp['depth'] == 0
        except Exception:       # noqa: BLE001
            return False
        return False

    def terms(self, inp, o):
        """-> (oracle term | None, model term | None, 'exact' | 'tol')"""
        fn, p = inp['fn'], inp.get('params', {})
        if self._empty_reduction(inp):
            return None, None, 'exact'
        rows = o['in']
        d = len(rows[0]) if rows else inp['depth']
        n = len(rows)
        ks = o['ks']
        S = rowslit(rows)
        obs = obslit(o['rows'])
        if fn == 'endlock':
            return 'o_endlock %s %s' % (S, obs), 'm_endlock %s %s' % (S, obs), 'exact'
        if fn == 'lock':
            lk = [inp['lock'][k] for k in ks]
            if inp.get('lock_len_off'):
                return None, None, 'exact'
            zp = L.z(o['zp'] if o['zp'] is not None else 0)
            return ('o_lock %s %s %s %s' % (S, L.zs(lk), obs, zp),
                    'm_lock %s %s %s %s %s' % (L.nat(d), S, L.zs(lk), obs, zp), 'exact')
        if fn == 'threshold':
            pr = PREDS[p['pred']][1](p.get('c', 0.0))
            a = '%s %s %s %s' % (pr, L.z(p['min_length']), S, obs)
            return 'o_threshold ' + a, 'm_threshold ' + a, 'exact'
        if fn == 'window':
            a = '%s %s %s %s' % (L.z(p['start']), zopt(p.get('end')), S, obs)
            return 'o_window ' + a, 'm_window %s %s' % (L.nat(d), a), 'exact'
        if fn == 'getslice':
            a = '%s %s %s %s' % (zopt(p.get('lo')), zopt(p.get('hi')), S, obs)
            return 'o_getslice ' + a, 'm_getslice ' + a, 'exact'
        if fn == 'concatenate':
            cols = [rows] + [[extra[k] for k in ks] for extra in inp.get('more', [])]
            ss = '[' + '; '.join(rowslit(c) for c in cols) + ']'
            ms = '[' + '; '.join('(%s, %s)' % (L.nat(len(c[0]) if c else 0), rowslit(c)) for c in cols) + ']'
            return 'o_concat %s %s %s' % (L.nat(n), ss, obs), 'm_concat %s %s %s' % (L.nat(n), ms, obs), 'exact'
        if fn == 'normalize_time':
            tss = [inp['more'][0][k] for k in ks]
            a = '%s %s %s' % (S, timeslit(tss), obs)
            return 'o_normtime ' + a, 'm_normtime %s %s' % (L.nat(d), a), 'exact'
        if fn == 'setdepth':
            if not source_pads_nan(inp):       # created with defaultnan=False: new cells are 0
                return ('o_setdepth_pad (z 0) %s %s %s' % (L.nat(p['depth']), S, obs),
                        'm_setdepth_pad (z 0) %s %s %s %s' % (L.nat(d), L.z(p['depth']), S, obs), 'exact')
            return ('o_setdepth %s %s %s' % (L.nat(p['depth']), S, obs),
                    'm_setdepth %s %s %s %s' % (L.nat(d), L.z(p['depth']), S, obs), 'exact')
        exact = inp.get('exact', False)
        if fn == 'downsample':
            if not exact:
                return None, None, 'tol'
            return ('o_downsample %s %s %s' % (L.nat(p['by']), S, obs) if p['by'] > 0 else None,
                    'm_downsample %s %s %s' % (L.z(p['by']), S, obs), 'exact')
        if fn == 'interpolate':
            if not exact:
                return None, None, 'tol'
            return 'o_interpolate %s %s' % (S, obs), 'm_interpolate %s %s' % (S, obs), 'exact'
        if fn == 'reduce':
            pure = op_pure(p.get('op', 'mean'))
            if not exact or pure not in COQ_RED:
                return None, None, 'tol'
            red = COQ_RED[pure]
            ob = 'None' if o['rows'] is None else '(Some %s)' % rowlit([r[0] for r in o['rows']])
            return 'o_reduce %s %s %s' % (red, S, ob), 'm_reduce %s %s %s' % (red, S, ob), 'exact'
        if fn == 'baseline':
            bl = [inp['more'][0][k] for k in ks]
            lo, hi = p.get('bl_start', -100), p.get('bl_end')
            div = p.get('method') == 'divisive'
            red = op_pure(p['rop']) if p.get('rop') else op_pure(p.get('red', 'median'))
            ok = exact and red in COQ_RED
            for r, b in zip(rows, bl):
                ref, bv = ref_baseline(r, b, lo, hi, red, div)
                if bv is not None and (not fexact(bv) or (div and bv == 0)):
                    ok = False
                if any(x is not None and not fexact(x) for x in ref):
                    ok = False
            if not ok:
                return None, None, 'tol'
            a = '%s %s %s %s %s %s %s' % (L.boolean(div), COQ_RED[red], L.z(lo), zopt(hi), S,
                                          rowslit(bl), obs)
            dbl = len(bl[0]) if bl else 0
            return 'o_baseline ' + a, 'm_baseline %s %s %s' % (L.nat(d), L.nat(dbl), a), 'exact'
        if fn == 'z':
            sds = []
            for r in rows:
                _ref, sd, ex = ref_z(r)
                sds.append(sd if ex else None)
            if o['rows'] is None or all(s is None for s in sds):
                return None, None, 'tol'
            w = '[' + '; '.join('None' if s is None else '(Some %s)' % qlit(s) for s in sds) + ']'
            return 'o_z %s %s %s' % (w, S, obs), 'm_z %s %s %s' % (w, S, obs), 'exact'
        return None, None, 'exact'

    def python_checks(self, inp, o):
        """tolerance comparisons and property-level facts that Coq does not see"""
        fn, p = inp['fn'], inp.get('params', {})
        rows, out = o['in'], o['rows']
        fails = []
        if out is None:
            return fails
        ks = o['ks']

        def cmp_rows(ref, what, extra=None):
            """extra[i]: what row i is granted on top of the relative tolerance 1e-9 (a number, or one per sample)"""
            for i, (a, b) in enumerate(zip(ref, out)):
                if a is None:
                    continue
                ex = extra[i] if extra is not None else 0.0
                exs = ex if isinstance(ex, list) else [ex] * len(a)
                if len(a) != len(b) or not all(close(x, y, e) for x, y, e in zip(a, b, exs)):
                    fails.append('%s row %d: observed %r, formula gives %r%s' % (
                        what, i, b, [None if x is None else float(x) for x in a],
                        '' if not any(exs) else ' (granted for rounding: %.3g)' % max(exs)))
                    break
        # rows riding on a large offset / reducers beyond nanmean, nanmedian: the rounding bound of the computation is
        # granted on top of the relative tolerance
        conditioned = bool(inp.get('offset'))
        if fn == 'downsample' and p['by'] > 0:
            cmp_rows([ref_downsample(r, p['by']) for r in rows], 'downsample')
        elif fn == 'interpolate':
            cmp_rows([ref_interpolate(r) for r in rows], 'interpolate')
        elif fn == 'reduce':
            pure = op_pure(p.get('op', 'mean'))
            f = REDUCERS[pure]
            grant = conditioned or pure not in ('mean', 'median', 'npmedian')
            cmp_rows([[f(r)] for r in rows], 'reduce', [red_err(pure, r) if grant else 0.0 for r in rows])
        elif fn == 'baseline':
            bl = [inp['more'][0][k] for k in ks]
            refs, extra = [], []
            red = op_pure(p['rop']) if p.get('rop') else op_pure(p.get('red', 'median'))
            grant = conditioned or red not in ('mean', 'median', 'npmedian')
            div = p.get('method') == 'divisive'
            for r, b in zip(rows, bl):
                lo, hi = p.get('bl_start', -100), p.get('bl_end')
                ref, bv = ref_baseline(r, b, lo, hi, red, div)
                eb = red_err(red, pyslice(b, lo, hi if hi is not None else len(b))) if grant else 0.0
                if div and bv is not None and abs(bv) <= 4 * eb:
                    ref = None          # the baseline value is 0 or not resolved by a double computation
                elif div and bv is not None and eb:
                    extra.append([0.0 if x is None else 2 * abs(float(x)) * eb / abs(float(bv)) for x in ref])
                else:
                    extra.append(eb)
                if ref is None:
                    extra.append(0.0)
                refs.append(ref)
            cmp_rows(refs, 'baseline', extra)
        elif fn == 'z':
            refs, extra = [], []
            for r, orow in zip(rows, out):
                ref, _sd, _ex = ref_z(r)
                refs.append(ref)
                if ref is None or all(x is None for x in ref):
                    extra.append(0.0)
                    continue
                kappa, tol_mean, tol_std = z_tolerance(r)
                extra.append(0.0 if max(tol_mean, tol_std) <= 1e-9 else      # well-conditioned rows: as before
                             [0.0 if x is None else 2 * (tol_mean + abs(x) * tol_std) for x in ref])
                v = [x for x in orow if not isnan(x)]
                if v:
                    m = math.fsum(v) / len(v)
                    sd = math.sqrt(math.fsum((x - m) ** 2 for x in v) / len(v))
                    if not (abs(m) <= tol_mean and abs(sd - 1) <= tol_std):
                        fails.append('z: row %r has mean %r and standard deviation %r (tolerances %.3g / %.3g for '
                                     'max|x|/std = %.3g)' % (orow, m, sd, tol_mean, tol_std, kappa))
            cmp_rows(refs, 'z', extra)
        elif fn in FILTERS:
            ref = ref_butter(fn, p, rows)
            if ref is not None:
                cmp_rows(ref, 'filter_%s (scipy.signal.butter + sosfilt reference)' % fn)
        return fails

    def per_row_calls(self, inp, o0):
        """the whole-column call equals the call on a one-row table holding row i (row i depends on row i alone)"""
        fails = []
        if o0['rows'] is None or len(inp['rows']) < 2:
            return fails
        for i, r in enumerate(inp['rows']):
            one = dict(inp)
            one['rows'] = [r]
            one['more'] = [[e[i]] for e in inp.get('more', [])]
            one['lock'] = None if inp.get('lock') is None else [inp['lock'][i]]
            one['host'] = None
            one['sortkey'] = None
            one['table'] = None
            run = Run(one)
            o = run.observe(run.dm)
            if o['rows'] is None or len(o['rows']) != 1 or len(o['rows'][0]) != len(o0['rows'][i]) or not all(
                    close(a, b) for a, b in zip(o['rows'][0], o0['rows'][i])):
                fails.append('%s: row %d of the column call is %r but the same row alone gives %r' % (
                    inp['fn'], i, o0['rows'][i], o['rows'][0] if o['rows'] else o['exc']))
                break
        return fails

    # ---- generator -----------------------------------------------------------
    def gen_row(self, rng, d, scale, kind=None):
        kind = kind or rng.choice(['none', 'none', 'lead', 'trail', 'trail', 'inner', 'both', 'all', 'single', 'random'])
        vals = [scale * rng.choice([1, 1, 1, 0.5, 0.25]) * rng.randint(-12, 12) for _ in range(d)]
        if kind == 'lead':
            k = rng.randint(1, d)
            vals[:k] = [None] * k
        elif kind == 'trail':
            k = rng.randint(1, d)
            vals[d - k:] = [None] * k
        elif kind == 'inner':
            if d >= 3:
                a = rng.randint(1, d - 2)
                b = rng.randint(a, d - 2)
                vals[a:b + 1] = [None] * (b - a + 1)
        elif kind == 'both':
            a = rng.randint(0, d // 2)
            b = rng.randint(0, d // 2)
            vals[:a] = [None] * a
            if b:
                vals[d - b:] = [None] * b
        elif kind == 'all':
            vals = [None] * d
        elif kind == 'single':
            i = rng.randrange(d)
            vals = [None] * i + [vals[i]] + [None] * (d - i - 1)
        elif kind == 'random':
            vals = [None if rng.random() < 0.4 else v for v in vals]
        return [None if v is None else float(v) for v in vals]

    def gen_host(self, rng, n):
        if INCLUDE_PENDING_FINDINGS and rng.random() < 0.25:
            if rng.random() < 0.5:
                lo = rng.randint(0, n - 1)
                return {'kind': 'colslice', 'lo': lo, 'hi': rng.randint(lo + 1, n)}, None
            return {'kind': 'colindex', 'ps': rng.sample(range(n), rng.randint(1, n))}, None
        k = rng.choice(['index', 'index', 'sort', 'select'])
        if k == 'index':
            m = rng.randint(1, n)
            ps = rng.sample(range(n), m)
            return {'kind': 'index', 'ps': ps}, None
        if k == 'sort':
            key = rng.sample(range(100), n)
            return {'kind': 'sort'}, key
        m = rng.randint(1, n)
        return {'kind': 'select', 'ps': sorted(rng.sample(range(n), m))}, None

    def gen_times(self, rng, d):
        k = rng.choice([0, 0, 0, 1, 2, d])
        k = min(k, d)
        t, out = rng.randint(0, 2), []
        for _ in range(d - k):
            out.append(float(t))
            t += rng.randint(1, 3)
        return out + [None] * k

    def gen_case(self, rng, fn, nmax, dmax, tol=False, n=None, d=None):
        n = rng.randint(1, nmax) if n is None else n
        d = rng.randint(1, dmax) if d is None else d
        arith = fn in ARITH
        exact = arith and not tol
        if arith and exact and fn != 'z':
            scale = LCM
        elif tol:
            scale = rng.choice([0.1, 1.7, 3.3e-3, 12345.678])
        else:
            scale = 1
        rows = [self.gen_row(rng, d, scale) for _ in range(n)]
        inp = {'fn': fn, 'depth': d, 'rows': rows, 'params': {}, 'exact': exact}
        p = inp['params']
        if fn == 'z':
            if exact:
                rows = [self.gen_z_row(rng, d) for _ in range(n)]
                inp['rows'] = rows
        if fn == 'lock':
            base = rng.randint(-2, 4)
            inp['lock'] = [base + rng.choice([0, 0, 1, 2, 3, 5]) for _ in range(n)]
            p['as'] = rng.choice(['col', 'list'])
        elif fn == 'threshold':
            p['pred'] = rng.choice(['gt', 'gt', 'lt', 'ge', 'valid', 'nan'])
            p['c'] = float(rng.choice([0, 0, 1, -2, 0.5, 3]))
            p['min_length'] = rng.choice([0, 1, 1, 2, 2, 3, d, d + 1, rng.randint(1, d)])
        elif fn == 'window':
            p['start'] = rng.randint(-d - 1, d)
            p['end'] = rng.choice([None, None, rng.randint(-d, d + 2), rng.randint(0, d)])
            p['omit_end'] = rng.random() < 0.5
        elif fn == 'getslice':
            p['lo'] = rng.choice([None, rng.randint(-d - 1, d + 1), rng.randint(0, d)])
            p['hi'] = rng.choice([None, rng.randint(-d - 1, d + 1), rng.randint(0, d)])
        elif fn == 'concatenate':
            inp['more'] = []
            for _ in range(rng.choice([0, 1, 1, 2])):
                d2 = rng.randint(1, dmax)
                inp['more'].append([self.gen_row(rng, d2, 1) for _ in range(n)])
        elif fn == 'normalize_time':
            inp['more'] = [[self.gen_times(rng, d) for _ in range(n)]]
            if all(all(t is None for t in ts) for ts in inp['more'][0]) or inp['more'][0][0][0] is None and all(
                    ts[0] is None for ts in inp['more'][0]):
                inp['more'][0][0] = [float(i) for i in range(d)]
        elif fn == 'setdepth':
            p['depth'] = rng.randint(0, d + 3)
        elif fn == 'downsample':
            p['by'] = rng.randint(1, d)
        elif fn == 'reduce':
            p['op'] = rng.choice(['mean', 'median', 'default', 'noaxis'])
        elif fn == 'baseline':
            d2 = rng.randint(1, dmax)
            sc = rng.choice([1, 2, 4]) if exact else scale
            bl = []
            for _ in range(n):
                r = self.gen_row(rng, d2, 1)
                if exact:
                    r = [None if v is None else float(rng.choice([1, 2, 4, 8, -1, -2, -4]) * sc) for v in r]
                bl.append(r)
            inp['more'] = [bl]
            p['method'] = rng.choice([None, 'subtractive', 'divisive', 'divisive'])
            p['red'] = rng.choice(['mean', 'median'])
            if rng.random() < 0.7:
                p['bl_start'] = rng.randint(-d2, d2 - 1)
                p['bl_end'] = rng.choice([None, rng.randint(1, d2 + 1)])
        elif fn == 'smooth':
            d = max(d, 3)
            rows = [self.gen_row(rng, d, 1, kind=rng.choice(['none', 'none', 'random', 'trail'])) for _ in range(n)]
            inp.update(depth=d, rows=rows)
            p['winlen'] = rng.choice([w for w in (1, 3, 5, 7) if w <= d])
            p['wintype'] = rng.choice(['hanning', 'flat', 'hamming', 'bartlett', 'blackman'])
        elif fn == 'fft':
            p['truncate'] = rng.random() < 0.6
        elif fn in ('lowpass', 'highpass'):
            p['f'] = rng.choice([0.1, 0.25, 0.5])
            p['order'] = rng.choice([1, 2, 3])
            self.gen_fs(rng, p)
        elif fn == 'bandpass':
            p['f'], p['f2'] = rng.choice([(0.1, 0.3), (0.2, 0.6), (0.05, 0.5)])
            if rng.random() < 0.5:
                p['order'] = rng.choice([1, 2, 3])
            self.gen_fs(rng, p)
        if n > 1 or rng.random() < 0.5:
            host, key = self.gen_host(rng, n)
            inp['host'] = host
            if key is not None:
                inp['sortkey'] = key
        return inp

    HISTS = ['plain', 'plain', 'grow', 'grow', 'shrink', 'shrink', 'shrinkgrow', 'op', 'slice']
    TABLES = ['append', 'lshift', 'truncate', 'index', 'select', 'sort', 'shufflesort']

    def add_source(self, rng, inp):
        """gives the series columns of a case a configuration and a history: created with defaultnan=False, at another
        depth and grown / cut / cut-and-grown with the depth setter (a cut column is a view of the wider buffer), made by
        an operation on / as a depth slice of another column; and the host table a history: rows appended after the
        columns were created (dm.length, <<), a longer table cut, a selection / sorted / shuffled copy of another table"""
        d = inp['depth']
        names = sorted(Run.all_series(inp))
        src = {}
        s_zero = rng.random() < 0.6       # column s created with defaultnan=False
        for name in names:
            dcol = len(Run.all_series(inp)[name][0])
            cfg = {'dn': not s_zero if name == 's' else rng.random() < 0.5, 'hist': rng.choice(self.HISTS),
                   'k': rng.randint(1, 3), 'd0': rng.randint(0, max(0, dcol - 1))}
            src[name] = cfg
        if all(c['dn'] and c['hist'] == 'plain' for c in src.values()):
            src['s']['hist'] = rng.choice(['grow', 'shrink', 'shrinkgrow'])
        inp['src'] = src
        if rng.random() < 0.45:
            inp['table'] = {'kind': rng.choice(self.TABLES), 'n0': rng.randint(1, max(1, len(inp['rows']) - 1)),
                            'extra': rng.randint(1, 3), 'seed': rng.randint(0, 999),
                            'cols': rng.choice(['before', 'before', 'after'])}
        return inp

    @staticmethod
    def gen_fs(rng, p):
        """sampling frequency: omitted, None (the SciPy default of 2 half-cycles per sample) or a value; the cut-offs are
        drawn as fractions of the Nyquist frequency and scaled"""
        k = rng.choice(['omit', 'omit', 'none', 2.0, 10.0, 100.0])
        if k == 'omit':
            return
        p['fs'] = None if k == 'none' else k
        if p['fs'] is not None:
            for key in ('f', 'f2'):
                if key in p:
                    p[key] = p[key] * p['fs'] / 2

    def sibling(self, rng, fn):
        """a function to call before `fn`: mostly one that plausibly shares state with it"""
        r = rng.random()
        if fn in FILTERS:
            return rng.choice(FILTERS) if r < 0.8 else rng.choice(ALL_FNS)
        if r < 0.4:
            return fn
        return rng.choice(ALL_FNS)

    def gen_history(self, rng, fn, nmax, dmax):
        """a case of `fn` with a prelude: 1-4 (one time in eight: 8-20) calls of sibling functions made before it -- the same function with other
        parameters or on other data, the other Butterworth filters with the same cut-off / order / sampling frequency,
        any of the 18 functions in random order -- on the host table of the case, on a copy of its rows or on other rows"""
        inp = self.gen_case(rng, fn, nmax, dmax, tol=(fn in ABSTRACT or rng.random() < 0.3))
        if rng.random() < 0.3:
            self.add_source(rng, inp)
        return self.add_prelude(rng, inp, nmax, dmax)

    def add_prelude(self, rng, inp, nmax, dmax):
        fn = inp['fn']
        n, d = len(inp['rows']), inp['depth']
        p = inp['params']
        pre = []
        for _ in range(rng.randint(8, 20) if rng.random() < 0.12 else rng.randint(1, 4)):
            fn2 = self.sibling(rng, fn)
            e = self.gen_case(rng, fn2, nmax, dmax, tol=True, n=n, d=d)
            e.pop('host', None)
            e.pop('sortkey', None)
            q = e['params']
            if fn in FILTERS and fn2 in FILTERS:
                # overlapping parameters: same order / sampling frequency, one cut-off in common
                for key in ('order', 'fs'):
                    if rng.random() < 0.85:
                        q.pop(key, None)
                        if key in p:
                            q[key] = p[key]
                if q.get('fs') == p.get('fs') and rng.random() < 0.85:
                    nyq = (p.get('fs') or 2.0) / 2
                    f = p['f2'] if (fn == 'bandpass' and rng.random() < 0.5) else p['f']
                    if fn2 == 'bandpass':
                        if fn == 'bandpass':
                            q['f'], q['f2'] = p['f'], p['f2']
                        elif rng.random() < 0.5 or f * 0.5 <= 0:
                            q['f'], q['f2'] = f, (f + nyq) / 2
                        else:
                            q['f'], q['f2'] = f * 0.5, f
                    else:
                        q['f'] = f
            elif fn2 == fn:
                for key in sorted(q):           # the same function: every parameter is shared with probability 1/2
                    if key in p and rng.random() < 0.5:
                        q[key] = p[key]
            if e['depth'] == d and rng.random() < 0.65:
                e['rows'] = json.loads(json.dumps(inp['rows']))
                if fn2 in S_ONLY and rng.random() < 0.6:
                    e = {'fn': fn2, 'params': q, 'on': 'same'}
            pre.append(e)
        inp['prelude'] = pre
        return inp

    def gen_mutating(self, rng, fn, nmax, dmax):
        """a call of a function that takes a user-supplied operation (reduce: operation, baseline: reduce_fnc;
        pending finding: downsample: fnc) with an operation that is allowed to modify / reorder the array it is
        given (MUT_OPS): the result is that of the pure operation, every column of the host reads as before the call"""
        tol = rng.random() < 0.3
        inp = self.gen_case(rng, fn, nmax, dmax, tol=tol, d=rng.randint(min(3, dmax), dmax))
        p = inp['params']
        if fn == 'reduce':
            p['op'] = rng.choice(MUT_AXIS + (MUT_NOAXIS if INCLUDE_PENDING_FINDINGS_MUTATING_OPS else []))
        elif fn == 'baseline':
            p['rop'] = rng.choice(MUT_AXIS + MUT_NOAXIS)
            p['red'] = op_pure(p['rop'])
            if rng.random() < 0.5:          # a window that holds several samples
                d2 = len(inp['more'][0][0])
                p['bl_start'] = rng.randint(0, max(0, d2 - 3))
                p['bl_end'] = rng.choice([None, d2, d2 + 1])
        elif fn == 'downsample':
            p['fnc'] = rng.choice([k for k in MUT_AXIS if MUT_OPS[k][0] == 'mean'])
        r = rng.random()
        if r < 0.35:
            self.add_source(rng, inp)
        elif r < 0.55:
            self.add_prelude(rng, inp, nmax, dmax)
        return inp

    def gen_after_mutating(self, rng, fn, nmax, dmax):
        """any of the 18 functions AFTER calls of reduce with a mutating operation on its own host table (and possibly
        other calls): the main call must be what it is in a fresh process -- the earlier calls left the table alone"""
        inp = self.gen_case(rng, fn, nmax, dmax, tol=(fn in ABSTRACT or rng.random() < 0.3),
                            d=rng.randint(min(3, dmax), dmax))
        if rng.random() < 0.3:
            self.add_source(rng, inp)
        if rng.random() < 0.3:
            self.add_prelude(rng, inp, nmax, dmax)
        pre = inp.get('prelude') or []
        for _ in range(rng.randint(1, 2)):
            pre.insert(rng.randint(0, len(pre)), {'fn': 'reduce', 'params': {'op': rng.choice(MUT_AXIS)}, 'on': 'same'})
        inp['prelude'] = pre
        return inp

    def gen_plain_reduce(self, rng, fn, nmax, dmax, i):
        """reduce(operation=) / baseline(reduce_fnc=) with the plain NumPy reducers (np.mean, sum, max, min, std, amax,
        amin: they call a method of the same name on their argument when it has one; np.median, ptp, var; the nan-aware
        nansum, nanmax, nanmin, nanstd, nanvar) on tables whose number of rows EQUALS the depth of the reduced column
        (baseline: the width of the window), on tables where it differs, and on tables where a selection / an index
        list makes the two equal (the main host has more rows than the depth, the derived host exactly as many)"""
        shape = ('eq', 'sel-eq', 'any', 'sel-eq', 'eq')[i % 5]
        w = rng.randint(1, min(dmax, nmax + 1))          # depth of the column that is reduced
        if shape == 'eq':
            n = w
        elif shape == 'sel-eq':
            n = w + rng.randint(1, 3)
        else:
            n = rng.randint(1, nmax)
        tol = rng.random() < 0.4
        d = w if fn == 'reduce' else rng.randint(1, dmax)
        inp = self.gen_case(rng, fn, nmax, dmax, tol=tol, n=n, d=d)
        scale = LCM if not tol else rng.choice([0.1, 1.7, 3.3e-3, 12345.678])
        kinds = ['none', 'none', 'none', 'none', 'lead', 'trail', 'inner', 'all', 'random']
        inp['rows'] = [self.gen_row(rng, d, scale, kind=rng.choice(kinds)) for _ in range(n)]
        p = inp['params']
        op = rng.choice(PLAIN_METHOD + PLAIN_STRICT + PLAIN_STRICT + sorted(PLAIN_OPS))
        if fn == 'reduce':
            p['op'] = op
        else:
            p['red'] = op
            d2 = w + rng.randint(0, 2)
            a = rng.randint(0, d2 - w)
            bl = []
            for _ in range(n):
                r = self.gen_row(rng, d2, 1 if not tol else scale, kind=rng.choice(kinds))
                if not tol:
                    sc = rng.choice([1, 2, 4])
                    r = [None if v is None else float(rng.choice([1, 2, 4, 8, -1, -2, -4]) * sc) for v in r]
                bl.append(r)
            inp['more'] = [bl]
            p['bl_start'] = a
            p['bl_end'] = None if (a + w == d2 and rng.random() < 0.5) else a + w
        inp.pop('host', None)
        inp.pop('sortkey', None)
        if shape == 'sel-eq':
            if rng.random() < 0.5:
                inp['host'] = {'kind': 'select', 'ps': sorted(rng.sample(range(n), w))}
            else:
                inp['host'] = {'kind': 'index', 'ps': rng.sample(range(n), w)}
        elif n > 1 or rng.random() < 0.5:
            inp['host'], key = self.gen_host(rng, n)
            if key is not None:
                inp['sortkey'] = key
        if rng.random() < 0.25:
            self.add_source(rng, inp)
            if inp.get('table') is None and rng.random() < 0.5:     # the main host itself is a selection of a longer table
                inp['table'] = {'kind': rng.choice(['select', 'index', 'truncate']), 'n0': 1, 'extra': rng.randint(1, 3),
                                'seed': rng.randint(0, 999), 'cols': rng.choice(['before', 'after'])}
        return inp

    def offset_row(self, rng, d, base=None):
        """a row that rides on a large offset: |mean| / spread between 1e3 and 1e12 (one row in six: no offset),
        non-integer samples, any NaN pattern -> (row, offset)"""
        spread = rng.choice([1.0, 1.0, 0.01, 100.0, 7.3])
        if base is None:
            base = 0.0 if rng.random() < 0.16 else rng.choice([1, 1, -1]) * spread * 10 ** rng.uniform(3, 12) * 1.0
            if rng.random() < 0.3 and base:
                base = float(round(base))          # a whole number: time stamps, counters
        pat = self.gen_row(rng, d, 1, kind=rng.choice(['none', 'none', 'none', 'lead', 'trail', 'inner', 'both', 'random']))
        return [None if v is None else base + spread * rng.uniform(-5, 5) for v in pat], base

    def gen_offset(self, rng, fn, nmax, dmax):
        """the arithmetic functions (z, reduce, baseline, downsample, interpolate) on rows with a large offset and a
        small spread: judged per row with a tolerance derived from the conditioning of the computation"""
        n, d = rng.randint(1, nmax), rng.randint(min(3, dmax), dmax)
        inp = self.gen_case(rng, fn, nmax, dmax, tol=True, n=n, d=d)
        rows, bases = [], []
        for _ in range(n):
            r, b = self.offset_row(rng, d)
            rows.append(r)
            bases.append(b)
        inp.update(rows=rows, exact=False, offset=True)
        p = inp['params']
        if fn == 'reduce':
            p['op'] = rng.choice(['mean', 'median', 'default', 'noaxis'] + PLAIN_STRICT + ['nanstd', 'nanvar', 'nansum'])
        elif fn == 'baseline':
            d2 = len(inp['more'][0][0])
            # the baseline column rides on the offset of the signal (the usual case), or on one of its own
            inp['more'] = [[self.offset_row(rng, d2, base=(b if rng.random() < 0.7 else None))[0] for b in bases]]
            p['red'] = rng.choice(['mean', 'median', 'median'] + PLAIN_STRICT + ['nanstd'])
        return inp

    def gen_z_row(self, rng, d):
        """a row whose z-transform is exact in binary64: deviations with a rational, dyadic-friendly sd"""
        for _ in range(200):
            k = rng.randint(2, d) if d >= 2 else 1
            if k < 2:
                break
            pat = rng.choice(['pm', 'spike', 'rand'])
            if pat == 'pm' and k % 2 == 0:
                s = rng.choice([1, 2, 3, 0.5, 5])
                dev = [s] * (k // 2) + [-s] * (k // 2)
            elif pat == 'spike' and k in (2, 5):
                dev = [-1, -1, -1, -1, 4][:k] if k == 5 else [1, -1]
            else:
                dev = [rng.randint(-4, 4) for _ in range(k)]
            rng.shuffle(dev)
            m = rng.choice([0, 1, -3, 10, 2.5])
            vals = [float(m + x) for x in dev]
            pos = sorted(rng.sample(range(d), k))
            row = [None] * d
            for i, v in zip(pos, vals):
                row[i] = v
            _ref, sd, ex = ref_z(row)
            if ex:
                return row
        return self.gen_row(rng, d, 1)

    def gen_malformed(self, rng, nmax, dmax):
        kind = rng.choice(['by', 'window', 'times', 'setdepth'])
        n, d = rng.randint(1, nmax), rng.randint(1, dmax)
        rows = [self.gen_row(rng, d, LCM) for _ in range(n)]
        inp = {'fn': None, 'depth': d, 'rows': rows, 'params': {}, 'malformed': True, 'exact': True}
        if kind == 'by':
            inp['fn'] = 'downsample'
            inp['params']['by'] = rng.choice([d + 1, d + 2, 0, -1])
        elif kind == 'window':
            inp['fn'] = 'window'
            inp['params'].update(start=rng.randint(0, d + 2), end=rng.randint(-d - 2, d // 2))
        elif kind == 'times':
            inp['fn'] = 'normalize_time'
            tss = [self.gen_times(rng, d) for _ in range(n)]
            i = rng.randrange(n)
            bad = rng.choice(['dup', 'nan', 'neg'])
            if bad == 'dup' and d >= 2:
                tss[i] = [1.0] * d
            elif bad == 'nan' and d >= 2:
                tss[i] = [None] + [float(j) for j in range(1, d)]
            else:
                tss[i] = [-1.0] + [float(j) for j in range(d - 1)]
            inp['more'] = [tss]
        else:
            inp['fn'] = 'setdepth'
            inp['params']['depth'] = rng.choice([0, d, d + 5])
        return inp

    def generate(self, rng, tier):
        quick = tier == 'quick'
        nmax, dmax = (5, 9) if quick else (7, 12)
        reps = 55 if quick else 420
        inps = []
        fns = ['endlock', 'lock', 'threshold', 'window', 'getslice', 'concatenate', 'normalize_time', 'setdepth',
               'downsample', 'interpolate', 'reduce', 'baseline', 'z']
        for fn in fns:
            for _ in range(reps):
                inps.append(self.gen_case(rng, fn, nmax, dmax))
        for fn in sorted(ARITH):
            for _ in range(reps // 3):
                inps.append(self.gen_case(rng, fn, nmax, dmax, tol=True))
        for fn in sorted(ABSTRACT):
            for _ in range(reps // 3):
                inps.append(self.gen_case(rng, fn, nmax, dmax, tol=True))
        for _ in range(reps):
            inps.append(self.gen_malformed(rng, nmax, dmax))
        # sources with a configuration / a history, for every function
        for fn in ALL_FNS:
            for i in range(reps // 4):
                tol = fn in ABSTRACT or (fn in ARITH and i % 3 == 2)
                inps.append(self.add_source(rng, self.gen_case(rng, fn, nmax, dmax, tol=tol)))
        # call histories: every function after a prelude of sibling calls
        for fn in ALL_FNS:
            for _ in range((reps // 8) * (2 if fn in FILTERS else 1)):
                inps.append(self.gen_history(rng, fn, nmax, dmax))
        # user-supplied operations that may modify / reorder the array they are given (reduce, baseline; every function
        # after such a call on its own table)
        mut_fns = ['reduce', 'baseline'] + (['downsample'] if INCLUDE_PENDING_FINDINGS_MUTATING_OPS else [])
        for i in range(reps // 2):
            inps.append(self.gen_mutating(rng, mut_fns[i % len(mut_fns)], nmax, dmax))
        for i in range(reps // 5):
            inps.append(self.gen_after_mutating(rng, ALL_FNS[i % len(ALL_FNS)] if not quick else rng.choice(ALL_FNS),
                                                nmax, dmax))
        # reduce / baseline with the plain NumPy reducers, on tables with rows == depth, rows != depth and selections
        # that make the two equal
        for i in range(reps // 2):
            inps.append(self.gen_plain_reduce(rng, 'reduce', nmax, dmax, i))
        for i in range(reps // 3):
            inps.append(self.gen_plain_reduce(rng, 'baseline', nmax, dmax, i))
        # rows riding on a large offset (|mean| / spread 1e3 .. 1e12)
        for i in range(reps):
            inps.append(self.gen_offset(rng, ('z', 'z', 'reduce', 'baseline', 'z', 'downsample', 'interpolate')[i % 7],
                                        nmax, dmax))
        # fixed boundary cases named by the property text
        for inp in BOUNDARY:
            inps.append(json.loads(json.dumps(inp)))
        return self.rerun_many(inps)

    # ---- shrinking -----------------------------------------------------------
    def shrink_candidates(self, inp):
        n = len(inp['rows'])

        def clone():
            return json.loads(json.dumps(inp))
        for i in range(len(inp.get('prelude') or [])):
            c = clone()
            del c['prelude'][i]
            yield c
        if inp.get('host') and inp['host']['kind'] != 'id':
            c = clone()
            c['host'] = None
            c['sortkey'] = None
            yield c
        if inp.get('table'):
            c = clone()
            c['table'] = None
            yield c
        for name, cfg in sorted((inp.get('src') or {}).items()):
            if cfg.get('hist', 'plain') != 'plain':
                c = clone()
                c['src'][name] = {'dn': cfg.get('dn', True), 'hist': 'plain'}
                yield c
            if not cfg.get('dn', True):
                c = clone()
                c['src'][name]['dn'] = True
                yield c
            if cfg.get('hist', 'plain') == 'plain' and cfg.get('dn', True):
                c = clone()
                del c['src'][name]
                yield c
        for i in range(n):
            if n <= 1:
                break
            c = clone()
            del c['rows'][i]
            for e in c.get('more', []):
                del e[i]
            if c.get('lock') is not None:
                del c['lock'][i]
            c['host'] = None
            c['sortkey'] = None
            yield c
        d = inp['depth']
        if d > 1 and inp['fn'] not in ('normalize_time',):
            for cut in ('last', 'first'):
                c = clone()
                c['depth'] = d - 1
                c['rows'] = [r[:-1] if cut == 'last' else r[1:] for r in c['rows']]
                p = c.get('params', {})
                if p.get('by', 0) > d - 1 or p.get('winlen', 0) > d - 1:
                    continue
                yield c
        for i, r in enumerate(inp['rows']):
            for j, v in enumerate(r):
                if v is not None and v not in (0.0, 1.0) and inp['fn'] not in ARITH:
                    c = clone()
                    c['rows'][i][j] = 1.0
                    yield c

    def key(self, case):
        inp = case['input']
        return 'series %s params=%s rows=%s' % (inp['fn'], json.dumps(inp.get('params'), sort_keys=True),
                                                json.dumps(inp['rows']))


def source_pads_nan(inp):
    """what the depth setter writes into new cells of column s: NaN, or 0 for a column created with defaultnan=False
    (a depth slice of such a column is a new column with the default setting)"""
    cfg = (inp.get('src') or {}).get('s') or {}
    return bool(cfg.get('dn', True)) or cfg.get('hist') == 'slice'


def nan_class(r):
    n = len(r)
    k = sum(1 for v in r if v is None)
    if k == 0:
        return 'none'
    if k == n:
        return 'all'
    lead = r[0] is None
    trail = r[-1] is None
    first = next(i for i, v in enumerate(r) if v is not None)
    last = n - 1 - next(i for i, v in enumerate(reversed(r)) if v is not None)
    inner = any(v is None for v in r[first:last + 1])
    return '+'.join(t for t, b in (('leading', lead), ('trailing', trail), ('interior', inner)) if b)


N_ = None
BOUNDARY = [
    # run touching the end / the start, run of exactly min_length, min_length above the depth
    {'fn': 'threshold', 'depth': 5, 'rows': [[0., 1., 1., 0., 1.], [1., 1., 1., 1., 1.], [1., 1., 0., 1., 1.]],
     'params': {'pred': 'gt', 'c': 0.0, 'min_length': 2}, 'host': {'kind': 'index', 'ps': [2, 0, 1]}},
    {'fn': 'threshold', 'depth': 4, 'rows': [[0., 0., 0., 1.], [1., 0., 1., 1.]],
     'params': {'pred': 'gt', 'c': 0.0, 'min_length': 1}, 'host': {'kind': 'index', 'ps': [1]}},
    {'fn': 'threshold', 'depth': 3, 'rows': [[1., 1., 1.]], 'params': {'pred': 'gt', 'c': 0.0, 'min_length': 4}},
    {'fn': 'threshold', 'depth': 3, 'rows': [[1., 1., 1.]], 'params': {'pred': 'gt', 'c': 0.0, 'min_length': 3}},
    # all-NaN row, one trailing NaN, NaN in the middle and at the end
    {'fn': 'endlock', 'depth': 4, 'rows': [[N_, N_, N_, N_], [1., 2., 3., N_], [1., N_, 3., N_], [N_, 1., 2., 3.]],
     'host': {'kind': 'index', 'ps': [3, 1, 0, 2]}},
    # equal lock values, and a selection that changes max/min
    {'fn': 'lock', 'depth': 3, 'rows': [[1., 2., 3.], [4., 5., 6.], [7., 8., 9.]], 'lock': [2, 2, 2],
     'params': {'as': 'col'}, 'host': {'kind': 'index', 'ps': [1, 0]}},
    {'fn': 'lock', 'depth': 3, 'rows': [[1., 2., 3.], [4., 5., 6.], [7., 8., 9.]], 'lock': [0, 5, 2],
     'params': {'as': 'list'}, 'host': {'kind': 'index', 'ps': [2, 0]}},
    # by not dividing the depth
    {'fn': 'downsample', 'depth': 7, 'rows': [[LCM * 1., LCM * 2., N_, LCM * 4., N_, N_, LCM * 7.]],
     'params': {'by': 3}, 'exact': True},
    {'fn': 'downsample', 'depth': 5, 'rows': [[LCM * 1., LCM * 2., LCM * 3., LCM * 4., LCM * 5.]],
     'params': {'by': 5}, 'exact': True},
    {'fn': 'interpolate', 'depth': 6, 'rows': [[N_, LCM * 1., N_, N_, LCM * 4., N_], [N_, N_, N_, N_, N_, N_]],
     'params': {}, 'exact': True, 'host': {'kind': 'index', 'ps': [1, 0]}},
    # the three Butterworth filters with the same cut-off, order and sampling frequency one after the other
    {'fn': 'highpass', 'depth': 8, 'rows': [[5., 6., 4., 7., 5., 3., 6., 5.], [1., N_, 2., 3., 1., 0., 2., 1.]],
     'params': {'f': 0.2, 'order': 2}, 'host': {'kind': 'index', 'ps': [1, 0]},
     'prelude': [{'fn': 'lowpass', 'params': {'f': 0.2, 'order': 2}, 'on': 'same'}]},
    {'fn': 'lowpass', 'depth': 8, 'rows': [[5., 6., 4., 7., 5., 3., 6., 5.]], 'params': {'f': 10.0, 'order': 3, 'fs': 100.0},
     'prelude': [{'fn': 'highpass', 'depth': 4, 'rows': [[1., 2., 3., 4.]], 'params': {'f': 10.0, 'order': 3, 'fs': 100.0}},
                 {'fn': 'bandpass', 'params': {'f': 10.0, 'f2': 20.0, 'order': 3, 'fs': 100.0}, 'on': 'same'}]},
    {'fn': 'bandpass', 'depth': 8, 'rows': [[5., 6., 4., 7., 5., 3., 6., 5.]], 'params': {'f': 0.2, 'f2': 0.4},
     'prelude': [{'fn': 'lowpass', 'params': {'f': 0.2}, 'on': 'same'}, {'fn': 'highpass', 'params': {'f': 0.4}, 'on': 'same'},
                 {'fn': 'bandpass', 'params': {'f': 0.2, 'f2': 0.4, 'order': 1}, 'on': 'same'}]},
    # the same window length with another window type; the same function on another column first
    {'fn': 'smooth', 'depth': 7, 'rows': [[1., 2., 4., 8., 4., 2., 1.], [0., 0., 1., 0., 0., 3., 0.]],
     'params': {'winlen': 3, 'wintype': 'flat'},
     'prelude': [{'fn': 'smooth', 'params': {'winlen': 3, 'wintype': 'hanning'}, 'on': 'same'},
                 {'fn': 'smooth', 'params': {'winlen': 5, 'wintype': 'flat'}, 'on': 'same'}]},
    {'fn': 'z', 'depth': 4, 'rows': [[1., 3., 1., 3.], [0., N_, 4., 8.]], 'params': {},
     'prelude': [{'fn': 'z', 'depth': 4, 'rows': [[10., 30., 10., 30.], [0., 1., 2., 3.]], 'params': {}},
                 {'fn': 'downsample', 'params': {'by': 2}, 'on': 'same'}, {'fn': 'interpolate', 'params': {}, 'on': 'same'}]},
    # sources created with defaultnan=False (new cells are 0) and / or with a depth history: the cells of the result that
    # hold no data are NaN whatever the source column pads with; the depth setter itself pads with what the column says
    {'fn': 'lock', 'depth': 4, 'rows': [[1., 2., 3., 4.], [5., N_, 7., 8.], [9., 10., 11., N_]], 'lock': [3, 0, 1],
     'params': {'as': 'col'}, 'host': {'kind': 'index', 'ps': [2, 0, 1]}, 'src': {'s': {'dn': False, 'hist': 'plain'}}},
    {'fn': 'lock', 'depth': 3, 'rows': [[1., 2., 3.], [N_, 5., 6.], [7., 8., N_]], 'lock': [0, 2, 1],
     'params': {'as': 'list'}, 'host': {'kind': 'index', 'ps': [1, 2]},
     'src': {'s': {'dn': False, 'hist': 'shrink', 'k': 2}}, 'table': {'kind': 'append', 'n0': 1}},
    {'fn': 'concatenate', 'depth': 3, 'rows': [[1., 2., 3.], [N_, 5., 6.]], 'more': [[[7., N_], [9., 10.]]],
     'host': {'kind': 'index', 'ps': [1, 0]},
     'src': {'s': {'dn': False, 'hist': 'grow', 'd0': 1}, 's2': {'dn': False, 'hist': 'shrink', 'k': 1}}},
    {'fn': 'endlock', 'depth': 4, 'rows': [[1., 2., N_, N_], [N_, 1., 2., 3.], [N_, N_, N_, N_]],
     'host': {'kind': 'index', 'ps': [2, 0, 1]}, 'src': {'s': {'dn': False, 'hist': 'shrink', 'k': 3}}},
    {'fn': 'normalize_time', 'depth': 3, 'rows': [[1., 2., 3.], [4., 5., 6.]], 'more': [[[0., 2., 5.], [1., 3., N_]]],
     'host': {'kind': 'index', 'ps': [1]}, 'src': {'s': {'dn': False, 'hist': 'op'}, 's2': {'dn': False, 'hist': 'grow', 'd0': 2}}},
    {'fn': 'setdepth', 'depth': 3, 'rows': [[1., 2., 3.], [N_, 5., N_]], 'params': {'depth': 5},
     'host': {'kind': 'index', 'ps': [1, 0]}, 'src': {'s': {'dn': False, 'hist': 'plain'}}},
    {'fn': 'setdepth', 'depth': 3, 'rows': [[1., 2., 3.], [N_, 5., N_]], 'params': {'depth': 5},
     'host': {'kind': 'index', 'ps': [1, 0]}, 'src': {'s': {'dn': True, 'hist': 'shrink', 'k': 2}}},
    {'fn': 'setdepth', 'depth': 3, 'rows': [[1., 2., 3.], [N_, 5., N_]], 'params': {'depth': 4},
     'src': {'s': {'dn': False, 'hist': 'shrinkgrow', 'k': 2, 'd0': 1}}, 'table': {'kind': 'select', 'extra': 2, 'seed': 5}},
    {'fn': 'setdepth', 'depth': 2, 'rows': [[1., 2.], [N_, 5.], [3., N_]], 'params': {'depth': 3},
     'src': {'s': {'dn': True, 'hist': 'shrink', 'k': 1}}, 'table': {'kind': 'sort', 'seed': 3, 'cols': 'after'}},
    {'fn': 'threshold', 'depth': 4, 'rows': [[0., 1., 1., 0.], [1., 1., 1., 1.]],
     'params': {'pred': 'gt', 'c': 0.0, 'min_length': 2}, 'src': {'s': {'dn': False, 'hist': 'shrink', 'k': 1}},
     'table': {'kind': 'lshift', 'n0': 1}},
    # operations that are allowed to scribble on their argument: the input series reads as before
    {'fn': 'reduce', 'depth': 7, 'rows': [[5., 1., 4., 2., 3., 9., 0.], [9., 7., 8., 6., 5., 1., 2.],
                                          [3., N_, 1., N_, 2., 0., 7.], [2., 2., 1., 1., 0., 0., 5.]],
     'params': {'op': 'nanmedian_ow'}, 'exact': True, 'host': {'kind': 'index', 'ps': [2, 0, 3, 1]}},
    {'fn': 'reduce', 'depth': 5, 'rows': [[5., 1., 4., 2., 3.], [3., N_, 1., 7., 2.]],
     'params': {'op': 'median_ow'}, 'host': {'kind': 'index', 'ps': [1, 0]}},
    {'fn': 'reduce', 'depth': 4, 'rows': [[LCM * 4., LCM * 1., N_, LCM * 2.], [LCM * 3., LCM * 2., LCM * 1., 0.]],
     'params': {'op': 'sort_mean'}, 'exact': True, 'src': {'s': {'dn': False, 'hist': 'shrink', 'k': 2}}},
    {'fn': 'reduce', 'depth': 3, 'rows': [[3., 1., 2.]], 'params': {'op': 'nan_mean'}},
    {'fn': 'baseline', 'depth': 3, 'rows': [[8., 4., 2.], [1., N_, 16.]], 'more': [[[4., 1., 2., 8.], [2., 8., N_, 1.]]],
     'params': {'rop': 'nanmedian_ow', 'red': 'median', 'method': 'subtractive', 'bl_start': 0, 'bl_end': 3},
     'exact': True, 'host': {'kind': 'index', 'ps': [1, 0]}},
    {'fn': 'baseline', 'depth': 3, 'rows': [[8., 4., 2.], [1., N_, 16.]], 'more': [[[4., 1., 2., 8.], [2., 8., N_, 1.]]],
     'params': {'rop': 'sort_mean_noaxis', 'red': 'mean', 'method': 'divisive', 'bl_start': 0, 'bl_end': 2},
     'host': {'kind': 'index', 'ps': [1, 0]}},
    {'fn': 'endlock', 'depth': 4, 'rows': [[3., 1., 2., N_], [N_, 9., 2., 5.]], 'host': {'kind': 'index', 'ps': [1, 0]},
     'prelude': [{'fn': 'reduce', 'params': {'op': 'sort_median'}, 'on': 'same'}]},
    # plain NumPy reducers on a table with as many rows as the series is deep; on a 6 x 4 table of which 4 rows are selected
    {'fn': 'reduce', 'depth': 3, 'rows': [[LCM * 1., LCM * 2., LCM * 6.], [LCM * 4., LCM * 4., LCM * 1.],
                                          [LCM * 9., LCM * 2., LCM * 1.]],
     'params': {'op': 'np_mean'}, 'exact': True, 'host': {'kind': 'index', 'ps': [2, 0, 1]}},
    {'fn': 'reduce', 'depth': 4, 'rows': [[LCM * (10. * i + j * j) for j in range(4)] for i in range(6)],
     'params': {'op': 'np_mean'}, 'exact': True, 'host': {'kind': 'select', 'ps': [0, 2, 3, 5]}},
    {'fn': 'reduce', 'depth': 4, 'rows': [[LCM * (10. * i + j * j) for j in range(4)] for i in range(6)],
     'params': {'op': 'np_max'}, 'exact': True, 'host': {'kind': 'index', 'ps': [5, 0, 2, 3]}},
    {'fn': 'reduce', 'depth': 2, 'rows': [[1.5, 2.25], [4., N_]], 'params': {'op': 'np_std'}},
    {'fn': 'baseline', 'depth': 3, 'rows': [[8., 4., 2.], [1., N_, 16.], [3., 5., 7.], [2., 2., 1.]],
     'more': [[[4., 1., 2., 8.], [2., 8., 4., 1.], [1., 1., 2., 2.], [8., 4., 2., 1.]]],
     'params': {'red': 'np_mean', 'method': 'subtractive', 'bl_start': 0, 'bl_end': 2}, 'exact': True,
     'host': {'kind': 'select', 'ps': [1, 3]}},
    # rows riding on a large offset: mean 0 and standard deviation 1 all the same
    {'fn': 'z', 'depth': 6, 'offset': True, 'params': {},
     'rows': [[0.3, -1.7, 4.1, 2.2, -3.9, 0.6], [1000.3, 998.3, 1004.1, 1002.2, 996.1, 1000.6],
              [1e8 + 0.3, 1e8 - 1.7, 1e8 + 4.1, N_, 1e8 - 3.9, 1e8 + 0.6], [3e8 + 0.3, 3e8 - 1.7, 3e8 + 4.1, 3e8 + 2.2, N_, N_],
              [-1.7e12 + 0.25, -1.7e12 + 1.5, -1.7e12 + 7.75, -1.7e12 + 3., -1.7e12, -1.7e12 + 4.5]],
     'host': {'kind': 'index', 'ps': [4, 2, 0, 3, 1]}},
]
for _b in BOUNDARY:
    _b.setdefault('params', {})

PROP = C18()
