"""C12 -- descriptive statistics follow their textbook definitions (Props/C12.v)."""
import math
import warnings
from fractions import Fraction

import numpy as np

import coqlit as L
import pyobs

KINDS = ['KMixed', 'KFloat', 'KInt']
STATS = ['Mean', 'Median', 'Var', 'Min', 'Max', 'Sum']
ATTR = {'Mean': 'mean', 'Median': 'median', 'Var': 'std', 'Min': 'min', 'Max': 'max', 'Sum': 'sum'}
TOL = Fraction(1, 10 ** 9)


def coltype(kind):
    from datamatrix import MixedColumn, FloatColumn, IntColumn
    return {'KMixed': MixedColumn, 'KFloat': FloatColumn, 'KInt': IntColumn}[kind]


# ---------------------------------------------------------------- reference evaluation (exact, Fractions)
def is_num(x):
    return type(x) in (int, float) and not (type(x) is float and (math.isnan(x) or math.isinf(x)))


def nums_l0(cells):
    """the numeric, finite, non-NaN cells, exactly"""
    return [Fraction(x) for x in cells if is_num(x)]


def nums_l1(kind, cells):
    """what the implementation's arithmetic sees: a MixedColumn passes every number through float()"""
    if kind == 'KMixed':
        return [Fraction(float(x)) for x in cells if is_num(x)]
    return nums_l0(cells)


def textbook(stat, l):
    """None = NaN"""
    n = len(l)
    if stat == 'Sum':
        return sum(l, Fraction(0))
    if stat == 'Var':
        if n < 2:
            return None
        m = sum(l, Fraction(0)) / n
        return sum(((x - m) ** 2 for x in l), Fraction(0)) / (n - 1)
    if n == 0:
        return None
    if stat == 'Mean':
        return sum(l, Fraction(0)) / n
    if stat == 'Min':
        return min(l)
    if stat == 'Max':
        return max(l)
    s = sorted(l)
    if n % 2 == 1:
        return s[n // 2]
    return (s[n // 2 - 1] + s[n // 2]) / 2


def representable(q):
    try:
        return Fraction(float(q)) == q
    except OverflowError:
        return False


def subset_sums_exact(l):
    """every partial sum of l, in any order, is a binary64 value"""
    if not l:
        return True
    d = max(x.denominator for x in l)
    if d & (d - 1):
        return False
    return sum(abs(x) for x in l) * d < 2 ** 53


def isqrt_frac(q):
    if q < 0:
        return None
    a, b = math.isqrt(q.numerator), math.isqrt(q.denominator)
    if a * a == q.numerator and b * b == q.denominator:
        return Fraction(a, b)
    return None


def exact_flag(stat, l):
    """True only if every floating-point operation of the computation is exact on l (conservative)."""
    if not all(representable(x) for x in l):
        return False
    if any(x != 0 and not (Fraction(1, 2 ** 900) <= abs(x) <= 2 ** 900) for x in l):
        return False
    n = len(l)
    ref = textbook(stat, l)
    if ref is None:
        return True
    if stat in ('Min', 'Max'):
        return True
    if stat == 'Sum':
        return subset_sums_exact(l)
    if stat == 'Mean':
        return subset_sums_exact(l) and representable(ref)
    if stat == 'Median':
        if n % 2 == 1:
            return True
        s = sorted(l)
        return representable(s[n // 2 - 1] + s[n // 2]) and representable(ref)
    # Var: two-pass algorithm, all intermediate values exact, exact rational root
    if not subset_sums_exact(l):
        return False
    m = sum(l, Fraction(0)) / n
    if not representable(m):
        return False
    ds = [x - m for x in l]
    sq = [d * d for d in ds]
    if not all(representable(d) for d in ds) or not all(representable(d) for d in sq) or not subset_sums_exact(sq):
        return False
    r = isqrt_frac(ref)
    return representable(ref) and r is not None and representable(r)


def within(stat, impl, ref, l):
    """|impl - textbook| <= 1e-9 * max(|textbook|, max|x|), exact rational arithmetic.
    Var (impl is the std): |impl - sqrt(ref)| <= 1e-9 * sqrt(ref) + 1e-12 * max|x|.  The second term covers what a
    backward-stable evaluation cannot avoid (perturbing the inputs by one ulp moves the std by ~1e-16 * max|x|; the
    two-pass formula stays within ~n * 1e-16 * max|x|), with a margin of > 100 for n <= 40."""
    x = Fraction(impl)
    big = max([abs(v) for v in l] + [0])
    if stat == 'Var':
        tol = TOL * Fraction(math.sqrt(float(ref))) * (1 + TOL) + Fraction(1, 10 ** 12) * big
        lo = x - tol
        return x >= 0 and (lo <= 0 or lo * lo <= ref) and ref <= (x + tol) ** 2
    tol = TOL * max(abs(ref), big)
    return abs(x - ref) <= tol


# ---------------------------------------------------------------- literals
def claim(q):
    if q is None:
        return 'CNan'
    return '(CVal (qc %s %d))' % (L.z(q.numerator), q.denominator)


def cells_lit(cells):
    out = []
    for c in cells:
        v = pyobs.val(c)
        if v is None:
            raise ValueError('cell of unexpected type %r' % (c,))
        out.append(v)
    return L.lst(out)


def plain(x):
    if isinstance(x, np.floating):
        return float(x)
    if isinstance(x, np.integer):
        return int(x)
    return x


def enc_list(cells):
    return [pyobs.enc(c) for c in cells]


def dec_list(cells):
    return [pyobs.dec(c) for c in cells]


class C12:
    id = 'C12'
    props_file = 'theories/Props/C12.v'
    kernel_files = ['KStats.v', 'KCheck.v']
    oracle_vos = ['theories/Run/SC12.vo']
    model_vos = ['theories/Run/RC12.vo']
    oracle_imports = ['From Coq Require Import QArith Qcanon.', 'From DM Require Import Run.SC12.']
    model_imports = ['From Coq Require Import QArith Qcanon.', 'From DM Require Import Run.RC12.']
    exhaustive = False
    rule = ('multisets of finite numbers (small repeated ints, ints to +-1e6, ints around 2^53 and up to 2^58, dyadic '
            'and decimal floats, floats of magnitude 1e-100..1e100) of length 0..12 (thorough: 0..40), each stored in '
            'a MixedColumn interleaved with strings, None and NaN, in a FloatColumn (strings/None become NaN) and, '
            'when all numbers are ints, in an IntColumn, each in up to 4 row orders (as generated, reversed, sorted, '
            'shuffled); all lists of length <= 2 (thorough: <= 3) over a 7-value alphabet; arithmetic progressions '
            'and constant lists whose standard deviation is an exactly representable rational; a stream with '
            'infinities (outside the quantifier: only unique/count are judged); columns whose statistics are read, which are '
            'then modified through int / slice / index-list / selection / row / whole-column assignment (1-3 edits, '
            'statistics read before each) and read again (must describe the current cells). All seven statistics + unique + count '
            'are read for every case. non-trivial = at least two numbers or at least one ignored cell; distinct by '
            '(kind, stored cells)')
    trusted_base = [
        'Coq 8.16.1 kernel (coqc; vm_compute for evaluating cases; no native_compute); stdlib QArith/Qcanon',
        'translator /verif/translate (py2coq.py, pystmt.py, gen_stats.py, gen_checktype.py): BaseColumn._numbers, '
        '_nanorinf, mean/median/std/max/min/sum guards, index, weights and denominators, NumericColumn guards and ddof '
        '-> Gen/KStats.v, Gen/KCheck.v; the remaining statement skeletons are pinned verbatim',
        'hand-written models of Python sum/sorted/max/min/list indexing on rationals (Base/QcPy.v) and of float() '
        '(Base/PyVal.v round53); NumPy nanmean/nanmedian/nanstd/nanmax/nanmin/nansum/unique modelled as '
        '"drop NaN, then the textbook function" (NumPy trusted), math.sqrt as the non-negative root',
        'harness/c12.py: generator, Fraction reference evaluation (checked equal to the Coq rationals case by case), '
        'tolerance comparison, exactness classification; harness/pyobs.py, coqlit.py literal printers',
    ]
    assumptions = [
        'IEEE rounding is not modelled: the model computes with exact rationals. The float returned by the '
        'implementation is compared EXACTLY inside Coq with the model rational on inputs where every floating-point '
        'operation is exact (classified conservatively by the harness from the input only); on all other inputs the '
        'comparison is |impl - ref| <= 1e-9 * max(|ref|, max|x_i|) (std: |impl - sqrt(var)| <= 1e-9 * sqrt(var) + '
        '1e-12 * max|x_i|, i.e. relative on the result plus the error a backward-stable evaluation cannot avoid), evaluated in '
        'exact Fraction arithmetic on the Python side, where ref is a Fraction evaluation of the textbook formula '
        'that Coq checks to be EQUAL to the L0 (resp. L1) rational on every case, so the Coq value is what is compared',
        'cells are finite numbers, strings, None, NaN; a column holding an infinity is outside the quantifier '
        '(BaseColumn._nanorinf drops +inf but not -inf; NumPy keeps both): only unique/count are judged there',
        'sum of a column without numbers is left open by the property text (MixedColumn: NaN, non-empty numeric '
        'column: 0.0, empty numeric column: NaN): the oracle accepts NaN or 0, the L1 model pins each',
        'ints in an IntColumn stay far from int64 overflow; magnitudes within 1e-100..1e100 so that no float '
        'operation overflows or underflows',
        'a MixedColumn sees ints through float(): the refinement and kind-agreement theorems carry the premise '
        '|z| < 2^53 for int cells; NaN entries of MixedColumn.unique are not modelled (set() compares NaN objects '
        'by identity), as the property speaks about non-NaN values',
    ]

    # ---- implementation runner ------------------------------------------
    def _observe(self, kind, vals, edits=()):
        from datamatrix import DataMatrix
        with warnings.catch_warnings():
            warnings.simplefilter('ignore')
            dm = DataMatrix(length=len(vals))
            dm.k = list(range(len(vals)))
            dm.c = coltype(kind)
            if vals:
                dm.c = list(vals)
            col = dm.c
            for path, where, v in edits:
                # the statistics are read before every modification: they must describe the CURRENT cells afterwards
                for s in STATS:
                    float(getattr(col, ATTR[s]))
                col.unique, col.count
                if path == 'int':
                    col[where] = v
                elif path == 'slice':
                    col[where[0]:where[1]] = v
                elif path == 'list':
                    col[list(where)] = v
                elif path == 'sel':
                    col[dm.k >= where] = v
                elif path == 'row':
                    dm[where].c = v
                elif path == 'whole':
                    dm.c = [v] * len(vals)
                    col = dm.c
                else:
                    raise AssertionError(path)
            cells = [plain(x) for x in col]
            obs = {}
            for s in STATS:
                obs[s] = float(getattr(col, ATTR[s]))
            u = [plain(x) for x in col.unique]
            cnt = int(col.count)
        return cells, obs, u, cnt

    def rerun(self, inp):
        kind = inp['kind']
        vals = dec_list(inp['vals'])
        edits = [(e[0], e[1], pyobs.dec(e[2])) for e in inp.get('edits', [])]
        try:
            cells, obs, u, cnt = self._observe(kind, vals, edits)
        except Exception as e:      # noqa: BLE001  -- the generator only builds admissible columns
            if inp.get('may_reject'):
                return None
            return {'input': {k: v for k, v in inp.items() if k != 'may_reject'}, 'observed': {'exception': repr(e)},
                    'pyfail': 'reading the statistics of an admissible column raised %r' % (e,),
                    'oracle': 'true', 'model': 'true', 'nontrivial': True,
                    'sig': 'exc|%s|%r' % (kind, inp['vals']), 'tags': list(inp.get('tags', [])) + [kind, 'raised']}
        scope = not any(type(c) is float and math.isinf(c) for c in cells)
        l0 = nums_l0(cells)
        l1 = nums_l1(kind, cells)
        pyfail = []
        o_items, m_items, verdict = [], [], []
        n_exact = 0
        for s in STATS:
            x = obs[s]
            r0 = textbook(s, l0)
            r1 = textbook(s, l1)
            e0 = exact_flag(s, l0)
            e1 = exact_flag(s, l1)
            if s == 'Sum' and not l1:
                r1 = None if (kind == 'KMixed' or not cells) else Fraction(0)
            n_exact += bool(e0 and r0 is not None)
            o_items.append('(%s, %s, %s, %s)' % (s, claim(r0), L.fl(x), L.boolean(e0)))
            m_items.append('(%s, %s, %s, %s)' % (s, claim(r1), L.fl(x), L.boolean(e1)))
            if not scope:
                continue
            if r0 is None or (s == 'Sum' and not l0):
                if not (math.isnan(x) or (s == 'Sum' and x == 0)):
                    verdict.append(s)
                continue
            if math.isnan(x) or math.isinf(x):
                verdict.append(s)
                continue
            if e0:
                ok = (Fraction(x) == r0) if s != 'Var' else (x >= 0 and Fraction(x) ** 2 == r0)
                if not ok:
                    verdict.append(s)
            elif not within(s, x, r0, l0):
                verdict.append(s)
                pyfail.append('%s: implementation returned %r, textbook value %s (= %.17g%s) differs by more than '
                              '1e-9 relative' % (ATTR[s], x, r0, math.sqrt(r0) if s == 'Var' else float(r0),
                                                 ', root of the variance' if s == 'Var' else ''))
        if inp.get('cross') and scope:
            # the same numbers in the other column types: the implementations must agree with each other as well
            numsonly = [c for c in cells if is_num(c)]
            others = [k for k in KINDS if k != kind and (k != 'KInt' or all(type(c) is int for c in numsonly))]
            for k2 in others:
                try:
                    cells2, obs2, _u2, _c2 = self._observe(k2, numsonly if k2 == 'KInt' else [plain(c) for c in cells])
                except Exception as e:      # noqa: BLE001
                    pyfail.append('%s holding the same cells raised %r' % (k2, e))
                    continue
                l2 = nums_l0(cells2)
                for s in STATS:
                    a, b = obs[s], obs2[s]
                    r0 = textbook(s, l0)
                    if r0 is None or not l0 or math.isnan(a) or math.isnan(b) or math.isinf(a) or math.isinf(b):
                        continue
                    if not (within(s, a, r0, l0) and within(s, b, r0, l2)):
                        if s not in verdict:
                            verdict.append(s)
                        pyfail.append('%s: %s gives %r, %s gives %r on the same numbers (textbook %.17g)' % (
                            ATTR[s], kind, a, k2, b, math.sqrt(r0) if s == 'Var' else float(r0)))
        cl = cells_lit(cells)
        ul = cells_lit(u)
        n_junk = len(cells) - len(l0)
        tags = list(inp.get('tags', [])) + [kind, 'len%02d' % min(len(cells), 40) if len(cells) < 13 else 'len13+',
                                            'numbers%d' % min(len(l0), 3) if len(l0) < 3 else 'numbers3+']
        if n_junk:
            tags.append('with-ignored-cells')
        if not scope:
            tags.append('out-of-quantifier')
        if n_exact:
            tags.append('some-exact')
        return {
            'input': dict({'kind': kind, 'vals': inp['vals'], 'tags': inp.get('tags', [])},
                          **dict(({'edits': inp['edits']} if inp.get('edits') else {}),
                                 **({'cross': True} if inp.get('cross') else {}))),
            'observed': {'cells': enc_list(cells), 'stats': {ATTR[s]: obs[s].hex() for s in STATS},
                         'unique': enc_list(u), 'count': cnt, 'py_verdict': verdict},
            'pyfail': '; '.join(pyfail) if pyfail else None,
            'oracle': 'oracle %s %s %s %s' % (cl, L.lst(o_items), ul, L.z(cnt)),
            'model': 'model_agrees %s %s %s %s %s' % (kind, cl, L.lst(m_items), ul, L.z(cnt)),
            'aux': 'in_scope %s' % cl,
            'nontrivial': len(l0) >= 2 or n_junk > 0,
            'sig': '%s|%r|%r' % (kind, cells, [(e[0], e[1]) for e in inp.get('edits', [])]),
            'tags': tags,
        }

    # ---- generators -------------------------------------------------------
    wide = False

    STRS = ['a', 'abc', '', 'x y', 'é', 'nan?', 'None', '1a']

    def number(self, rng, cls):
        if cls == 'small':
            return rng.randint(-6, 6)
        if cls == 'medium':
            return rng.randint(-10 ** 6, 10 ** 6)
        if cls == 'big':
            return rng.choice([1, -1]) * (2 ** rng.choice([53, 53, 54, 57]) + rng.randint(-3, 3))
        if cls == 'dyadic':
            return rng.randint(-400, 400) / rng.choice([2, 4, 8, 16])
        if cls == 'decimal':
            return rng.randint(-999, 999) / 10.0 + rng.choice([0.0, 0.01, 0.003])
        if cls == 'huge':
            return rng.choice([1, -1]) * rng.uniform(1, 10) * 10.0 ** rng.choice([15, 15, 22, 22, 22, 30] + ([60, 100] if self.wide else []))
        if cls == 'tiny':
            return rng.choice([1, -1]) * rng.uniform(1, 10) * 10.0 ** rng.choice([-8, -5, -5, -3, -12] + ([-30, -100] if self.wide else []))
        raise AssertionError(cls)

    def numbers(self, rng, maxlen):
        n = rng.choice([0, 1, 2, 2, 3, 3, 4, 4, 5, 5, 6, 6, 7, 8] + list(range(9, maxlen + 1)))
        mix = rng.choice([['small'], ['small'], ['small', 'dyadic'], ['medium'], ['small', 'medium', 'dyadic'],
                          ['decimal'], ['decimal', 'small'], ['big'], ['big', 'small'], ['dyadic'], ['small'],
                          ['medium', 'dyadic'], ['small', 'dyadic'], ['medium'], ['big', 'medium'], ['decimal', 'medium'],
                          ['huge'], ['tiny'], ['huge', 'decimal'], ['tiny', 'small']])
        if mix[0] in ('huge', 'tiny'):          # 700-bit rationals are expensive to normalise inside Coq: keep them few and short
            n = min(n, 5)
        out = [self.number(rng, rng.choice(mix)) for _ in range(n)]
        if out and rng.random() < 0.4:          # repeats
            for _ in range(rng.randint(1, 3)):
                if len(out) < maxlen:
                    out.insert(rng.randrange(len(out) + 1), rng.choice(out))
        return out

    def junk(self, rng, kind):
        r = rng.random()
        if r < 0.4:
            return float('nan')
        if r < 0.7:
            return None
        return rng.choice(self.STRS)

    def orders(self, rng, vals, k):
        outs = [list(vals)]
        cands = [list(reversed(vals)), sorted(vals, key=lambda v: (0, v) if is_num(v) else (1, 0)),
                 rng.sample(vals, len(vals))]
        for c in cands[:k - 1]:
            outs.append(c)
        return outs

    def case(self, kind, vals, tags, may_reject=False):
        inp = {'kind': kind, 'vals': enc_list(vals), 'tags': tags}
        if may_reject:
            inp['may_reject'] = True
        return self.rerun(inp)

    def generate(self, rng, tier):
        quick = tier == 'quick'
        self.wide = not quick        # magnitudes 1e60 / 1e-100: 700-bit rationals, expensive to normalise inside Coq
        cases = []
        seen = set()

        def add(kind, vals, tags):
            c = self.case(kind, vals, tags)
            if c is not None and c['sig'] not in seen:
                seen.add(c['sig'])
                cases.append(c)

        # 1. small alphabet, all short lists
        alpha = [0, 1, -2, 2.5, float('nan'), 'a', None]
        import itertools
        for n in range(0, 3 if quick else 4):
            for tup in itertools.product(alpha, repeat=n):
                add('KMixed', list(tup), ['alphabet'])
                if n <= 2 or rng.random() < 0.3:
                    add('KFloat', list(tup), ['alphabet'])
                if all(type(v) is int for v in tup):
                    add('KInt', list(tup), ['alphabet'])
        # 2. random multisets x kinds x row orders
        reps = 110 if quick else 1500
        maxlen = 12 if quick else 40
        for _ in range(reps):
            base = self.numbers(rng, maxlen)
            njunk = rng.choice([0, 0, 1, 2, 3, 5])
            mixed = list(base)
            for _j in range(njunk):
                mixed.insert(rng.randrange(len(mixed) + 1), self.junk(rng, 'KMixed'))
            norders = 4 if rng.random() < 0.5 else 2
            for vals in self.orders(rng, mixed, norders):
                add('KMixed', vals, ['random'])
                add('KFloat', vals, ['random'])
            if all(type(v) is int for v in base):
                for vals in self.orders(rng, base, norders):
                    add('KInt', vals, ['random'])
            else:
                for vals in self.orders(rng, base, 2):
                    add('KFloat', vals, ['random', 'numbers-only'])
        # 3. exactly representable standard deviations
        for _ in range(40 if quick else 400):
            a = rng.randint(-50, 50) / rng.choice([1, 1, 2, 4])
            d = rng.randint(0, 12) / rng.choice([1, 1, 2])
            shape = rng.choice(['ap3', 'const', 'quad'])
            if shape == 'ap3':
                vals = [a, a + d, a + 2 * d]
            elif shape == 'const':
                vals = [a] * rng.randint(2, 7)
            elif rng.random() < 0.5:
                vals = [a, a, a, a + 4 * d]                       # var = 4 d^2
            else:
                vals = [a - 3 * d, a + 3 * d] * 3 + [a] * 4       # n = 10, var = 54 d^2 / 9 ... not a square: tolerance path
            vals = [int(v) if float(v).is_integer() else float(v) for v in vals]
            rng.shuffle(vals)
            for j in range(rng.choice([0, 0, 1, 2])):
                vals.insert(rng.randrange(len(vals) + 1), self.junk(rng, 'KMixed'))
            add('KMixed', vals, ['exact-std'])
            add('KFloat', vals, ['exact-std'])
            if all(type(v) is int for v in vals):
                add('KInt', vals, ['exact-std'])
        # 6. large offset, small spread (ill-conditioned for one-pass variance formulas), all column types + agreement
        for _ in range(45 if quick else 500):
            off = rng.choice([10 ** 6, 10 ** 6, 10 ** 7, 10 ** 8, 10 ** 9, 10 ** 10, 10 ** 12]) * rng.choice([1, 1, 3, -1]) \
                + rng.randint(0, 999)
            spread = rng.choice([1, 2, 4, 10, 30, 100])
            n = rng.randint(3, 8)
            if rng.random() < 0.5:
                vals = [off + rng.randint(0, spread) for _i in range(n)]
            else:
                vals = [float(off) + rng.randint(0, spread * 8) / 8.0 + rng.choice([0.0, 0.0, 0.3]) for _i in range(n)]
                vals = [int(v) if v.is_integer() else v for v in vals]
            if rng.random() < 0.5:
                vals[rng.randrange(n)] = vals[rng.randrange(n)]        # a repeat
            if max(vals) == min(vals):
                vals[0] = vals[0] + 1
            allint = all(type(v) is int for v in vals)
            for kind in KINDS:
                if kind == 'KInt' and not allint:
                    continue
                v2 = list(vals)
                if kind != 'KInt' and rng.random() < 0.3:
                    v2.insert(rng.randrange(n + 1), self.junk(rng, kind))
                c = self.rerun({'kind': kind, 'vals': enc_list(v2), 'tags': ['offset-spread'], 'cross': kind == 'KMixed'})
                if c is not None and c['sig'] not in seen:
                    seen.add(c['sig'])
                    cases.append(c)
        # 5. statistics read, column modified through each write path, statistics read again
        for _ in range(120 if quick else 1200):
            base = self.numbers(rng, 8)
            if len(base) < 2:
                continue
            kind = rng.choice(KINDS)
            if kind == 'KInt':
                base = [int(v) if abs(v) < 2 ** 58 else 7 for v in base]
            elif rng.random() < 0.5:
                base.insert(rng.randrange(len(base) + 1), self.junk(rng, kind))
            n = len(base)
            edits = []
            for _e in range(rng.choice([1, 1, 2, 3])):
                path = rng.choice(['int', 'slice', 'list', 'list', 'sel', 'sel', 'row', 'whole'])
                v = rng.choice([0, 1000, -3, rng.randint(-50, 50)] + ([] if kind == 'KInt' else [2.5, float('nan'), None, 'zz']))
                if path in ('int', 'row'):
                    where = rng.randrange(n)
                elif path == 'slice':
                    a = rng.randrange(n)
                    where = [a, rng.randint(a + 1, n)]
                elif path == 'list':
                    where = sorted(rng.sample(range(n), rng.randint(1, min(3, n))))
                elif path == 'sel':
                    where = rng.randrange(n)
                else:
                    where = 0
                edits.append([path, where, pyobs.enc(v)])
            c = self.rerun({'kind': kind, 'vals': enc_list(base), 'edits': edits, 'tags': ['edited']})
            if c is not None and c['sig'] not in seen:
                seen.add(c['sig'])
                cases.append(c)
        # 4. outside the quantifier: infinities
        for _ in range(30 if quick else 300):
            base = self.numbers(rng, 6)
            for _j in range(rng.randint(1, 2)):
                base.insert(rng.randrange(len(base) + 1), rng.choice([float('inf'), float('-inf')]))
            if rng.random() < 0.5:
                base.insert(rng.randrange(len(base) + 1), self.junk(rng, 'KMixed'))
            add(rng.choice(['KMixed', 'KFloat']), base, ['infinities'])
        return cases

    def search(self, rng, tier, broken):
        """a proof / translation / model broke: boundary inputs around the kernels' constants (lengths 0..5,
        even/odd, neighbours of the median index), then the thorough generator"""
        out = []
        seen = set()
        import itertools
        for n in range(0, 6):
            for _ in range(60):
                vals = [rng.choice([0, 1, 2, 3, 5, 8, -7, 2.5, 10]) for _i in range(n)]
                for kind in KINDS:
                    if kind == 'KInt' and not all(type(v) is int for v in vals):
                        continue
                    extra = [] if kind == 'KInt' else rng.choice([[], [float('nan')], [None, 'a']])
                    v2 = vals + extra
                    rng.shuffle(v2)
                    c = self.case(kind, v2, ['search'])
                    if c is not None and c['sig'] not in seen:
                        seen.add(c['sig'])
                        out.append(c)
        out.extend(self.generate(rng, 'thorough' if tier == 'thorough' else 'quick'))
        return out

    def shrink_candidates(self, inp):
        vals = inp['vals']
        base = {'kind': inp['kind'], 'tags': inp.get('tags', []), 'may_reject': True}
        if inp.get('cross'):
            base['cross'] = True
        if inp.get('edits'):
            ed = inp['edits']
            for i in range(len(ed)):
                yield dict(base, vals=vals, edits=ed[:i] + ed[i + 1:])
            for i, e in enumerate(ed):
                if pyobs.dec(e[2]) != 1000:
                    yield dict(base, vals=vals, edits=ed[:i] + [[e[0], e[1], pyobs.enc(1000)]] + ed[i + 1:])
            for i, v in enumerate(vals):
                if pyobs.dec(v) != 1:
                    yield dict(base, vals=vals[:i] + [pyobs.enc(1)] + vals[i + 1:], edits=ed)
            return
        for i in range(len(vals)):
            yield dict(base, vals=vals[:i] + vals[i + 1:])
        for i, v in enumerate(vals):
            d = pyobs.dec(v)
            if is_num(d) and d not in (0, 1, 2, 3):
                for small in (0, 1, 2, 3, int(d) if abs(d) < 1e6 else 5):
                    if small != d:
                        yield dict(base, vals=vals[:i] + [pyobs.enc(small)] + vals[i + 1:])
        if inp['kind'] != 'KMixed':
            yield dict(base, kind='KMixed', vals=vals)

    def key(self, case):
        o = case.get('observed') or {}
        cells = [d.get('v', d['t']) for d in o.get('cells', [])]
        ed = case['input'].get('edits')
        return 'stats kind=%s cells=%s%s failing=%s' % (
            case['input']['kind'], ','.join(map(str, cells)),
            (' after-edits=' + ';'.join(e[0] for e in ed)) if ed else '',
            ','.join(o.get('py_verdict', [])) or 'unique/count/coq-side')


PROP = C12()
