"""C12 -- descriptive statistics follow their textbook definitions (Props/C12.v)."""
import math
import random as _random
import warnings
from decimal import Decimal
from fractions import Fraction

import numpy as np

import coqlit as L
import pyobs

KINDS = ['KMixed', 'KFloat', 'KInt']
STATS = ['Mean', 'Median', 'Var', 'Min', 'Max', 'Sum']
ATTR = {'Mean': 'mean', 'Median': 'median', 'Var': 'std', 'Min': 'min', 'Max': 'max', 'Sum': 'sum'}
TOL = Fraction(1, 10 ** 9)


def coltype(kind):
    from datamatrix import MixedColumn, FloatColumn, IntColumn
    return {'KMixed': MixedColumn, 'KFloat': FloatColumn, 'KInt': IntColumn}[kind]


def kind_of(col):
    from datamatrix import MixedColumn, FloatColumn, IntColumn
    for k, t in (('KMixed', MixedColumn), ('KFloat', FloatColumn), ('KInt', IntColumn)):
        if type(col) is t:
            return k
    raise Unclassified('column of type %s' % type(col).__name__)


class Unclassified(Exception):
    """a cell / column outside the classified universe: the case is dropped (never judged)"""


class ReadFailed(Exception):
    """reading a statistic raised"""


# ---------------------------------------------------------------- cells: classification (Spec/Stats.v xcell)
# A column's own type check stores int / float / str / None.  A MixedColumn can also hold what was stored without the
# check (the result columns of `col @ f` / map_ and of column arithmetic, their slices and selections, a derived column
# inserted by reference where _set_col does that, what << copies from such a column).
# L0 classification ("the column's numeric non-NaN cells"): a cell is numeric iff it is a real number of Python's numeric tower: int and its subclass bool (True = 1, False = 0), float, NumPy integer / floating
# scalars, Fraction, finite Decimal -- with its exact value.
def cell_q(x):
    """the exact rational value of a numeric, finite, non-NaN cell; None for every other cell"""
    if type(x) is bool:
        return Fraction(int(x))
    if type(x) is int:
        return Fraction(x)
    if isinstance(x, np.integer):
        return Fraction(int(x))
    if type(x) is float or isinstance(x, np.floating):
        f = float(x)
        return None if (math.isnan(f) or math.isinf(f)) else Fraction(f)
    if type(x) is Fraction:
        return x
    if type(x) is Decimal:
        return Fraction(x) if x.is_finite() else None
    return None


def cell_inf(x):
    return (type(x) is float or isinstance(x, np.floating)) and math.isinf(float(x))


def is_num(x):
    return cell_q(x) is not None


def xcell(x):
    """Coq literal of type xcell"""
    if x is None or type(x) in (int, float, str):
        return '(XV %s)' % pyobs.val(x)
    if type(x) is bool:
        return '(XBool %s)' % L.boolean(x)
    if isinstance(x, np.integer):
        return '(XNpInt %s)' % L.z(int(x))
    if isinstance(x, np.floating) and type(x) in (np.float64, np.float32, np.float16):
        return '(XNpFlt %s %s)' % (L.boolean(isinstance(x, float)), L.fl(float(x)))
    if type(x) is Fraction or (type(x) is Decimal and x.is_finite()):
        q = Fraction(x)
        return '(XRat (qc %s %d))' % (L.z(q.numerator), q.denominator)
    raise Unclassified('cell %r of type %s' % (x, type(x).__name__))


def cells_lit(cells):
    return L.lst([xcell(c) for c in cells])


def enc_cell(x):
    if x is None or type(x) in (bool, int, float, str) or isinstance(x, (np.integer, np.floating)):
        return pyobs.enc(x)
    if type(x) is Fraction:
        return {'t': 'Fraction', 'v': '%d/%d' % (x.numerator, x.denominator)}
    if type(x) is Decimal:
        return {'t': 'Decimal', 'v': str(x)}
    return {'t': type(x).__name__, 'v': repr(x)}


def enc_x(v):
    """JSON-able encoding of an operand / written value (pyobs.enc plus Fraction / Decimal)"""
    if type(v) is Fraction:
        return {'t': 'Fraction', 'v': '%d/%d' % (v.numerator, v.denominator)}
    if type(v) is Decimal:
        return {'t': 'Decimal', 'v': str(v)}
    if type(v) is tuple:          # one operand per row: (7, 9, 10) / col
        return {'t': 'seq', 'v': [enc_x(e) for e in v]}
    return pyobs.enc(v)


def dec_x(d):
    if d['t'] == 'Fraction':
        return Fraction(d['v'])
    if d['t'] == 'Decimal':
        return Decimal(d['v'])
    if d['t'] == 'seq':
        return tuple(dec_x(e) for e in d['v'])
    return pyobs.dec(d)


def _numeric_text(t):
    for f in (int, float):
        try:
            f(t)
            return True
        except ValueError:
            pass
    return False


def plain(x):
    if isinstance(x, np.floating):
        return float(x)
    if isinstance(x, np.integer):
        return int(x)
    return x


def enc_list(cells):
    return [pyobs.enc(c) for c in cells]


def dec_list(cells):
    return [pyobs.dec(c) for c in cells]


# ---------------------------------------------------------------- reference evaluation (exact, Fractions)
def nums_l0(cells):
    """the numeric, finite, non-NaN cells, exactly"""
    return [q for q in (cell_q(x) for x in cells) if q is not None]


def nums_l1(kind, cells):
    """what the implementation's arithmetic sees: a MixedColumn passes every number through float()"""
    if kind == 'KMixed':
        return [Fraction(float(x)) for x in cells if is_num(x)]
    return nums_l0(cells)


def textbook(stat, l):
    """None = NaN"""
    n = len(l)
    if stat == 'Sum':
        return sum(l, Fraction(0))
    if stat == 'Var':
        if n < 2:
            return None
        m = sum(l, Fraction(0)) / n
        return sum(((x - m) ** 2 for x in l), Fraction(0)) / (n - 1)
    if n == 0:
        return None
    if stat == 'Mean':
        return sum(l, Fraction(0)) / n
    if stat == 'Min':
        return min(l)
    if stat == 'Max':
        return max(l)
    s = sorted(l)
    if n % 2 == 1:
        return s[n // 2]
    return (s[n // 2 - 1] + s[n // 2]) / 2


def representable(q):
    try:
        return Fraction(float(q)) == q
    except OverflowError:
        return False


def subset_sums_exact(l):
    """every partial sum of l, in any order, is a binary64 value"""
    if not l:
        return True
    d = max(x.denominator for x in l)
    if d & (d - 1):
        return False
    return sum(abs(x) for x in l) * d < 2 ** 53


def isqrt_frac(q):
    if q < 0:
        return None
    a, b = math.isqrt(q.numerator), math.isqrt(q.denominator)
    if a * a == q.numerator and b * b == q.denominator:
        return Fraction(a, b)
    return None


def normal_range(l):
    return all(representable(x) for x in l) and \
        not any(x != 0 and not (Fraction(1, 2 ** 900) <= abs(x) <= 2 ** 900) for x in l)


def exact_flag(stat, l):
    """True only if every floating-point operation of the computation is exact on l (conservative)."""
    if not normal_range(l):
        return False
    n = len(l)
    ref = textbook(stat, l)
    if ref is None:
        return True
    if stat in ('Min', 'Max'):
        return True
    if stat == 'Sum':
        return subset_sums_exact(l)
    if stat == 'Mean':
        return subset_sums_exact(l) and representable(ref)
    if stat == 'Median':
        if n % 2 == 1:
            return True
        s = sorted(l)
        return representable(s[n // 2 - 1] + s[n // 2]) and representable(ref)
    # Var: two-pass algorithm, all intermediate values exact, exact rational root
    if not subset_sums_exact(l):
        return False
    m = sum(l, Fraction(0)) / n
    if not representable(m):
        return False
    ds = [x - m for x in l]
    sq = [d * d for d in ds]
    if not all(representable(d) for d in ds) or not all(representable(d) for d in sq) or not subset_sums_exact(sq):
        return False
    r = isqrt_frac(ref)
    return representable(ref) and r is not None and representable(r)


def rounded_flag(stat, l):
    """True only if the computation is ONE correctly rounded IEEE operation on exactly computed operands (conservative):
    the result is then within half a unit in the last place of the textbook rational.
    mean: every partial sum exact, then one division by n.  median (even n): .5*a + .5*b (exact halves, one rounded
    addition) resp. NumPy (a + b) / 2 (one rounded addition, exact halving).  Values in the normal range only."""
    if not normal_range(l) or not l:
        return False
    if stat == 'Mean':
        return subset_sums_exact(l)
    if stat == 'Median':
        return True
    return False


def mode_of(stat, l):
    """how the returned float is compared inside Coq: MExact (equal to the rational), MHalfUlp (within half a unit in the
    last place of the returned float), MFinite (finite; the tolerance comparison is made on the Python side)"""
    if exact_flag(stat, l):
        return 'MExact'
    if rounded_flag(stat, l):
        return 'MHalfUlp'
    return 'MFinite'


def half_ulp_ok(x, q):
    """|x - q| <= ulp(x) / 2 for the float x and the rational q (exact arithmetic)"""
    if x == 0.0:
        return q == 0
    m, e = math.frexp(abs(x))        # |x| = m * 2**e, 0.5 <= m < 1: unit in the last place 2**(e-53)
    return abs(Fraction(x) - q) * 2 <= Fraction(2) ** (e - 53)


def within(stat, impl, ref, l):
    """|impl - textbook| <= min(1e-9 * max(|textbook|, max|x|), rounding-error bound of the statistic), exact rational
    arithmetic.  Var (impl is the std, s = sqrt(ref)): |impl - s| <= 1e-9 * s + 2 * min(1.5 * d, d^2 / s)  with  d = n * 2^-52 * max|x|.
    The second term is what a two-pass evaluation (mean first, then the squared deviations from it) cannot avoid:
    the computed mean is off by at most dm <= n * 2^-53 * max|x| (any summation order), the deviations from the
    COMPUTED mean have the sum of squares  sum (x_i - m)^2 + n * dm^2  exactly, so the computed variance is
    (var + n/(n-1) * dm^2) * (1 + theta), |theta| < 1e-14, and sqrt(var + 2 dm^2) - s <= min(sqrt(2) * dm, dm^2 / s).
    It is first order in max|x| only when the spread is below the rounding of the mean, second order otherwise
    (ms timestamps 1.7e12 a few ms apart: 1e-7 absolute on a std of 13), with a margin of >= 8 on d^2.
    Measured on the unchanged tree (15000 columns, offsets 1e6..1.4e16, n <= 40, three column types): the largest
    |impl - s| / tolerance is 0.1."""
    x = Fraction(impl)
    big = max([abs(v) for v in l] + [0])
    if stat == 'Var':
        s = Fraction(math.sqrt(float(ref)))
        d = len(l) * Fraction(1, 2 ** 52) * big
        if s == 0 or not all(representable(v) for v in l):
            # cells that are not binary64 values (ints beyond 2^53, Fractions, Decimals) are rounded on the way in: each by
            # at most 2^-53 |x|, which moves the std by at most sqrt(n/(n-1)) * 2^-53 * max|x|: first-order bound
            extra = 3 * d + Fraction(1, 2 ** 52) * big
        else:
            extra = 2 * min(Fraction(3, 2) * d, d * d / s)
        tol = TOL * s * (1 + TOL) + extra
        lo = x - tol
        return x >= 0 and (lo <= 0 or lo * lo <= ref) and ref <= (x + tol) ** 2
    # rounding-error bounds that hold for every summation order (recursive, pairwise, compensated), u = 2^-53, each with
    # a factor 2 in hand; cells that are not binary64 values are rounded by at most u |x| on the way in (the "+1"):
    #   sum: (n+1) u sum|x_i|;  mean: that / n plus the division;  median: two roundings of the inputs, one of the
    #   addition;  min / max: the rounding of the input.  Never looser than 1e-9 relative.
    u2 = Fraction(1, 2 ** 52)
    n = len(l)
    tot = sum((abs(v) for v in l), Fraction(0))
    if stat == 'Sum':
        tol = (n + 1) * u2 * tot
    elif stat == 'Mean':
        tol = (n + 1) * u2 * tot / n + u2 * abs(ref)
    elif stat == 'Median':
        tol = 4 * u2 * big
    else:
        tol = u2 * big
    tol = min(tol, TOL * max(abs(ref), big))
    return abs(x - ref) <= tol


# ---------------------------------------------------------------- literals
def claim(q):
    if q is None:
        return 'CNan'
    return '(CVal (qc %s %d))' % (L.z(q.numerator), q.denominator)


# ---------------------------------------------------------------- functions mapped over a column (`col @ f`, map_)
def _fin(v):
    return (type(v) in (int, float) or isinstance(v, (np.integer, np.floating))) and v == v and abs(v) != float('inf')


def _f32(v):
    if type(v) in (int, float) and v == v and abs(v) < 1e30:
        return np.float32(v)
    return v


def _dec(v):
    if type(v) is int and abs(v) < 10 ** 20:
        return Decimal(v) / 4
    if type(v) is float and v == v and 1e-6 < abs(v) < 1e15:
        return Decimal(repr(v))
    return v


FUNCS = {
    'npabs': lambda v: np.abs(v) if _fin(v) else v,                                   # np.int64 / np.float64
    'npint64': lambda v: np.int64(v) if type(v) is int and abs(v) < 2 ** 62 else v,
    'npint32': lambda v: np.int32(v) if type(v) is int and abs(v) < 2 ** 31 else v,
    'npfloat64': lambda v: np.float64(v) if type(v) in (int, float) and abs(v) < 2 ** 53 else v,   # NaN stays a NaN object
    'npfloat32': _f32,
    'npround': lambda v: np.round(v) if type(v) is float else v,                      # np.float64, incl. NaN
    'frac3': lambda v: (Fraction(int(v)) if type(v) is int else Fraction(float(v))) / 3 if _fin(v) else v,
    'frac': lambda v: Fraction(v) if type(v) is int else v,                          # only the ints become Fractions
    'dec': _dec,
    'pos': lambda v: bool(v > 0) if _fin(v) else v,
    'even': lambda v: v % 2 == 0 if type(v) is int else v,                            # only the ints become bools
    'neg': lambda v: -v if _fin(v) else v,
    'half': lambda v: v / 2 if _fin(v) else v,
    'sq': lambda v: v * v if _fin(v) and abs(v) < 1e50 else v,
    'tofloat': lambda v: float(v) if _fin(v) else v,
    'ident': lambda v: v,
    'none_neg': lambda v: None if _fin(v) and v < 0 else v,
    'str': lambda v: str(v),
    # numeric-LOOKING text stored unchecked by `col @ f`: it stays text (not a number) for every statistic
    'fmt2': lambda v: '%.2f' % v if _fin(v) else v,
    'strint': lambda v: str(v) if type(v) is int else v,                              # only the ints become text
}
EXOTIC = ['npabs', 'npint64', 'npint32', 'npfloat64', 'npfloat32', 'npround', 'frac3', 'frac', 'dec', 'pos', 'even']
PLAINF = ['neg', 'half', 'sq', 'tofloat', 'ident', 'none_neg', 'str', 'fmt2', 'strint']
TEXTF = ['str', 'fmt2', 'strint']
ARITH = {'+': lambda a, b: a + b, '-': lambda a, b: a - b, '*': lambda a, b: a * b, '/': lambda a, b: a / b,
         '//': lambda a, b: a // b, '%': lambda a, b: a % b, '**': lambda a, b: a ** b}
INT64_MIN, INT64_MAX = -2 ** 63, 2 ** 63 - 1

# Values a column REFUSES (step 'refuse'): the write raises and the statistics read afterwards must be those of the
# cells the column holds then (unchanged cells => bit-identical statistics).  Named, so that the program stays JSON.
#   IntColumn: OverflowError for everything beyond int64 (on the slice / whole-column forms IntColumn._setslicekey
#   re-creates the buffer and sets the INSTANCE attribute dtype = np.int64 before the error propagates), TypeError for
#   text / None / nan / inf / objects; every column type: TypeError / ValueError for objects, nested sequences,
#   sequences of the wrong length, dicts, sets, bytes.
RVALS = {
    'int=2^64': 2 ** 64, 'int=2^63': 2 ** 63, 'int=-2^63-1': -2 ** 63 - 1, 'int=1e30': 10 ** 30, 'float=1e30': 1e30,
    'np.float64=1e30': np.float64(1e30), 'np.uint64>int64': np.uint64(2 ** 63 + 5), 'text=digits>int64': '99999999999999999999',
    'text=1e30': '1e30', 'text': 'abc', 'emptytext': '', 'none': None, 'nan': float('nan'), 'inf': float('inf'),
    '-inf': float('-inf'), 'object': object, 'nested': [1, 2], 'tuple3': (1, 2, 3), 'dict': {'a': 1}, 'set': {1, 2},
    'bytes': b'ab',
}
R_OVERFLOW = ['int=2^64', 'int=2^63', 'int=-2^63-1', 'int=1e30', 'float=1e30', 'np.float64=1e30', 'np.uint64>int64',
              'text=digits>int64', 'text=1e30']
R_TYPE_INT = ['text', 'emptytext', 'none', 'nan', 'inf', '-inf']            # refused by an IntColumn only
R_TYPE_ANY = ['object', 'nested', 'tuple3', 'dict', 'set', 'bytes']          # refused by every column type (most forms)
R_FORMS = ['whole', 'wholescalar', 'all', 'alllist', 'slice', 'slicelist', 'int', 'list', 'listlist', 'sel', 'row',
           'wronglen', 'slicewronglen', 'array', 'colobj']
R_FORMS_FREE = ['all', 'alllist', 'slice', 'slicelist', 'int', 'list', 'listlist', 'slicewronglen', 'array', 'colobj']
# IntColumn cells (each an int64 value) whose exact total is NOT an int64 value: the sum must be computed exactly
R_BIGTOTAL = [[2 ** 62, -3, 2 ** 62 + 4096, 2 ** 61, 11, 2 ** 62 + 8192], [2 ** 62] * 3, [2 ** 62 + 2 ** 61, 2 ** 62, 1, 1],
              [2 ** 63 - 1] * 2, [-2 ** 63] * 2, [-2 ** 62, -2 ** 62, -2 ** 62, -1], [2 ** 63 - 1, 2 ** 63 - 1, -5, 7],
              [2 ** 61] * 5 + [1], [-2 ** 63, -1, 3], [2 ** 62, 2 ** 62, 2 ** 53 + 1]]


# A finding about the UNCHANGED tree, kept out of the default stream until the coordinator decides: a MixedColumn holding
# decimal.Decimal cells (stored unchecked by `col @ f`) next to a float NaN: `unique` and `count` raise
# decimal.InvalidOperation, because sorted() compares a Decimal with the NaN and py3compat.safe_sorted only falls back
# on TypeError.  (mean / median / std / min / max / sum are right on such a column.)
INCLUDE_PENDING_FINDINGS = False
# A second one (same switch): IntColumn.sum is np.nansum over the int64 buffer, which adds in int64 and wraps silently:
# an IntColumn whose cells each fit int64 but whose exact total does not (e.g. [2**62] * 3) returns sum = -4.6e18 where a
# FloatColumn / MixedColumn holding the same numbers return 1.38e19.  (mean / median / std / min / max of such a column
# are right: nanmean / nanstd / nanmedian accumulate in float64.)  The cells are inside int64, the total is not: the
# `sum` of such a reading is left unjudged (tag `int-sum-leaves-int64`), every other statistic of it is judged.


def int_sum_wraps(kind, cells):
    """an IntColumn whose exact total is not an int64 value: np.nansum wrapped around there (repaired in /repo, commit
    a982cb9: integer buffers are summed exactly), so the sum of such a column is judged like every other statistic"""
    return False


def pending_finding_state(col):
    cells = [x for x in col]
    return any(type(x) is Decimal for x in cells) and \
        any((type(x) is float or isinstance(x, np.floating)) and x != x for x in cells)


class Runner:
    """executes a program (list of JSON-able steps) on the implementation; the column under test lives in self.dm
    under self.wname (target of the modifications) and is read through self.rname (an alias, or the same name), or
    is a free column (a slice / a mapped column that was not inserted)"""

    def __init__(self, kind, vals):
        from datamatrix import DataMatrix, IntColumn
        n = len(vals)
        dm = DataMatrix(length=n)
        dm.k = IntColumn
        if n:
            dm.k = list(range(n))
        dm.c = coltype(kind)
        if n:
            dm.c = list(vals)
        self.dm, self.wname, self.rname, self.free = dm, 'c', 'c', None
        self.readings = []
        self.refusals = []            # per 'refuse' step: (number of readings taken before it, exception class | 'accepted')

    def wcol(self):
        return self.free if self.free is not None else self.dm[self.wname]

    def rcol(self):
        return self.free if self.free is not None else self.dm[self.rname]

    def put(self, col):
        self.dm[self.wname] = col

    def read(self, record=True):
        col = self.rcol()
        kind = kind_of(col)
        try:
            obs = {}
            for s in STATS:
                obs[s] = float(getattr(col, ATTR[s]))
            u = list(col.unique)
            cnt = int(col.count)
        except Exception as e:          # noqa: BLE001
            raise ReadFailed('%s: reading the statistics of a column holding %r raised %r' % (
                kind, [x for x in col][:12], e))
        cells = [x for x in col]
        if kind != 'KMixed':
            # what type of object a cell read hands out (plain int / float is C05's promise; recorded, see judge)
            obs['_celltypes'] = sorted(set(type(x).__name__ for x in cells))
            cells = [plain(x) for x in cells]
            u = [plain(x) for x in u]
        if kind == 'KInt':
            # the buffer the NumPy statistics reduce (the cells above were read through int(_seq[i])): Model/StatsOp.v
            try:
                obs['_buf'] = [Fraction(int(v)) if isinstance(v, np.integer) else Fraction(float(v)) for v in col._seq]
            except (ValueError, OverflowError, TypeError):
                obs['_buf'] = None
        if record:
            self.readings.append((kind, cells, obs, u, cnt))

    def apply(self, op):
        from datamatrix import DataMatrix, IntColumn, operations as ops, functional as fnc
        o = op[0]
        dm = self.dm
        if o == 'read':
            self.read()
        elif o == 'map':                  # dm.c = dm.c @ f : the derived column is assigned (by reference before the repair of _set_col)
            self.put(self.wcol() @ FUNCS[op[1]])
        elif o == 'map_':
            self.put(fnc.map_(FUNCS[op[1]], self.wcol()))
        elif o == 'mapfree':              # the mapped column itself, never inserted
            self.free = self.rcol() @ FUNCS[op[1]]
        elif o == 'farith':               # the free column col + x / x + col (results stored unchecked, never inserted)
            x = dec_x(op[3])
            c = self.rcol()
            self.free = ARITH[op[1]](c, x) if op[2] == 'l' else ARITH[op[1]](x, c)
        elif o == 'fiop':                 # c = <the free column / dm.c>; c += x : the augmented assignment on a detached name
            x = dec_x(op[2])
            c = self.rcol()
            if op[1] == '+':
                c += x
            elif op[1] == '-':
                c -= x
            elif op[1] == '*':
                c *= x
            elif op[1] == '/':
                c /= x
            elif op[1] == '//':
                c //= x
            elif op[1] == '%':
                c %= x
            else:
                c **= x
            self.free = c
        elif o == 'insert':               # dm.c = <the free column> : only now the result is copied / type-checked into the table
            if self.free is not None:
                c = self.free
                self.free = None
                self.put(c)
        elif o == 'arith':                # dm.c = dm.c + x / x + dm.c
            x = dec_x(op[3])
            c = self.wcol()
            self.put(ARITH[op[1]](c, x) if op[2] == 'l' else ARITH[op[1]](x, c))
        elif o == 'iop':                  # dm.c += x
            x = dec_x(op[2])
            c = self.wcol()
            if op[1] == '+':
                c += x
            elif op[1] == '-':
                c -= x
            elif op[1] == '*':
                c *= x
            else:
                c /= x
            self.put(c)
        elif o == 'select':               # dm = dm.k >= t
            self.dm = (dm.k >= op[1]) if op[2] == 'ge' else (dm.k < op[1])
        elif o == 'setop':
            a, b = dm.k >= op[2], dm.k < op[3]
            self.dm = (a | b) if op[1] == '|' else (a & b) if op[1] == '&' else (a ^ b)
        elif o == 'sort':
            self.dm = ops.sort(dm, by=dm[self.rname if op[1] == 'c' else 'k'])
        elif o == 'shuffle':
            st = _random.getstate()
            _random.seed(op[1])
            try:
                self.dm = ops.shuffle(dm)
            finally:
                _random.setstate(st)
        elif o == 'slice':
            self.dm = dm[op[1]:op[2]]
        elif o == 'rows':
            self.dm = dm[list(op[1])]
        elif o == 'colslice':
            self.free = self.rcol()[op[1]:op[2]]
        elif o == 'colrows':
            self.free = self.rcol()[list(op[1])]
        elif o == 'colsel':               # dm.c[dm.k >= t]
            self.free = self.rcol()[dm.k >= op[1]]
        elif o == 'resize':
            dm.length = op[1]
        elif o == 'delrow':
            del dm[op[1]]
        elif o == 'concat':               # dm << dm2 (same column names and types)
            k2 = kind_of(self.wcol())
            v2 = dec_list(op[1])
            dm2 = DataMatrix(length=len(v2))
            dm2.k = IntColumn
            dm2.k = [1000 + i for i in range(len(v2))]
            dm2[self.wname] = coltype(k2)
            dm2[self.wname] = v2
            if op[2]:
                dm2[self.wname] = dm2[self.wname] @ FUNCS[op[2]]
            if self.rname != self.wname:
                dm2[self.rname] = dm2[self.wname]
            self.dm = (dm << dm2) if op[3] == 'after' else (dm2 << dm)
        elif o == 'rename':
            dm.rename(self.wname, op[1])
            if self.rname == self.wname:
                self.rname = op[1]
            self.wname = op[1]
        elif o == 'alias':                # dm.b = dm.c : one column object under two names
            dm[op[1]] = dm[self.wname]
            if op[2] == 'read-alias':
                self.rname = op[1]
            else:
                self.rname, self.wname = self.wname, op[1]
        elif o == 'copy':
            self.dm = dm[:]
        elif o == 'set':
            path, where, v = op[1], op[2], pyobs.dec(op[3])
            col = self.wcol()
            if path == 'int':
                col[where] = v
            elif path == 'slice':
                col[where[0]:where[1]] = v
            elif path == 'list':
                col[list(where)] = v
            elif path == 'sel':
                col[dm.k >= where] = v
            elif path == 'row':
                setattr(dm[where], self.wname, v)
            elif path == 'all':
                col[:] = v
            elif path == 'allk':          # col[:] = other_col
                col[:] = dm.k
            elif path == 'array':
                col[:] = np.array([v] * len(col))
            else:
                raise AssertionError(path)
        elif o == 'refuse':               # a write the column is expected to REFUSE: the exception is the observation
            self.refuse(op[1], op[2], RVALS[op[3]])
        elif o == 'whole':                # dm.c = [...]
            self.dm[self.wname] = dec_list(op[1])
        elif o == 'wholescalar':          # dm.c = v
            self.dm[self.wname] = pyobs.dec(op[1])
        elif o == 'wholecol':             # dm.c = dm.k (by reference) / dm.c = dm.k[:] / dm.c = dm.k + 0
            src = dm.k if op[1] == 'ref' else dm.k[:] if op[1] == 'copy' else dm.k * 1
            self.dm[self.wname] = src
        elif o == 'recreate':             # del dm.c ; dm.c = <type> ; dm.c = [...] : a new column under the old name
            del dm[self.wname]
            dm[self.wname] = coltype(op[1])
            if len(dm):
                dm[self.wname] = dec_list(op[2])
            if self.rname != self.wname and self.rname not in dm:
                self.rname = self.wname
        elif o == 'retype':               # dm.c = <type> : the column is replaced by an empty one of that type
            dm[self.wname] = coltype(op[1])
        elif o == 'replace':
            self.put(ops.replace(self.wcol(), {pyobs.dec(op[1]): pyobs.dec(op[2])}))
        else:
            raise AssertionError(op)


def _runner_refuse(self, form, where, v):
    """one write of the value v through `form`; an exception it raises is caught and recorded (class name), never
    propagated: the column is read afterwards whatever happened.  where = [i, j] (two positions, i < j, or [0, 0])"""
    from datamatrix import DataMatrix, MixedColumn
    dm = self.dm
    col = self.wcol()
    n = len(col)
    i, j = (where + [0, 0])[:2]
    i, j = (min(i, n - 1), min(j, n)) if n else (0, 0)
    cur = [plain(x) for x in col]
    if self.free is not None and form not in R_FORMS_FREE:
        form = 'all'
    if n == 0 and form in ('int', 'row', 'list', 'listlist'):
        form = 'all'
    withv = list(cur)
    if n:
        withv[i] = v
    src = None
    if form == 'colobj':                  # col[:] = <a column of another table holding v>
        try:
            dm2 = DataMatrix(length=n)
            dm2.x = MixedColumn
            if n:
                dm2.x = [v] * n
            src = dm2.x
        except Exception:       # noqa: BLE001 -- a MixedColumn cannot hold v either: written as a plain value instead
            form = 'all'
    try:
        if form == 'whole':
            dm[self.wname] = withv
        elif form == 'wholescalar':
            dm[self.wname] = v
        elif form == 'all':
            col[:] = v
        elif form == 'alllist':
            col[:] = withv
        elif form == 'slice':
            col[i:max(j, i + 1)] = v
        elif form == 'slicelist':
            col[i:max(j, i + 1)] = withv[i:max(j, i + 1)]
        elif form == 'int':
            col[i] = v
        elif form == 'list':
            col[sorted(set([i, max(j - 1, i)]))] = v
        elif form == 'listlist':
            idx = sorted(set([i, max(j - 1, i)]))
            col[idx] = [cur[q] for q in idx[:-1]] + [v]
        elif form == 'sel':
            col[dm.k >= int(min([int(x) for x in dm.k] or [0])) + i] = v
        elif form == 'row':
            setattr(dm[i], self.wname, v)
        elif form == 'wronglen':
            dm[self.wname] = (cur + [1]) if (j % 2 or not n) else cur[:-1]
        elif form == 'slicewronglen':
            col[0:n] = (cur + [1]) if (j % 2 or not n) else cur[:-1]
        elif form == 'array':
            col[:] = np.array([v] * n, dtype=object) if not isinstance(v, (float, np.floating)) else np.array([v] * n)
        elif form == 'colobj':
            col[:] = src
        else:
            raise AssertionError(form)
        res = 'accepted'
    except AssertionError:
        raise
    except Exception as e:      # noqa: BLE001 -- the refusal IS the observation
        res = type(e).__name__
    self.refusals.append((len(self.readings), res))


Runner.refuse = _runner_refuse


def run_program2(kind, vals, prog):
    """-> (readings, refusals)"""
    with warnings.catch_warnings():
        warnings.simplefilter('ignore')
        r = Runner(kind, vals)
        for op in prog:
            r.apply(op)
        r.read()
    return r.readings, r.refusals


def run_program(kind, vals, prog):
    """-> list of readings (the last one is the final reading).  Raises ReadFailed / Unclassified / any exception
    of a building step."""
    with warnings.catch_warnings():
        warnings.simplefilter('ignore')
        r = Runner(kind, vals)
        for op in prog:
            r.apply(op)
        r.read()
    return r.readings


def same_float(a, b):
    return (a != a and b != b) or (a == b and math.copysign(1.0, a) == math.copysign(1.0, b))


def same_cells(a, b):
    """the same values of the same types, position by position (NaN ~ NaN)"""
    if len(a) != len(b):
        return False
    for x, y in zip(a, b):
        if type(x) is not type(y):
            return False
        if not (x == y or (x != x and y != y)):
            return False
    return True


class C12:
    id = 'C12'
    props_file = 'theories/Props/C12.v'
    kernel_files = ['KStats.v', 'KCheck.v']
    oracle_vos = ['theories/Run/SC12.vo']
    model_vos = ['theories/Run/RC12.vo']
    oracle_imports = ['From Coq Require Import QArith Qcanon.', 'From DM Require Import Run.SC12.']
    model_imports = ['From Coq Require Import QArith Qcanon.', 'From DM Require Import Run.RC12.']
    exhaustive = False
    rule = ('multisets of finite numbers (small repeated ints, ints to +-1e6, ints around 2^53 and up to 2^58, dyadic '
            'and decimal floats, floats of magnitude 1e-100..1e100) of length 0..12 (thorough: 0..40), each stored in '
            'a MixedColumn interleaved with strings, None and NaN, in a FloatColumn (strings/None become NaN) and, '
            'when all numbers are ints, in an IntColumn, each in up to 4 row orders (as generated, reversed, sorted, '
            'shuffled); all lists of length <= 2 (thorough: <= 3) over a 7-value alphabet; arithmetic progressions '
            'and constant lists whose standard deviation is an exactly representable rational; large offset / small '
            'spread data (1e6..1e12 + 0..100, 1e8+{0,1,2,3}, ms timestamps ~1.7e12, values near -2^40, mixed '
            'magnitudes) in all three column types with cross-type agreement; a stream with '
            'infinities (outside the quantifier: only unique/count are judged); DETACHED results of operators -- col OP x and '
            'the REFLECTED x OP col for + - * / // % **, x an int, a float or one number per row, chained (1 + 30 / col) and '
            'augmented (c OP= x) -- on all three column types, whose statistics are read from the result object itself '
            'before it is assigned anywhere, judged against the cells AS READ from that object and against fresh columns '
            'of every type (also the same one) holding those cells, then written to / inserted into the table and read '
            'again; int cells near the int64 / 2^53 limits (2^62 several times, 2^63-1, -2^63, 2^53+1 repeated, mixed '
            'signs cancelling, 2^31/2^32, sqrt(2^63)) whose total, partial sums or sum of squares leave int64 / binary64 '
            'exactness, in all three column types with cross-type agreement (the `sum` of an IntColumn whose exact total '
            'is not an int64 value is judged like every other statistic since /repo sums integer buffers exactly). '
            'Columns are built by PROGRAMS executed on the implementation: plain assignment; `dm.c = dm.c @ f`, map_ '
            'and FREE columns (`col @ f`, `col + x` with NumPy / Fraction / bool operands, column slices and selections, never '
            'inserted: since the repair of DataMatrix._set_col only these keep unchecked cells), further mapped, sliced, '
            'selected, computed with and written to; f returning NumPy int64/int32/float64/float32 scalars, Fractions, Decimals, '
            'bools, plain numbers, None, strings (a MixedColumn stores these results unchecked); column arithmetic '
            '(both operand orders) and in-place operators; row selection, &|^ of selections, sort, shuffle, slices, '
            'index lists, column slices / selections, resize (grow and shrink), `<<` with a second table (either '
            'order, mapped or not), delete row, rename, alias (`dm.b = dm.c`, written through one name and read '
            'through the other), copy, replace; cell writes through int / slice / index-list / selection / Row / '
            '`col[:] = v` / `col[:] = other column` / NumPy array / whole-column list, scalar and column (by '
            'reference, copied, derived) assignment; delete-and-recreate and re-typing under the same name; REFUSED writes (family '
            'refused-write: a value beyond int64 -- int, float, NumPy scalar, numeric text -- text / None / nan / inf into an IntColumn, '
            'objects, nested sequences, dicts, sets, bytes and sequences of the wrong length into every column type, through 15 write '
            'forms: whole-column list / scalar, col[:] scalar / list, slice scalar / list, int, index list scalar / list, selection, Row, '
            'wrong-length whole / slice, NumPy array, a column of another table): the write raises (OverflowError / TypeError / '
            'ValueError; recorded, not propagated), the column -- 60 % of the IntColumns hold int64 cells whose exact total leaves '
            'int64 -- is read again, used further (derived, mutated, detached) and read again: every reading is judged against the '
            'cells held then, and two readings with only raising writes between them that hold the same cells must give bit-identical '
            'statistics, unique and count.  Sequence programs read all statistics + unique + count, apply '
            '1-3 of these modifications, and read again after each: EVERY reading is judged against the cells the '
            'column holds at that moment. non-trivial = at least two numbers or at least one ignored cell in the '
            'final reading; distinct by (kind, program, cells of every reading)')
    trusted_base = [
        'Coq 8.16.1 kernel (coqc; vm_compute for evaluating cases; no native_compute); stdlib QArith/Qcanon',
        'translator /verif/translate (py2coq.py, pystmt.py, gen_stats.py, gen_checktype.py): BaseColumn._numbers, '
        '_nanorinf, mean/median/std/max/min/sum guards, index, weights and denominators, NumericColumn guards and ddof '
        '-> Gen/KStats.v, Gen/KCheck.v; the remaining statement skeletons are pinned verbatim (incl. the cast of an '
        'IntColumn operator result to the column dtype and the cell read `dtype(_seq[key])`)',
        'hand-written models of Python sum/sorted/max/min/list indexing on rationals (Base/QcPy.v) and of float() '
        '(Base/PyVal.v round53); NumPy nanmean/nanmedian/nanstd/nanmax/nanmin/nansum/unique modelled as '
        '"drop NaN, then the textbook function" (NumPy trusted), math.sqrt as the non-negative root',
        'harness/c12.py: generator, program interpreter, classification of the cells read back into Spec/Stats.v '
        'xcell, Fraction reference evaluation (checked equal to the Coq rationals case by case), '
        'tolerance comparison, exactness classification; harness/pyobs.py, coqlit.py literal printers',
    ]
    assumptions = [
        'IEEE rounding is not modelled: the model computes with exact rationals. The float returned by the '
        'implementation is compared inside Coq with the L0 / L1 rational: EXACTLY on inputs where every floating-point '
        'operation is exact (sum and mean of integers / dyadics whose partial sums stay below 2^53 units, min, max, '
        'odd median, ...), WITHIN HALF A UNIT IN THE LAST PLACE of the returned float where the result is one '
        'correctly rounded operation on exact operands (mean with exact partial sums, even median) -- both classified '
        'conservatively by the harness from the input only; on all other inputs the '
        'comparison is |impl - ref| <= min(1e-9 * max(|ref|, max|x_i|), B) with B the textbook rounding-error bound of '
        'the statistic with a factor 2 in hand (sum: (n+1) 2^-52 sum|x_i|; mean: that / n + 2^-52 |ref|; median: '
        '2^-50 max|x_i|; min/max: 2^-52 max|x_i|) (std: |impl - s| <= 1e-9 * s + 2 * min(1.5 d, d^2 / s), '
        's = sqrt(var), d = n * 2^-52 * max|x_i|: relative on the result plus what the rounding of the mean in a '
        'two-pass evaluation cannot avoid -- second order in max|x_i| unless the spread is below that rounding), evaluated in '
        'exact Fraction arithmetic on the Python side, where ref is a Fraction evaluation of the textbook formula '
        'that Coq checks to be EQUAL to the L0 (resp. L1) rational on every case, so the Coq value is what is compared',
        'which cells are numeric (L0, Spec/Stats.v xcell_q): int, float, str, None as stored by the type check, and '
        'for a MixedColumn also what BaseColumn._map (`col @ f`, map_) and BaseColumn._operate (column arithmetic) store '
        'unchecked in their result columns, in slices / selections of those, and in a table column wherever '
        'DataMatrix._set_col inserts such a column by reference (repaired in /repo during this session: a derived column '
        'is now copied and type-checked): a NumPy integer or floating '
        'scalar is a number (its value); a bool is a number (bool subclasses int: True = 1, False = 0 -- it can only '
        'reach a column as the unchecked result of a mapped function); a Fraction and a finite Decimal are numbers '
        '(exact rational value; the L1 model leaves the model on them (MOut), the L0 oracle judges them). complex, '
        'numpy.bool_ and other objects are not generated (outside the quantifier "finite numbers")',
        'cells are finite numbers, strings, None, NaN; a column holding an infinity is outside the quantifier '
        '(BaseColumn._nanorinf drops +inf but not -inf; NumPy keeps both): only unique/count are judged there',
        'sum of a column without numbers is left open by the property text (MixedColumn: NaN, non-empty numeric '
        'column: 0.0, empty numeric column: NaN): the oracle accepts NaN or 0, the L1 model pins each',
        'every cell of an IntColumn is an int64 value (the whole range is generated); the `sum` of an IntColumn whose '
        'exact total is not an int64 value is NOT judged (np.nansum adds in int64 and wraps: reported as a pending '
        'finding, INCLUDE_PENDING_FINDINGS) -- mean / median / std / min / max of such a column are; arithmetic steps '
        'are only applied to cells below 2^40; magnitudes within 1e-100..1e100 so that no float operation overflows '
        'or underflows',
        'the NumPy statistics reduce the buffer `_seq` while cells are read through `dtype(_seq[i])`: that an '
        'IntColumn buffer holds integers after an operator is PINNED (gen_stats.py: IntColumn._operate casts the result '
        'to its dtype, NumericColumn._getintkey), modelled (Model/StatsOp.v: with the cast the statistics of the result '
        'object are those of its cells, for any buffer the operator produced; astype(int) = truncation toward zero), '
        'checked on the buffer `_seq` dumped at every IntColumn reading (RC12.v int_buffers_ok) and exercised by the '
        'detached-operator-result family',
        'a MixedColumn sees ints through float(): the refinement and kind-agreement theorems carry the premise '
        '|z| < 2^53 for int cells; NaN entries of MixedColumn.unique are not modelled (set() compares NaN objects '
        'by identity), as the property speaks about non-NaN values',
        'an exception raised by a BUILDING step of a program (not by reading a statistic) is not a C12 observation: '
        'the generator only emits programs that ran on the tree under test; a reading that raises is a violation',
    ]

    # ---- judging one reading ------------------------------------------------
    def judge(self, kind, cells, obs, u, cnt, cross):
        scope = not any(cell_inf(c) for c in cells)
        l0 = nums_l0(cells)
        l1 = nums_l1(kind, cells)
        pyfail, verdict = [], []
        o_items, m_items = [], []
        n_exact = n_ulp = 0
        # IntColumn.sum adds in int64 and wraps: pending finding, see INCLUDE_PENDING_FINDINGS (every other statistic is judged)
        skip = {'Sum'} if (int_sum_wraps(kind, cells) and not INCLUDE_PENDING_FINDINGS) else set()
        for s in STATS:
            if s in skip:
                continue
            x = obs[s]
            r0 = textbook(s, l0)
            r1 = textbook(s, l1)
            e0 = mode_of(s, l0)
            e1 = mode_of(s, l1)
            if s == 'Sum' and not l1:
                r1 = None if (kind == 'KMixed' or not cells) else Fraction(0)
            n_exact += bool(e0 == 'MExact' and r0 is not None)
            n_ulp += bool(e0 == 'MHalfUlp' and r0 is not None)
            o_items.append('(%s, %s, %s, %s)' % (s, claim(r0), L.fl(x), e0))
            m_items.append('(%s, %s, %s, %s)' % (s, claim(r1), L.fl(x), e1))
            if not scope:
                continue
            if r0 is None or (s == 'Sum' and not l0):
                if not (math.isnan(x) or (s == 'Sum' and x == 0)):
                    verdict.append(s)
                continue
            if math.isnan(x) or math.isinf(x):
                verdict.append(s)
                continue
            if e0 == 'MExact':
                ok = (Fraction(x) == r0) if s != 'Var' else (x >= 0 and Fraction(x) ** 2 == r0)
                if not ok:
                    verdict.append(s)
            elif e0 == 'MHalfUlp' and not half_ulp_ok(x, r0):
                verdict.append(s)
            elif not within(s, x, r0, l0):
                verdict.append(s)
                pyfail.append('%s: implementation returned %r, textbook value %s (= %.17g%s) differs by more than '
                              'the tolerance (at most 1e-9 relative)' % (ATTR[s], x, r0, math.sqrt(r0) if s == 'Var' else float(r0),
                                                 ', root of the variance' if s == 'Var' else ''))
        if INCLUDE_PENDING_FINDINGS and kind != 'KMixed' and not set(obs.get('_celltypes', [])) <= {'int', 'float'}:
            # C05's promise (documented there): after a refused slice / whole-column write of a value beyond int64 an
            # IntColumn hands out numpy.int64 cells on the unchanged tree (the `self.dtype = np.int64` fallback)
            pyfail.append('cells are read as %s, not as plain Python numbers' % ', '.join(obs['_celltypes']))
        if cross and scope:
            # the same numbers in the other column types: the implementations must agree with each other as well
            numsonly = [c for c in cells if is_num(c)]
            # (text that parses as a number -- '' + 0.5 gives the text '0.5' -- would be CONVERTED by the fresh column's type check)
            plainable = all(type(c) in (int, float) or c is None or (type(c) is str and not _numeric_text(c)) for c in cells)
            # cross == 'all': also a FRESH column of the same type holding the cells as read (the reading comes from a
            # derived object, e.g. the detached result of an operator)
            others = [k for k in KINDS if (k != kind or cross == 'all') and
                      (k != 'KInt' or all(type(c) is int and INT64_MIN <= c <= INT64_MAX for c in numsonly))]
            for k2 in others if plainable else []:
                try:
                    rd = run_program(k2, numsonly if k2 == 'KInt' else list(cells), [])
                    _k, cells2, obs2, _u2, _c2 = rd[-1]
                except Exception as e:      # noqa: BLE001
                    pyfail.append('%s holding the same cells raised %r' % (k2, e))
                    continue
                l2 = nums_l0(cells2)
                skip2 = {'Sum'} if (int_sum_wraps(k2, cells2) and not INCLUDE_PENDING_FINDINGS) else set()
                for s in STATS:
                    if s in skip or s in skip2:
                        continue
                    a, b = obs[s], obs2[s]
                    r0 = textbook(s, l0)
                    if r0 is None or not l0 or math.isnan(a) or math.isnan(b) or math.isinf(a) or math.isinf(b):
                        continue
                    if not (within(s, a, r0, l0) and within(s, b, r0, l2)):
                        if s not in verdict:
                            verdict.append(s)
                        pyfail.append('%s: %s gives %r, %s gives %r on the same numbers (textbook %.17g)' % (
                            ATTR[s], kind, a, k2, b, math.sqrt(r0) if s == 'Var' else float(r0)))
        cl = cells_lit(cells)
        ul = cells_lit(u)
        reading = '(%s, %s, %s, %s)' % (cl, L.lst(o_items), ul, L.z(cnt))
        mreading = '(%s, (%s, %s, %s, %s))' % (kind, cl, L.lst(m_items), ul, L.z(cnt))
        return {'oracle': reading, 'model': mreading, 'pyfail': pyfail, 'verdict': verdict, 'scope': scope,
                'n_exact': n_exact, 'n_ulp': n_ulp, 'l0': l0, 'skipped': sorted(skip)}

    @staticmethod
    def refusal_pairs(prog, refusals):
        """(index of reading a, index of reading b, description of the steps between) for every two consecutive readings
        with nothing but 'refuse' steps that RAISED between them"""
        out = []
        nread, between, k = 0, None, 0
        for op in list(prog) + [['read']]:
            if op[0] == 'read':
                if between and all(b is not None for b in between) and nread:
                    out.append((nread - 1, nread, between))
                nread += 1
                between = []
            elif between is not None:
                if op[0] == 'refuse' and k < len(refusals) and refusals[k][1] != 'accepted':
                    between.append('%s %s -> %s' % (op[1], op[3], refusals[k][1]))
                else:
                    between.append(None)
            if op[0] == 'refuse':
                k += 1
        return out

    # ---- implementation runner ------------------------------------------
    def rerun(self, inp):
        kind = inp['kind']
        vals = dec_list(inp['vals'])
        prog = inp.get('prog', [])
        tags = list(inp.get('tags', []))
        keep = {k: v for k, v in inp.items() if k != 'may_reject'}
        try:
            readings, refusals = run_program2(kind, vals, prog)
        except Unclassified:
            return None
        except ReadFailed as e:
            if inp.get('may_reject'):
                return None
            return {'input': keep, 'observed': {'exception': str(e)},
                    'pyfail': str(e), 'oracle': 'true', 'model': 'true', 'nontrivial': True,
                    'sig': 'exc|%s|%r|%r' % (kind, inp['vals'], prog), 'tags': tags + [kind, 'read-raised']}
        except Exception as e:      # noqa: BLE001 -- a building step raised: not an observation about the statistics
            if inp.get('may_reject') or inp.get('building'):
                return None
            return {'input': keep, 'observed': {'build_exception': repr(e)},
                    'pyfail': None, 'oracle': 'true', 'model': 'true', 'nontrivial': False,
                    'sig': 'bexc|%s|%r|%r' % (kind, inp['vals'], prog), 'tags': tags + [kind, 'build-raised']}
        try:
            js = [self.judge(k, cells, obs, u, cnt, inp.get('cross') if i == len(readings) - 1 else False)
                  for i, (k, cells, obs, u, cnt) in enumerate(readings)]
        except Unclassified:
            return None
        except (OverflowError, ValueError, ZeroDivisionError) as e:   # the reference evaluation left its range: not judged, but counted
            return {'input': keep, 'observed': {'unjudged': repr(e)}, 'pyfail': None, 'oracle': 'true', 'model': 'true',
                    'nontrivial': False, 'sig': 'unjudged|%s|%r|%r' % (kind, inp['vals'], prog),
                    'tags': tags + [kind, 'harness-unjudged']}
        kf, cells, obs, u, cnt = readings[-1]
        last = js[-1]
        # L1: the dumped buffer of every IntColumn reading holds whole numbers and the cells are read from it (RC12.v)
        bufs = ['(%s, %s)' % (L.lst(['(qc %s %d)' % (L.z(q.numerator), q.denominator) for q in ob['_buf']]), cells_lit(cl))
                for k, cl, ob, _u, _c in readings if k == 'KInt' and ob.get('_buf') is not None]
        pyfail = [p if i == len(js) - 1 else 'reading %d of %d (cells %r): %s' % (i + 1, len(js), readings[i][1][:12], p)
                  for i, j in enumerate(js) for p in j['pyfail']]
        verdict = []
        for i, j in enumerate(js):
            for s in j['verdict']:
                verdict.append(s if i == len(js) - 1 else '%s@reading%d' % (s, i + 1))
        # two readings with nothing but REFUSED writes in between, holding the same cells: the same statistics, bit for bit
        for a, b, toks in self.refusal_pairs(prog, refusals):
            (k1, c1, o1, u1, n1), (k2, c2, o2, u2, n2) = readings[a], readings[b]
            if k1 != k2 or not same_cells(c1, c2):
                tags.append('cells-changed-by-a-raising-write')
                continue
            diff = [ATTR[s] for s in STATS if not same_float(o1[s], o2[s])]
            if not same_cells(u1, u2):
                diff.append('unique')
            if n1 != n2:
                diff.append('count')
            if diff:
                verdict.append('changed-by-refused-write:' + ','.join(diff))
                pyfail.append('reading %d and reading %d hold the same cells %r and only refused writes (%s) lie between them, but %s'
                              ' changed: %r -> %r' % (a + 1, b + 1, c1[:12], '; '.join(toks), ', '.join(diff),
                                                      {ATTR[s]: o1[s] for s in STATS}, {ATTR[s]: o2[s] for s in STATS}))
        for _at, res in refusals:
            tags.append('refusal:' + res)
        n_junk = len(cells) - len(last['l0'])
        tags += [kf, 'len%02d' % len(cells) if len(cells) < 13 else 'len13+',
                 'numbers%d' % len(last['l0']) if len(last['l0']) < 3 else 'numbers3+']
        if n_junk:
            tags.append('with-ignored-cells')
        if not all(j['scope'] for j in js):
            tags.append('out-of-quantifier')
        if any(j['n_exact'] for j in js):
            tags.append('some-exact')
        if any(j['n_ulp'] for j in js):
            tags.append('some-half-ulp')
        if len(readings) > 1:
            tags.append('readings%d' % len(readings))
        if any(j['skipped'] for j in js):
            tags.append('int-sum-leaves-int64')
        if any(type(c) is int and abs(c) >= 2 ** 61 for c in cells):
            tags.append('cell:near-int64-limit')
        for c in cells:
            if type(c) is bool:
                tags.append('cell:bool')
            elif isinstance(c, np.integer):
                tags.append('cell:np-int')
            elif isinstance(c, np.floating):
                tags.append('cell:np-float')
            elif type(c) in (Fraction, Decimal):
                tags.append('cell:' + type(c).__name__)
        for op in prog:
            tags.append('op:' + op[0] + (':' + str(op[1]) if op[0] in ('set', 'map', 'map_', 'mapfree') else ''))
        for op in prog:
            if op[0] == 'refuse':
                tags += ['refuse-form:' + op[1], 'refuse-value:' + op[3]]
        for op in prog:
            if op[0] == 'farith':
                tags.append('free-arith:%s%s' % ('x' + op[1] + 'col' if op[2] == 'r' else 'col' + op[1] + 'x',
                                                 ':float-x' if type(dec_x(op[3])) is float else
                                                 ':seq-x' if type(dec_x(op[3])) is tuple else ''))
            elif op[0] == 'fiop':
                tags.append('free-iop:' + op[1] + '=')
        if any(op[0] in ('mapfree', 'farith', 'fiop', 'colslice', 'colrows', 'colsel') for op in prog):
            tags.append('free-column')
        tags = sorted(set(tags), key=tags.index)
        return {
            'input': keep,
            'observed': {'kind': kf, 'cells': [enc_cell(c) for c in cells],
                         'stats': {ATTR[s]: obs[s].hex() for s in STATS},
                         'unique': [enc_cell(c) for c in u], 'count': cnt, 'py_verdict': verdict,
                         'unjudged': sorted(set(ATTR[s] for j in js for s in j['skipped'])),
                         'earlier_readings': [{'kind': k, 'cells': [enc_cell(c) for c in cl],
                                               'stats': {ATTR[s]: ob[s].hex() for s in STATS}}
                                              for k, cl, ob, _u, _c in readings[:-1]]},
            'pyfail': '; '.join(pyfail) if pyfail else None,
            'oracle': 'oracle_seq %s' % L.lst([j['oracle'] for j in js]),
            'model': ('andb (model_seq %s) (int_buffers_ok %s)' % (L.lst([j['model'] for j in js]), L.lst(bufs))) if bufs
            else 'model_seq %s' % L.lst([j['model'] for j in js]),
            'aux': 'in_scope_seq %s' % L.lst([j['oracle'] for j in js]),
            'nontrivial': len(last['l0']) >= 2 or n_junk > 0,
            'sig': '%s|%r|%r' % (kind, [[(type(c).__name__, c) for c in r[1]] for r in readings], prog),
            'tags': tags,
        }

    # ---- generators -------------------------------------------------------
    wide = False

    STRS = ['a', 'abc', '', 'x y', 'é', 'nan?', 'None', '1a']

    def number(self, rng, cls):
        if cls == 'small':
            return rng.randint(-6, 6)
        if cls == 'medium':
            return rng.randint(-10 ** 6, 10 ** 6)
        if cls == 'big':
            return rng.choice([1, -1]) * (2 ** rng.choice([53, 53, 54, 57]) + rng.randint(-3, 3))
        if cls == 'dyadic':
            return rng.randint(-400, 400) / rng.choice([2, 4, 8, 16])
        if cls == 'decimal':
            return rng.randint(-999, 999) / 10.0 + rng.choice([0.0, 0.01, 0.003])
        if cls == 'huge':
            return rng.choice([1, -1]) * rng.uniform(1, 10) * 10.0 ** rng.choice([15, 15, 22, 22, 22, 30] + ([60, 100] if self.wide else []))
        if cls == 'tiny':
            return rng.choice([1, -1]) * rng.uniform(1, 10) * 10.0 ** rng.choice([-8, -5, -5, -3, -12] + ([-30, -100] if self.wide else []))
        raise AssertionError(cls)

    def numbers(self, rng, maxlen):
        n = rng.choice([0, 1, 2, 2, 3, 3, 4, 4, 5, 5, 6, 6, 7, 8] + list(range(9, maxlen + 1)))
        mix = rng.choice([['small'], ['small'], ['small', 'dyadic'], ['medium'], ['small', 'medium', 'dyadic'],
                          ['decimal'], ['decimal', 'small'], ['big'], ['big', 'small'], ['dyadic'], ['small'],
                          ['medium', 'dyadic'], ['small', 'dyadic'], ['medium'], ['big', 'medium'], ['decimal', 'medium'],
                          ['huge'], ['tiny'], ['huge', 'decimal'], ['tiny', 'small']])
        if mix[0] in ('huge', 'tiny'):          # 700-bit rationals are expensive to normalise inside Coq: keep them few and short
            n = min(n, 5)
        out = [self.number(rng, rng.choice(mix)) for _ in range(n)]
        if out and rng.random() < 0.4:          # repeats
            for _ in range(rng.randint(1, 3)):
                if len(out) < maxlen:
                    out.insert(rng.randrange(len(out) + 1), rng.choice(out))
        return out

    def modest(self, rng, kind, maxlen=8):
        """a short list of modest numbers for the program families (so that arithmetic steps stay in range)"""
        n = rng.choice([2, 3, 3, 4, 4, 5, 5, 6, 7, maxlen])
        mix = rng.choice([['small'], ['small'], ['medium'], ['small', 'medium']] +
                         ([] if kind == 'KInt' else [['small', 'dyadic'], ['decimal'], ['dyadic', 'medium'], ['decimal', 'small']]))
        out = [self.number(rng, rng.choice(mix)) for _ in range(n)]
        if rng.random() < 0.4:
            out[rng.randrange(n)] = out[rng.randrange(n)]
        if kind != 'KInt':
            for _ in range(rng.choice([0, 0, 1, 2])):
                out.insert(rng.randrange(len(out) + 1), self.junk(rng, kind))
        return out

    def junk(self, rng, kind):
        r = rng.random()
        if r < 0.4:
            return float('nan')
        if r < 0.7:
            return None
        return rng.choice(self.STRS)

    def orders(self, rng, vals, k):
        outs = [list(vals)]
        cands = [list(reversed(vals)), sorted(vals, key=lambda v: (0, v) if is_num(v) else (1, 0)),
                 rng.sample(vals, len(vals))]
        for c in cands[:k - 1]:
            outs.append(c)
        return outs

    def case(self, kind, vals, tags, may_reject=False, prog=None, cross=False):
        inp = {'kind': kind, 'vals': enc_list(vals), 'tags': tags}
        if prog:
            inp['prog'] = prog
        if cross:
            inp['cross'] = cross          # True: the other column types; 'all': and a fresh column of the same type
        if may_reject:
            inp['may_reject'] = True
        return self.rerun(inp)

    # ---- programs -----------------------------------------------------------
    def value_for(self, rng, kind):
        return rng.choice([0, 1000, -3, rng.randint(-50, 50)] + ([] if kind == 'KInt' else [2.5, float('nan'), None, 'zz']))

    XINT = {'-': [100, -3, 1, 7, 0], '+': [100, -3, 1, 7], '*': [2, -1, 3, 10],
            '/': [7, 24, 29, 100, -13, 1, 1000003, 30], '//': [7, 24, 29, 100, -13, 1000003], '%': [7, 29, 100, -13, 1000003]}
    XFLT = {'-': [0.5, 2.5, -1.5, 100.25], '+': [0.5, 2.5, -1.5], '*': [0.5, 2.5, -1.5],
            '/': [7.5, 0.5, -2.25, 100.0, 1000000.5], '//': [7.5, 0.5, -2.25, 100.0], '%': [7.5, 0.5, -2.25, 100.0]}

    def free_arith(self, rng, r, opn=None, side=None, xt=None):
        """one operator applied to the column read at the moment, the result kept as a FREE column (never inserted):
        col OP x, the REFLECTED x OP col (x an int, a float, or one number per row), for OP in + - * / // % **"""
        col = r.rcol()
        n = len(col)
        nums = [q for q in (cell_q(plain(c)) for c in col) if q is not None]
        if any(abs(q) >= 2 ** 40 for q in nums):
            return ['colslice', 0, n]
        opn = opn or rng.choice(['-', '/', '/', '//', '%', '**', '+', '*'])
        side = side or rng.choice(['r', 'r', 'l'])
        xt = xt or rng.choice(['int', 'float', 'int', 'float', 'seq'])
        if opn == '**':
            # x ** col: the cells are the exponents; col ** x: the cells are the bases
            if side == 'r' and all(abs(q) <= 12 for q in nums):
                x = rng.choice([2, 3, -2, 10]) if xt != 'float' else rng.choice([0.5, 2.5, 1.5, 4.0])
            elif side == 'l' and all(abs(q) <= 1000 for q in nums):
                x = rng.choice([2, 3, 0, 1]) if xt != 'float' else rng.choice([2.0, 0.5, 3.0])
            else:
                opn, x = '-', 100
            return ['farith', opn, side, enc_x(x)]
        if xt == 'seq' and n:
            pool = self.XINT[opn] if rng.random() < 0.6 else self.XFLT[opn]
            x = tuple(rng.choice(pool) for _ in range(n))
            if side == 'l' and opn in ('/', '//', '%'):
                x = tuple(v or 3 for v in x)
        else:
            x = rng.choice(self.XINT[opn] if xt != 'float' else self.XFLT[opn])
            if side == 'l' and opn in ('/', '//', '%') and not x:
                x = 3
        return ['farith', opn, side, enc_x(x)]

    def free_iop(self, rng, r):
        """c = <column>; c OP= x  (no in-place methods exist: the name is re-bound to the operator's result)"""
        col = r.rcol()
        nums = [q for q in (cell_q(plain(c)) for c in col) if q is not None]
        if any(abs(q) >= 2 ** 40 for q in nums):
            return ['colslice', 0, len(col)]
        opn = rng.choice(['+', '-', '*', '/', '/', '//', '%'])
        x = rng.choice(self.XINT[opn] if rng.random() < 0.6 else self.XFLT[opn]) or 3
        return ['fiop', opn, enc_x(x)]

    def refuse_step(self, rng, r, form=None, vclass=None):
        """a write the column under test refuses (mostly): form x value class chosen for the column's present type"""
        col = r.wcol()
        kind = kind_of(col)
        n = len(col)
        form = form or rng.choice(R_FORMS)
        if vclass is None:
            vclass = rng.choice(['overflow', 'overflow', 'type', 'any'] if kind == 'KInt' else ['any'])
        pool = R_OVERFLOW if vclass == 'overflow' else R_TYPE_INT if vclass == 'type' else R_TYPE_ANY
        if kind != 'KInt' and vclass != 'any':
            pool = R_TYPE_ANY
        a = rng.randrange(n) if n else 0
        return ['refuse', form, [a, rng.randint(a + 1, n) if n else 0], rng.choice(pool)]

    def pick(self, rng, r, family):
        """one admissible step for the current state of the runner r; family in derive | mutate | detach"""
        n = len(r.dm)
        col = r.wcol()
        kind = kind_of(col)
        enc = pyobs.enc
        if family in ('detach', 'free'):
            # free columns: the result of `col @ f`, of column arithmetic, a column slice / selection -- never inserted
            # into the table, so their cells keep the type the operation produced
            n = len(r.rcol())
            o = rng.choice(['mapfree', 'mapfree', 'colslice', 'colrows', 'colsel', 'farith', 'farith'] +
                           (['set', 'set', 'set'] if family == 'free' else []))
            if o == 'mapfree':
                return ['mapfree', rng.choice(EXOTIC + EXOTIC + PLAINF[:3] + TEXTF)]
            if o == 'colslice':
                a = rng.randint(0, n)
                return ['colslice', a, rng.randint(a, n)]
            if o == 'colrows':
                return ['colrows', [rng.randrange(n) for _ in range(rng.randint(0, n))] if n else []]
            if o == 'colsel':
                return ['colsel', rng.randint(0, max(n - 1, 0))]
            if o == 'farith' and rng.random() < 0.4:
                return self.free_arith(rng, r)
            if o == 'farith':
                if kind == 'KInt' and not all(abs(int(x)) < 2 ** 40 for x in r.rcol()):
                    return ['colslice', 0, n]
                opn = rng.choice(['+', '-', '*'])
                x = rng.choice([np.int64(2), np.int64(-1), np.int32(3), np.float64(0.5), np.float32(1.5), Fraction(1, 3),
                                Fraction(2), True, 1, 2, 0.5])
                return ['farith', opn, rng.choice(['l', 'r']), enc_x(x)]
            path = rng.choice(['int', 'slice', 'list', 'sel', 'all', 'allk', 'array']) if n else 'all'
            v = self.value_for(rng, kind)
            if path == 'array' and type(v) not in (int, float):
                v = 7
            if path == 'int':
                where = rng.randrange(n)
            elif path == 'slice':
                a = rng.randrange(n)
                where = [a, rng.randint(a + 1, n)]
            elif path == 'list':
                where = sorted(rng.sample(range(n), rng.randint(1, min(3, n))))
            elif path == 'sel':
                where = rng.randint(0, n)
            else:
                where = 0
            return ['set', path, where, enc(v)]
        ks = sorted(int(x) for x in r.dm.k)
        thr = rng.choice(ks) if ks else 0
        small_int = kind != 'KInt' or all(abs(int(x)) < 2 ** 40 for x in col)
        derive = ['select', 'select', 'setop', 'sort', 'shuffle', 'slice', 'rows', 'resize', 'resize', 'concat', 'concat',
                  'delrow', 'rename', 'alias', 'copy', 'map', 'map', 'map_', 'arith', 'iop', 'replace']
        mutate = ['set', 'set', 'set', 'set', 'resize', 'resize', 'resize', 'delrow', 'delrow', 'whole', 'wholescalar',
                  'wholecol', 'iop', 'iop', 'arith', 'rename', 'alias', 'alias', 'concat', 'replace', 'map', 'select',
                  'sort', 'shuffle', 'slice', 'setop', 'recreate', 'retype']
        o = rng.choice(derive if family == 'derive' else mutate)
        if o == 'select':
            return ['select', thr, rng.choice(['ge', 'lt'])]
        if o == 'setop':
            return ['setop', rng.choice(['|', '&', '^']), thr, rng.choice(ks) if ks else 0]
        if o == 'sort':
            return ['sort', rng.choice(['c', 'k'])]
        if o == 'shuffle':
            return ['shuffle', rng.randrange(1000)]
        if o == 'slice':
            a = rng.randint(0, n)
            return ['slice', a, rng.randint(a, n)]
        if o == 'rows':
            return ['rows', [rng.randrange(n) for _ in range(rng.randint(1, n))] if n else []]
        if o == 'resize':
            return ['resize', max(0, n + rng.choice([1, 2, 3, 1, 2, -1, -2, -n]))]
        if o == 'concat':
            v2 = self.modest(rng, kind, 4)
            f2 = rng.choice([None, None] + EXOTIC) if kind == 'KMixed' else None
            return ['concat', enc_list(v2), f2, rng.choice(['after', 'after', 'before'])]
        if o == 'delrow':
            return ['delrow', rng.randrange(n)] if n else ['copy']
        if o == 'rename':
            return ['rename', rng.choice(['d', 'e', 'renamed'])]
        if o == 'alias':
            return ['alias', rng.choice(['b', 'z']), rng.choice(['read-alias', 'write-alias'])]
        if o == 'copy':
            return ['copy']
        if o in ('map', 'map_'):
            return [o, rng.choice(EXOTIC if rng.random() < 0.7 else PLAINF)]
        if o in ('arith', 'iop'):
            if not small_int:
                return ['copy']
            opn = rng.choice(['+', '-', '*'] + (['/'] if kind != 'KInt' else []))
            x = rng.choice([1, 2, 3, -1, 10, np.int64(2)] + ([] if kind == 'KInt' else [0.5, 2.0, np.float64(0.5), Fraction(1, 2)]))
            if o == 'iop':
                return ['iop', opn, enc_x(x)]
            return ['arith', opn, 'l' if opn == '/' else rng.choice(['l', 'r']), enc_x(x)]
        if o == 'replace':
            cands = [x for x in col if type(x) in (int, float) and x == x]
            return ['replace', enc(rng.choice(cands) if cands else 0), enc(self.value_for(rng, 'KInt'))]
        if o == 'set':
            path = rng.choice(['int', 'slice', 'list', 'sel', 'row', 'all', 'allk', 'array'])
            v = self.value_for(rng, kind)
            if n == 0 and path in ('int', 'row', 'list', 'slice'):
                path = 'all'
            if path == 'array' and type(v) not in (int, float):
                v = 7
            if path in ('int', 'row'):
                where = rng.randrange(n)
            elif path == 'slice':
                a = rng.randrange(n)
                where = [a, rng.randint(a + 1, n)]
            elif path == 'list':
                where = sorted(rng.sample(range(n), rng.randint(1, min(3, n))))
            elif path == 'sel':
                where = thr
            else:
                where = 0
            return ['set', path, where, enc(v)]
        if o == 'whole':
            return ['whole', enc_list([self.value_for(rng, kind) for _ in range(n)])]
        if o == 'wholescalar':
            return ['wholescalar', enc(self.value_for(rng, kind))]
        if o == 'wholecol':
            return ['wholecol', rng.choice(['ref', 'copy', 'derived'])]
        if o == 'recreate':
            k2 = rng.choice([kind, kind, 'KInt', 'KFloat', 'KMixed'])
            return ['recreate', k2, enc_list([self.value_for(rng, k2) for _ in range(n)])]
        if o == 'retype':
            return ['retype', rng.choice(KINDS)]
        raise AssertionError(o)

    def program(self, rng, kind, vals, shape):
        """build a program step by step on the implementation (so that every step is admissible in the state it is
        applied to); returns the list of steps, or None when a step raised.
        shape: list of families, 'read' entries are explicit readings"""
        prog = []
        with warnings.catch_warnings():
            warnings.simplefilter('ignore')
            try:
                r = Runner(kind, vals)
                for fam in shape:
                    if fam == 'read':
                        op = ['read']
                    elif isinstance(fam, list):
                        op = fam
                    elif fam.startswith('map:'):
                        op = ['map', fam[4:]]
                    elif fam.startswith('farith'):       # 'farith' or 'farith:<op>:<side>:<operand class>'
                        op = self.free_arith(rng, r, *fam.split(':')[1:])
                    elif fam == 'fiop':
                        op = self.free_iop(rng, r)
                    elif fam.startswith('refuse'):       # 'refuse' or 'refuse:<form>:<value class>'
                        op = self.refuse_step(rng, r, *fam.split(':')[1:])
                    else:
                        op = self.pick(rng, r, fam)
                    r.apply(op)
                    prog.append(op)
                    if not INCLUDE_PENDING_FINDINGS and pending_finding_state(r.rcol()):
                        return None
                r.read()
            except Exception:       # noqa: BLE001 -- not admissible on this tree (or outside the classified universe)
                return None
        return prog

    def generate(self, rng, tier):
        quick = tier == 'quick'
        self.wide = not quick        # magnitudes 1e60 / 1e-100: 700-bit rationals, expensive to normalise inside Coq
        cases = []
        seen = set()

        def push(c):
            if c is not None and c['sig'] not in seen:
                seen.add(c['sig'])
                cases.append(c)

        def add(kind, vals, tags, prog=None, cross=False):
            push(self.case(kind, vals, tags, prog=prog, cross=cross))

        # 1. small alphabet, all short lists
        alpha = [0, 1, -2, 2.5, float('nan'), 'a', None]
        import itertools
        for n in range(0, 3 if quick else 4):
            for tup in itertools.product(alpha, repeat=n):
                add('KMixed', list(tup), ['alphabet'])
                if n <= 2 or rng.random() < 0.3:
                    add('KFloat', list(tup), ['alphabet'])
                if all(type(v) is int for v in tup):
                    add('KInt', list(tup), ['alphabet'])
        # 2. random multisets x kinds x row orders
        reps = 100 if quick else 1500
        maxlen = 12 if quick else 40
        for _ in range(reps):
            base = self.numbers(rng, maxlen)
            njunk = rng.choice([0, 0, 1, 2, 3, 5])
            mixed = list(base)
            for _j in range(njunk):
                mixed.insert(rng.randrange(len(mixed) + 1), self.junk(rng, 'KMixed'))
            norders = 4 if rng.random() < 0.5 else 2
            for vals in self.orders(rng, mixed, norders):
                add('KMixed', vals, ['random'])
                add('KFloat', vals, ['random'])
            if all(type(v) is int for v in base):
                for vals in self.orders(rng, base, norders):
                    add('KInt', vals, ['random'])
            else:
                for vals in self.orders(rng, base, 2):
                    add('KFloat', vals, ['random', 'numbers-only'])
        # 3. exactly representable standard deviations
        for _ in range(40 if quick else 400):
            a = rng.randint(-50, 50) / rng.choice([1, 1, 2, 4])
            d = rng.randint(0, 12) / rng.choice([1, 1, 2])
            shape = rng.choice(['ap3', 'const', 'quad'])
            if shape == 'ap3':
                vals = [a, a + d, a + 2 * d]
            elif shape == 'const':
                vals = [a] * rng.randint(2, 7)
            elif rng.random() < 0.5:
                vals = [a, a, a, a + 4 * d]                       # var = 4 d^2
            else:
                vals = [a - 3 * d, a + 3 * d] * 3 + [a] * 4       # n = 10, var = 54 d^2 / 9 ... not a square: tolerance path
            vals = [int(v) if float(v).is_integer() else float(v) for v in vals]
            rng.shuffle(vals)
            for j in range(rng.choice([0, 0, 1, 2])):
                vals.insert(rng.randrange(len(vals) + 1), self.junk(rng, 'KMixed'))
            add('KMixed', vals, ['exact-std'])
            add('KFloat', vals, ['exact-std'])
            if all(type(v) is int for v in vals):
                add('KInt', vals, ['exact-std'])
        # 6. large offset, small spread (ill-conditioned for one-pass variance formulas), all column types + agreement
        fixed = [[10 ** 8 + d for d in (0, 1, 2, 3)], [100000001, 100000002, 100000003, 100000005],
                 [1700000000000 + d for d in (1, 4, 9, 16, 25, 36)], [1700000000000.0 + d for d in (0.5, 1.0, 2.25, 7.0)],
                 [-(2 ** 40) + d for d in (0, 3, 3, 7, 11)], [-(2 ** 40) - 0.5, -(2 ** 40) + 1, -(2 ** 40) + 2.5],
                 [1e12, 1e12 + 1, 3, 4, 5], [2 ** 52, 2 ** 52 + 1, 2 ** 52 + 2], [1e15 + 2, 1e15 + 4, 1e15 + 8, 0.5],
                 [1e8 + 0.1, 1e8 + 0.2, 1e8 + 0.3], [123456789012, 123456789013], [4e9, 4e9 + 1, 4e9 + 1, 4e9 + 2, -4e9]]
        offs = []
        for vals in fixed:
            offs.append([int(v) if float(v).is_integer() and abs(v) < 2 ** 62 else float(v) for v in vals])
        for _ in range(45 if quick else 500):
            off = rng.choice([10 ** 6, 10 ** 6, 10 ** 7, 10 ** 8, 10 ** 9, 10 ** 10, 10 ** 12, 1700000000000, 2 ** 40]) \
                * rng.choice([1, 1, 3, -1]) + rng.randint(0, 999)
            spread = rng.choice([1, 2, 3, 4, 10, 30, 100])
            n = rng.randint(3, 8)
            if rng.random() < 0.5:
                vals = [off + rng.randint(0, spread) for _i in range(n)]
            else:
                vals = [float(off) + rng.randint(0, spread * 8) / 8.0 + rng.choice([0.0, 0.0, 0.3]) for _i in range(n)]
                vals = [int(v) if v.is_integer() else v for v in vals]
            if rng.random() < 0.5:
                vals[rng.randrange(n)] = vals[rng.randrange(n)]        # a repeat
            if rng.random() < 0.15:
                vals[rng.randrange(n)] = rng.choice([0, 1, -5, 2.5])   # mixed magnitudes
            if max(vals) == min(vals):
                vals[0] = vals[0] + 1
            offs.append(vals)
        for vals in offs:
            n = len(vals)
            allint = all(type(v) is int for v in vals)
            for kind in KINDS:
                if kind == 'KInt' and not allint:
                    continue
                v2 = list(vals)
                if kind != 'KInt' and rng.random() < 0.3:
                    v2.insert(rng.randrange(n + 1), self.junk(rng, kind))
                add(kind, v2, ['offset-spread'], cross=kind == 'KMixed')
        # 7. columns whose cells were stored without the type check: mapped (NumPy scalars, Fractions, Decimals, bools),
        #    then derived further; a single final reading
        for i in range(220 if quick else 2200):
            kind = 'KMixed' if rng.random() < 0.8 else rng.choice(['KFloat', 'KInt'])
            vals = self.modest(rng, kind)
            f = (EXOTIC + TEXTF)[i % len(EXOTIC + TEXTF)]
            mf = ['mapfree', f]
            shape = rng.choice([[mf], [mf], [mf], ['derive', mf], ['derive', 'derive', mf], [mf, 'free'], [mf, 'free'],
                                [mf, 'free', 'free'], ['derive', mf, 'free'], ['detach'], ['detach', 'free'],
                                ['derive', 'detach', 'free'], ['map:' + f], ['map:' + f, 'derive'],
                                ['derive', 'map:' + f, 'derive', 'detach'], ['derive', 'derive'],
                                ['derive', 'derive', 'derive', 'detach']])
            prog = self.program(rng, kind, vals, shape)
            if prog is not None:
                add(kind, vals, ['unchecked-cells'], prog=prog)
        # 5. statistics read, column modified through each route, statistics read again (every reading is judged)
        for i in range(260 if quick else 2600):
            kind = KINDS[i % 3]
            vals = self.modest(rng, kind)
            if kind == 'KInt' and rng.random() < 0.3:
                vals = [v for v in vals if v != 0] or [4, 8]          # grown IntColumn cells are 0: make them matter
            k = rng.choice([1, 1, 1, 2, 2, 3])
            shape = []
            if kind == 'KMixed' and rng.random() < 0.3:
                shape.append('map:' + rng.choice(EXOTIC))
            elif rng.random() < 0.2:
                shape.append('derive')
            for _e in range(k):
                shape += ['read', 'mutate']
            if rng.random() < 0.15:
                shape += ['read', 'detach']
            if rng.random() < 0.2:        # the same on a free column: read, write cells of it, read again
                shape = [['mapfree', rng.choice(EXOTIC)]] if kind == 'KMixed' else ['detach']
                for _e in range(k):
                    shape += ['read', 'free']
            prog = self.program(rng, kind, vals, shape)
            if prog is not None:
                add(kind, vals, ['read-modify-read'], prog=prog)
        # 8. DETACHED results of operators -- col OP x and the REFLECTED x OP col for + - * / // % **, x an int, a float or
        #    one number per row -- of chained and of augmented (c OP= x) arithmetic, on every column type: the statistics
        #    are read from the result object itself (before it is assigned anywhere) and must be those of the cells AS
        #    READ from that object, and those of fresh columns of every type (also the same one) holding these cells;
        #    then the result is written to / inserted into the table and read again
        combos = [(o, sd, xt) for o in ('/', '-', '//', '%', '**', '+', '*') for sd in ('r', 'l') for xt in ('int', 'float', 'seq')]
        combos += [(o, 'r', xt) for o in ('/', '-', '//', '%', '**') for xt in ('int', 'float')]     # the reflected ones twice
        combos += [('/', 'r', xt) for xt in ('int', 'float', 'seq')]      # no column type overrides reflected true division
        nfree = (3 * len(combos)) if quick else 30 * len(combos)
        for i in range(nfree):
            kind = KINDS[i % 3]
            o, sd, xt = combos[(i // 3) % len(combos)]
            vals = self.modest(rng, kind, 6)
            if kind == 'KInt' or rng.random() < 0.5:           # divisors / moduli: mostly without zeros
                vals = [v for v in vals if v != 0] or [2, 4, 3, -6, 12]
            if o == '**':
                vals = [rng.choice([0, 1, 2, 3, 5, -1, -2] + ([] if kind == 'KInt' else [0.5, 1.5])) if is_num(v) else v for v in vals]
            fa = 'farith:%s:%s:%s' % (o, sd, xt)
            shape = [[fa], [fa], [fa], [fa, 'farith'], [fa, 'fiop'], ['derive', fa], [fa, 'read', 'free'],
                     [fa, 'read', ['insert']], [fa, 'fiop', 'read', ['insert'], 'read', 'mutate'],
                     ['farith', fa]][rng.choice([0, 0, 0, 1, 2, 3, 4, 5, 5, 6, 7, 8, 9])]
            prog = self.program(rng, kind, vals, shape)
            if prog is not None:
                add(kind, vals, ['detached-operator-result'], prog=prog, cross='all')
        # 9. cells near the int64 / binary64-integer limits: each cell is an int64 value, but the total (or the sum of
        #    squares, or a partial sum) is not an int64 / not an exact binary64 value: mean, median, std, min, max (and sum,
        #    unless an IntColumn's exact total leaves int64 -- see INCLUDE_PENDING_FINDINGS) in all three column types
        edges = [[2 ** 62] * 3, [2 ** 62, -2 ** 62, 2 ** 62, 5], [2 ** 53 + 1] * 4, [2 ** 62 + 2 ** 61, 2 ** 62, 1, 1],
                 [-2 ** 62, -2 ** 62 + 2, -2 ** 62 + 4, 6], [2 ** 63 - 1] * 2, [2 ** 63 - 1, -2 ** 63], [-2 ** 63] * 2,
                 [3037000500] * 3, [2 ** 32 + 1] * 5, [2 ** 31, 2 ** 31, -2 ** 31], [2 ** 53 + 1, 2 ** 53 + 1, -(2 ** 53 + 1)],
                 [2 ** 53 + 1, 2 ** 53 - 1], [2 ** 62, 2 ** 62, -2 ** 62, -2 ** 62], [2 ** 62, 2 ** 62, -2 ** 62],
                 [2 ** 61] * 4 + [1], [-2 ** 62] * 2 + [-1]]
        for _ in range(24 if quick else 400):
            n = rng.choice([2, 3, 3, 4, 5, 6])
            ks = rng.choice([[62], [62, 61], [61, 60], [53], [53, 52], [31, 32], [62, 3], [63], [63, 62], [53, 62]])
            vals = []
            for _i in range(n):
                k = rng.choice(ks)
                v = (2 ** 63 - 1 - rng.choice([0, 0, 1, 5])) if k == 63 else 2 ** k + rng.choice([0, 0, 1, -1, 2, 3])
                vals.append(v * rng.choice([1, 1, -1]) if k != 63 or rng.random() < 0.7 else -2 ** 63)
            if rng.random() < 0.3:
                vals[rng.randrange(n)] = vals[rng.randrange(n)]
            if rng.random() < 0.3:
                vals = [abs(v) for v in vals]
            edges.append(vals)
        for vals in edges:
            for j, vs in enumerate(self.orders(rng, vals, 2)):
                add('KInt', vs, ['int64-edge'], cross=j == 0)
            add('KMixed', vals, ['int64-edge'])
            add('KFloat', vals, ['int64-edge'])
            if rng.random() < 0.35:
                v2 = list(vals)
                v2.insert(rng.randrange(len(v2) + 1), self.junk(rng, 'KMixed'))
                add(rng.choice(['KMixed', 'KFloat']), v2, ['int64-edge'])
            if rng.random() < 0.35:            # reached through a derivation / read again after a modification
                prog = self.program(rng, 'KInt', vals, rng.choice([['derive'], ['read', 'mutate'], ['detach']]))
                if prog is not None:
                    add('KInt', vals, ['int64-edge'], prog=prog)
        # 10. statistics read after REFUSED writes: a value the column cannot hold (beyond int64: OverflowError; text / None /
        #     nan / inf into an IntColumn, objects / nested sequences / dicts / sets / bytes into any column: TypeError /
        #     ValueError) or a sequence of the wrong length, through every write form (whole column list / scalar, col[:],
        #     slice, int, index list, selection, Row, NumPy array, a column of another table), on each column type -- on
        #     IntColumns whose exact total leaves int64 in particular.  The write raises, the cells are read again: every
        #     statistic must be that of the cells held then, and bit-identical to the reading before when the cells are
        #     unchanged; the column is then used further (derived, mutated, detached)
        combos = [('KInt', f, vc) for f in R_FORMS for vc in ('overflow', 'type', 'any')]
        combos += [('KInt', f, 'overflow') for f in ('whole', 'wholescalar', 'all', 'alllist', 'slice', 'slicelist', 'array', 'colobj')]
        combos += [(k, f, 'any') for k in ('KFloat', 'KMixed') for f in R_FORMS]
        for i in range(len(combos) * (2 if quick else 12)):
            kind, form, vc = combos[i % len(combos)]
            if kind == 'KInt' and rng.random() < 0.6:
                vals = list(rng.choice(R_BIGTOTAL))
                rng.shuffle(vals)
            else:
                vals = self.modest(rng, kind, 6)
            rf = 'refuse:%s:%s' % (form, vc)
            shape = rng.choice([[rf], [rf], ['read', rf], ['read', rf], ['read', rf, 'read', 'refuse'], [rf, 'read', 'mutate'],
                                [rf, 'derive'], [rf, 'detach'], ['derive', rf], ['mutate', 'read', rf], ['detach', 'read', rf],
                                [rf, 'refuse', 'read', 'mutate']])
            prog = self.program(rng, kind, vals, shape)
            if prog is not None:
                add(kind, vals, ['refused-write'], prog=prog, cross=(i % 4 == 0))
        # 4. outside the quantifier: infinities
        for _ in range(30 if quick else 300):
            base = self.numbers(rng, 6)
            for _j in range(rng.randint(1, 2)):
                base.insert(rng.randrange(len(base) + 1), rng.choice([float('inf'), float('-inf')]))
            if rng.random() < 0.5:
                base.insert(rng.randrange(len(base) + 1), self.junk(rng, 'KMixed'))
            add(rng.choice(['KMixed', 'KFloat']), base, ['infinities'])
        return cases

    def search(self, rng, tier, broken):
        """a proof / translation / model broke: boundary inputs around the kernels' constants (lengths 0..5,
        even/odd, neighbours of the median index), then the thorough generator"""
        out = []
        seen = set()
        for n in range(0, 6):
            for _ in range(60):
                vals = [rng.choice([0, 1, 2, 3, 5, 8, -7, 2.5, 10]) for _i in range(n)]
                for kind in KINDS:
                    if kind == 'KInt' and not all(type(v) is int for v in vals):
                        continue
                    extra = [] if kind == 'KInt' else rng.choice([[], [float('nan')], [None, 'a']])
                    v2 = vals + extra
                    rng.shuffle(v2)
                    c = self.case(kind, v2, ['search'])
                    if c is not None and c['sig'] not in seen:
                        seen.add(c['sig'])
                        out.append(c)
        out.extend(self.generate(rng, 'thorough' if tier == 'thorough' else 'quick'))
        return out

    def shrink_candidates(self, inp):
        vals = inp['vals']
        prog = inp.get('prog', [])
        base = {'kind': inp['kind'], 'tags': inp.get('tags', []), 'may_reject': True}
        if inp.get('cross'):
            base['cross'] = inp['cross']
        for i in range(len(prog)):                      # drop a step (a reading or a modification)
            yield dict(base, vals=vals, prog=prog[:i] + prog[i + 1:])
        for i, op in enumerate(prog):                   # simpler written values
            if op[0] == 'set' and pyobs.dec(op[3]) != 1000:
                yield dict(base, vals=vals, prog=prog[:i] + [op[:3] + [pyobs.enc(1000)]] + prog[i + 1:])
        for i in range(len(vals)):
            yield dict(base, vals=vals[:i] + vals[i + 1:], prog=prog)
        for i, v in enumerate(vals):
            d = pyobs.dec(v)
            if is_num(d) and d not in (0, 1, 2, 3):
                for small in (0, 1, 2, 3, int(d) if abs(d) < 1e6 else 5):
                    if small != d:
                        yield dict(base, vals=vals[:i] + [pyobs.enc(small)] + vals[i + 1:], prog=prog)
        if inp['kind'] != 'KMixed' and not prog:
            yield dict(base, kind='KMixed', vals=vals)

    def key(self, case):
        o = case.get('observed') or {}
        cells = [str(d.get('v', d['t'])) + ('' if d['t'] in ('int', 'float', 'str', 'none') else ':' + d.get('dtype', d['t']))
                 for d in o.get('cells', [])]
        prog = case['input'].get('prog')
        return 'stats kind=%s cells=%s%s failing=%s' % (
            o.get('kind', case['input']['kind']), ','.join(cells),
            (' program=' + ';'.join(op[0] + (':' + str(op[1]) if op[0] in ('set', 'map', 'map_', 'mapfree') else '')
                                    for op in prog)) if prog else '',
            ','.join(o.get('py_verdict', [])) or 'unique/count/coq-side')


PROP = C12()
