"""C10 -- sorting permutes rows into the documented total order (Props/C10.v)."""
import json
import math
import warnings

import numpy as np

import coqlit as L
import pyobs

KINDS = ['KMixed', 'KFloat', 'KInt']
NAN, INF = float('nan'), float('inf')


def coltype(kind):
    from datamatrix import MixedColumn, FloatColumn, IntColumn
    return {'KMixed': MixedColumn, 'KFloat': FloatColumn, 'KInt': IntColumn}[kind]


def kindof(col):
    from datamatrix import MixedColumn, FloatColumn, IntColumn
    t = type(col)
    return {MixedColumn: 'KMixed', FloatColumn: 'KFloat', IntColumn: 'KInt'}.get(t)


def plain(v):
    if isinstance(v, np.floating):
        return float(v)
    if isinstance(v, np.integer):
        return int(v)
    return v


def vals_lit(vs):
    lits = [pyobs.val(v) for v in vs]
    if any(l is None for l in lits):
        return None
    return L.lst(lits)


def ids_lit(ids):
    return L.lst(L.N(i) for i in ids)


def nats_lit(ps):
    return L.lst(L.nat(p) for p in ps)


class Bad(object):
    """a cell the dump could not read as a plain value (pyobs.val gives None for it, so the case is reported)"""

    def __init__(self, what):
        self.what = what

    def __repr__(self):
        return '<%s>' % self.what


def is_series(col):
    from datamatrix._datamatrix._seriescolumn import _SeriesColumn
    return isinstance(col, _SeriesColumn)


def col_entries(name, col):
    """[(name, kind, column row ids, plain values)].  A plain column is one entry.  A SeriesColumn of depth d is read
    as in Spec/SeriesEnc.v: d FloatColumn pseudo-columns name#0 .. name#(d-1) (sample j of every row), preceded by an
    IntColumn pseudo-column name# that holds d in every row (so that 'is still a series of that depth' is part of
    what is compared, also for depth 0).  `#` cannot occur in a column name.  A series column whose data is not a
    float64 array of shape (rows, depth) is dumped as one Bad cell per row."""
    if not is_series(col):
        return [(name, kindof(col), [int(i) for i in col._rowid], [plain(v) for v in col])]
    from datamatrix._datamatrix._seriescolumn import _SeriesColumn
    rid = [int(i) for i in col._rowid]
    try:
        seq, d = col._seq, col._depth
        shape = getattr(seq, 'shape', None)
        ok = type(col) is _SeriesColumn and isinstance(seq, np.ndarray) and seq.dtype == np.float64 and \
            type(d) is int and shape == (len(rid), d) and len(col) == len(rid) and col.depth == d
    except Exception as e:                  # noqa: BLE001
        ok, shape = False, repr(e)
    if not ok:
        return [(name + '#', 'KInt', rid, [Bad('series column %s of depth %r has data of shape %r' % (
            name, getattr(col, '_depth', None), shape))] * max(1, len(rid)))]
    out = [(name + '#', 'KInt', rid, [d] * len(rid))]
    for j in range(d):
        out.append(('%s#%d' % (name, j), 'KFloat', rid, [float(x) for x in seq[:, j]]))
    return out


def snap(dm):
    """(row ids, [(name, kind, column row ids, plain values)])"""
    ids = [int(i) for i in dm._rowid]
    cols = []
    for name, col in dm.columns:
        cols.extend(col_entries(name, col))
    return ids, cols


def parts_of(cols, name):
    """the entries of column `name` in a dump (one for a plain column, 1 + depth for a series)"""
    return [(n, k, r, v) for n, k, r, v in cols if n == name or n.startswith(name + '#')]


def row_keys(parts):
    """one comparable key per row over all entries of a column (bit-exact: Coq literals)"""
    return [tuple(pyobs.val(x) for x in row) for row in zip(*[v for _, _, _, v in parts])]


def bad_cells(v):
    b = [x for x in v if isinstance(x, Bad)]
    return (': %r' % b[0]) if b else ''


def snap_key(s):
    ids, cols = s
    return (tuple(ids), tuple((n, k, tuple(r), vals_lit(v)) for n, k, r, v in cols))


def mcol_lit(kind, rowid, vals):
    return '{| ckind := %s; crowid := %s; cseq := %s |}' % (kind, ids_lit(rowid), vals_lit(vals))


def mdm_lit(s):
    ids, cols = s
    return '{| drowid := %s; dcols := %s |}' % (
        ids_lit(ids), L.lst('(%s, %s)' % (L.string(n), mcol_lit(k, r, v)) for n, k, r, v in cols))


def doc_key(v):
    """the documented order, written independently (used only to find a witness permutation,
    which Coq then checks)"""
    if v is None:
        return (2, 0)
    if isinstance(v, float) and math.isnan(v):
        return (3, 0)
    if isinstance(v, str):
        return (1, v)
    return (0, v)


def find_witness(byvals, objkeys, reskeys):
    """positions p with: by-values non-decreasing along p and [objkeys[i] for i in p] == reskeys; None if none
    (objkeys / reskeys: one comparable key per row, see row_keys)"""
    n = len(byvals)
    if len(objkeys) != n or len(reskeys) != n:
        return None
    order = sorted(range(n), key=lambda i: doc_key(byvals[i]))
    p = []
    i = 0
    while i < n:
        j = i
        while j < n and doc_key(byvals[order[j]]) == doc_key(byvals[order[i]]):
            j += 1
        pool = order[i:j]
        for out in range(i, j):
            want = reskeys[out]
            hit = None
            for s in pool:
                if objkeys[s] == want:
                    hit = s
                    break
            if hit is None:
                return None
            pool.remove(hit)
            p.append(hit)
        i = j
    return p


def classes_of(vs):
    out = set()
    for v in vs:
        if v is None:
            out.add('none')
        elif isinstance(v, str):
            out.add('str')
        elif isinstance(v, float) and math.isnan(v):
            out.add('nan')
        elif isinstance(v, float) and math.isinf(v):
            out.add('inf')
        else:
            out.add('num')
    return out


# ---------------------------------------------------------------------- derived columns with unchecked cells
# `col @ fnc` / functional.map_(fnc, col) store what fnc returns WITHOUT the type check of an assignment: a MixedColumn
# obtained that way holds NumPy integer / float scalars, bools, Fractions ... next to plain cells.  Such a column is a
# legitimate sort key (ops.sort(dm, by=dm.x @ np.abs)); its cells are judged as the numbers they stand for.
INCLUDE_PENDING_FINDINGS = False
# Pending (unchanged tree, reported to the coordinator; such cases are generated but NOT judged while the flag is off):
#  * a NaN carried by a number type that is not a `float` subclass (np.float32('nan'), np.float16, Decimal('nan')):
#    _sortable_regular tests `isinstance(val, float) and math.isnan(val)`, so float(val) = nan is used as a plain key
#    and the order of everything compared with it is arbitrary (nan is not put last);
#  * integer scalars that are not `int` (np.int64, np.uint64, Fraction, Decimal) beyond 2**53: they are compared
#    through float(val), i.e. rounded, so 2**53 + 1 and 2**53 are tied instead of ordered by value.


def _num(f):
    """apply f to the numeric cells (int / float incl. NaN and inf), pass text and None on"""
    return lambda v: f(v) if type(v) in (int, float) else v


def _fraction(v):
    from fractions import Fraction
    return Fraction(v) if v == v and abs(v) != INF else v


MAPS = {
    # NumPy functions: ints give np.int64, floats np.float64 (a `float` subclass)
    'npabs': _num(np.abs), 'npsign': _num(np.sign), 'npneg': _num(np.negative), 'npsquare': _num(np.square),
    'npfloor': _num(np.floor), 'nprint': _num(np.rint),
    # explicit scalar types
    'npint64': lambda v: np.int64(v) if type(v) is int and abs(v) < 2 ** 62 else v,
    'npint16': lambda v: np.int16(v) if type(v) is int and abs(v) < 2 ** 15 else v,
    'npf32': lambda v: np.float32(v) if type(v) is float and v == v and float(np.float32(v)) == v else v,
    'npf64': lambda v: np.float64(v) if type(v) is float or (type(v) is int and abs(v) <= 2 ** 53) else v,
    # predicates: bool / np.bool_ cells
    'gt0': _num(lambda v: v > 0), 'npgt0': _num(lambda v: np.greater(v, 0)),
    # exact rationals
    'fraction': _num(_fraction),
    # plain results (control): halves of ints are floats, labels are text no number parser accepts
    'half': _num(lambda v: v / 2), 'ident': lambda v: v, 'label': lambda v: 'n%r' % (v,),
}


NPFNS = ['npabs', 'npsign', 'npneg', 'npsquare', 'npfloor', 'nprint', 'npint64']


def raw_cells(col):
    seq = col._seq
    return list(seq) if isinstance(seq, list) else list(col)


def standin(x):
    """the plain value an unchecked cell stands for: (value, None), or (None, why) when the cell is outside what is
    judged (text a number parser accepts cannot be stored by assignment; the two pending findings above)"""
    from fractions import Fraction
    t = type(x)
    if x is None or t in (int, float):
        return x, None
    if t is str:
        try:
            float(x)
            return None, 'numeric-looking text'
        except ValueError:
            return x, None
    if t is bool or isinstance(x, np.bool_):
        return int(x), None
    if isinstance(x, (np.integer, Fraction)):
        if isinstance(x, Fraction) and x.denominator != 1:
            f = float(x)
            if Fraction(f) != x:
                return None, 'a fraction that is no float'
            return f, None
        i = int(x)
        if abs(i) > 2 ** 53 and not INCLUDE_PENDING_FINDINGS:
            return None, 'pending: non-int integer beyond 2**53'
        return i, None
    if isinstance(x, np.floating):
        f = float(x)
        if f == f and f != x:
            return None, 'a float wider than binary64'
        if f != f and not isinstance(x, float) and not INCLUDE_PENDING_FINDINGS:
            return None, 'pending: NaN carried by a non-float type'
        return f, None
    return None, 'cell of type %s' % t.__name__


class Unjudged(Exception):
    pass


class C10:
    id = 'C10'
    props_file = 'theories/Props/C10.v'
    kernel_files = ['KSort.v']
    oracle_vos = ['theories/Run/SC10.vo']
    model_vos = ['theories/Run/RC10.vo']
    oracle_imports = ['From DM Require Import Run.SC10.']
    model_imports = ['From DM Require Import Run.RC10.']
    exhaustive = False
    rule = ('(a) direct `sortable(v) < sortable(w)` on all ordered pairs of ~45 representative values (ints around 0 and '
            'beyond 2**53, floats incl. -0.0, subnormal, 1e300, +-inf, NaN, strings incl. empty/upper/lower/non-ASCII/'
            'digit-leading, None) against the documented order (L0) and against the regenerated __lt__/__gt__ bodies '
            'under the CPython dispatch (L1; plus bool/numpy/numeric-looking-string objects for L1 only); '
            '(b) tables with a by-column of each of the 3 column types, lengths 0..12 (thorough: up to 40), values drawn '
            'with ties from all classes the type can hold, a Mixed payload column and a third column, under 5 prior row '
            'orders (fresh, reversed, random index list, random subset, previously sorted by the payload): '
            'ops.sort(dm, by), ops.sort(col), ops.sort(other, by=col) incl. assigning the result back, '
            'ops.bin_split(col, bins) for bins 1..len+1; every call is also checked not to modify its input; '
            '(c) bin_split on lengths 13..64 x all bins (pairs such as 15/11 where a float quotient could round); '
            '(d) short histories on one table object: sort, overwrite cells of the by-column in place, sort again; '
            'sort / other operations on the same table (shuffles, samples, selections, other sorts) / sort; '
            "(a') ~40 strings whose code point order differs from their order under normalisation / collation / UTF-16 "
            '(combining sequences and their precomposed twins with text between them, compatibility characters, jamo vs '
            'syllables, astral characters next to U+FFxx) against each other and against every other string; the same '
            'strings occur in Mixed by-columns; '
            '(e) tables DERIVED by sort / shuffle / comparison / in-place row deletion / index list, then shrunk and / or '
            'grown IN PLACE (new rows default or written), then sorted / bin-split; '
            '(f) tables carrying one or two SeriesColumns (depth 0..4, also re-depthed) read as pseudo-columns s# (depth) '
            'and s#j (sample j): sort(dm, by), sort(series, by=col) also detached, bin_split, and sort / use / sort '
            'histories -- every result row must hold the series cell of the same source row; '
            '(g) sort keys that are DERIVED columns with unchecked cells: `dm.a @ f` / functional.map_(f, dm.a) (results are '
            'stored without the type check of an assignment) used directly as ops.sort(col), ops.sort(dm, by=col), '
            'ops.sort(other, by=col), bin_split(col, n), also detached again and inside sort / use / write / sort '
            'histories; f = NumPy functions (np.int64 next to np.float64 cells from a column of whole and fractional '
            'numbers), NumPy scalar types of other widths, predicates (bool / np.bool_), Fractions, plain controls; the '
            'cells are judged as the numbers they stand for (L0) and, classified as they are, by the regenerated '
            'sortable() kernel (L1, m_order_x). '
            'A case is non-trivial when the result order differs from the input order, ties exist, or ValueError '
            'is raised; distinct by full input.')
    trusted_base = [
        'Coq 8.16.1 kernel (coqc; vm_compute for evaluating cases; no native_compute)',
        'translator /verif/translate (py2coq.py, pystmt.py, gen_sort.py): _sort.py comparison methods, '
        '_sortable_regular, bin_split guard/bound -> Gen/KSort.v; pinned skeletons of _sortedrowid, operations.sort, '
        'bin_split loop, DataMatrix._selectrowid, Base/NumericColumn._getrowidkey; the claim int(a/b) = floor(a/b) for 0 <= a < 2^53, 0 < b (Z.quot)',
        'hand-written CPython models: `<` dispatch with reflected __gt__ (Model/Sort.v py_lt), exact int/float '
        'comparison (Base/PyVal.v num_cmp), str comparison = byte-wise UTF-8 order, sorted() is stable (Timsort); '
        'NumPy argsort = ascending with NaN last (order among ties unspecified)',
        'harness/c10.py (runner, table dump incl. the pseudo-column reading of SeriesColumns, witness search for '
        'sort(col, by) -- witnesses are checked by Coq), '
        'harness/pyobs.py, harness/coqlit.py',
    ]
    assumptions = [
        'fastnumbers is not installed (checked at run time): _sortable_regular is the live variant',
        'cells of columns that belong to a table are in the normal form of their column type (C05); the unchecked cells '
        'of a mapped column (family g) are judged as the numbers they stand for: bool / np.bool_ as 0 / 1, NumPy integer '
        'and float scalars and dyadic Fractions by value; NOT judged: text a number parser accepts (cannot be stored by '
        'assignment), and the two pending findings named in harness/c10.py (NaN carried by a non-float type, non-int '
        'integers beyond 2**53)',
        'bin_split: len(dm) * bins < 2^53 so that int(a/b) is the exact floor (translator assumption)',
        'the id-based _getrowidkey of numeric columns (argsort + searchsorted) is modelled as lookup by id',
        'bins <= 0 is outside the property (no chunk is produced) and is not generated',
        'a SeriesColumn is never the by-column (the documented order is about scalar cells); as payload it is judged '
        'as depth + 1 numeric pseudo-columns (shape / dtype / class of the result are checked on the Python side)',
    ]

    # ------------------------------------------------------------------ building tables
    def build(self, inp):
        from datamatrix import DataMatrix, SeriesColumn, operations as ops
        n = len(inp['cols'][0]['values'])
        dm = DataMatrix(length=n)
        for c in inp['cols']:
            if c['kind'] == 'KSeries':
                # a series column: one row of `depth` numbers per cell; optionally its depth is changed afterwards
                # (growing pads with the default, shrinking cuts)
                dm[c['name']] = SeriesColumn(depth=c['depth'], defaultnan=c.get('defaultnan', True))
                if c['depth']:
                    for i, row in enumerate(c['values']):
                        dm[c['name']][i] = [pyobs.dec(x) for x in row]
                if 'redepth' in c:
                    dm[c['name']].depth = c['redepth']
                continue
            dm[c['name']] = coltype(c['kind'])
            if n:
                dm[c['name']] = [pyobs.dec(v) for v in c['values']]
        o = inp.get('order')
        if o:
            if 'idx' in o:
                dm = dm[list(o['idx'])]
            elif 'sort' in o:
                dm = ops.sort(dm, by=dm[o['sort']])
            elif 'shuffle' in o:
                import random as _random
                _random.seed(o['shuffle'])
                dm = ops.shuffle(dm)
            elif 'select' in o:
                # the rows whose cell differs from a value: a selection by row id
                dm = dm[o['select']['col']] != pyobs.dec(o['select']['ne'])
            elif 'delrows' in o:
                # rows deleted in place (the table object stays, its columns are replaced)
                for i in sorted(set(o['delrows']), reverse=True):
                    if 0 <= i < len(dm):
                        del dm[i]
        return dm

    # ------------------------------------------------------------------ derived columns (unchecked cells)
    def derived(self, dm, name, mp, ids):
        """dm[name] mapped with MAPS[mp['fn']] through `@` or functional.map_ -> (column, kind, stand-in values, raw cells).
        Raises Unjudged when the mapping itself fails or gives cells outside what is judged (mapping is C19's subject)."""
        from datamatrix import functional as fnc
        f = MAPS[mp['fn']]
        try:
            col = fnc.map_(f, dm[name]) if mp.get('via') == 'map_' else dm[name] @ f
        except Exception as e:              # noqa: BLE001
            raise Unjudged('mapping raised %r' % (e,))
        if is_series(col) or kindof(col) is None or [int(i) for i in col._rowid] != ids or col._datamatrix is not dm:
            raise Unjudged('the mapped column is no plain column of the table')
        raw = raw_cells(col)
        vals = []
        for x in raw:
            v, why = standin(x)
            if why:
                raise Unjudged(why)
            vals.append(v)
        return col, kindof(col), vals, raw

    @staticmethod
    def x_order(byraw, ids, rids):
        """L1 on the unchecked cells themselves: sorted() over the regenerated sortable() keys of the classified cells"""
        return '(m_order_x %s %s %s)' % (L.lst(pyobs.pyv(x) for x in byraw), ids_lit(ids), ids_lit(rids))

    # ------------------------------------------------------------------ one step on the live table
    def step(self, dm, st):
        """-> dict(oracle, model, pyfail, observed, nontrivial, tags)"""
        from datamatrix import operations as ops
        out = {'oracle': 'true', 'model': 'true', 'pyfail': None, 'observed': None, 'nontrivial': False, 'tags': []}
        op = st['op']
        if op == 'write':
            idx = st['idx']
            if st.get('wrap'):
                # position counted modulo the current length (negative: from the end, i.e. into rows just added)
                if not len(dm):
                    out['observed'] = 'nothing to write'
                    return out
                idx = idx % len(dm)
            dm[st['col']][idx] = pyobs.dec(st['value'])
            out['observed'] = 'written'
            return out
        if op == 'resize':
            # the table is shrunk / grown IN PLACE (new rows hold the columns' default cells); the next sort is judged
            # in full on whatever the table then holds
            dm.length = max(0, len(dm) + st['delta'])
            out['observed'] = 'length %d' % len(dm)
            return out
        if op == 'use':
            # other operations on the same table between two sorts; their results are discarded, the table must not
            # be affected (the next sort is judged in full)
            import random as _random
            _random.seed(st.get('seed', 0))
            how = st['how']
            if how == 'shuffle_col':
                ops.shuffle(dm[st['col']])
            elif how == 'shuffle_dm':
                ops.shuffle(dm)
            elif how == 'sample':
                ops.random_sample(dm, min(len(dm), 2))
            elif how == 'select':
                sel = dm[st['col']] != ''
                if len(sel):
                    dm[st['col']][sel]
            elif how == 'sort_by_other':
                ops.sort(dm, by=dm[st['col']])
            out['observed'] = 'used:' + how
            return out
        pre = snap(dm)
        ids, cols = pre
        colmap = {n: (k, r, v) for n, k, r, v in cols}
        fails = []
        for n, k, r, v in cols:
            if r != ids:
                fails.append('column %s is not aligned with its DataMatrix before the call' % n)
            if vals_lit(v) is None:
                fails.append('column %s holds a non-plain value%s' % (n, bad_cells(v)))
        if fails:
            # what the call itself does on such a table (for the report only)
            try:
                if op == 'sort_dm':
                    ops.sort(dm, by=dm[st['by']])
                elif op == 'sort_col':
                    ops.sort(dm[st['obj']], by=dm[st.get('by') or st['obj']])
                else:
                    list(ops.bin_split(dm[st['col']], st['bins']))
                fails.append('(%s on this table returned)' % op)
            except Exception as e:          # noqa: BLE001
                fails.append('(%s on this table raised %r)' % (op, e))
            out['pyfail'] = '; '.join(fails)
            return out
        mp = st.get('map')
        if mp:
            out['tags'] += ['mapped', 'map:' + mp['fn']]
        byraw = None
        if op == 'sort_dm':
            byk, _, byv = colmap[st['by']]
            bycol = dm[st['by']]
            if mp:
                try:
                    bycol, byk, byv, byraw = self.derived(dm, st['by'], mp, ids)
                except Unjudged as e:
                    out['observed'] = 'not judged: %s' % e
                    out['tags'].append('map-unjudged')
                    return out
            res = ops.sort(dm, by=bycol)
            post = snap(dm)
            rs = snap(res)
            rids, rcols = rs
            if [(n, k) for n, k, _, _ in rcols] != [(n, k) for n, k, _, _ in cols]:
                fails.append('result columns/types differ: %r' % ([(n, k) for n, k, _, _ in rcols],))
            for n, k, r, v in rcols:
                if r != rids:
                    fails.append('result column %s has row ids %r, table has %r' % (n, r, rids))
                if vals_lit(v) is None:
                    fails.append('result column %s holds a non-plain value%s' % (n, bad_cells(v)))
            if len(res) != len(rids):
                fails.append('len(result) != number of row ids')
            if not fails:
                out['oracle'] = '(o_sort_dm %s %s %s %s %s)' % (
                    ids_lit(ids), L.lst(vals_lit(v) for _, _, _, v in cols), vals_lit(byv),
                    ids_lit(rids), L.lst(vals_lit(v) for _, _, _, v in rcols))
                out['model'] = '(m_sort_dm %s %s %s)' % (mdm_lit(pre), mcol_lit(byk, ids, byv), mdm_lit(rs))
                if byraw is not None and byk == 'KMixed':
                    out['model'] = '(%s && %s)' % (out['model'], self.x_order(byraw, ids, rids))
            out['observed'] = {'row_ids': rids, 'by': [pyobs.jsonable(x) for x in dict((n, v) for n, _, _, v in rcols).get(st['by'], [])]}
            out['nontrivial'] = rids != ids or len(set(map(doc_key_safe, byv))) < len(byv)
        elif op == 'sort_col':
            # obj may be a SeriesColumn (sort(series, by=col)): it is judged through its pseudo-columns, all of which
            # must be rearranged along ONE witness permutation that sorts the by-cells
            oparts = parts_of(cols, st['obj'])
            objk = oparts[0][1]
            byname = st.get('by') or st['obj']
            byk, _, byv = colmap[byname]
            key = st.get('key')
            ocol, bcol = dm[st['obj']], (dm[st['by']] if st.get('by') else None)
            otypes = None
            if mp:
                # the object column, the by column, or (sort(col): one and the same) both are derived by a mapping
                try:
                    if mp.get('on', 'obj') == 'obj' or not st.get('by'):
                        ocol, ok_, ov_, oraw = self.derived(dm, st['obj'], mp, ids)
                        oparts = [(st['obj'], ok_, list(ids), ov_)]
                        otypes = [type(x).__name__ for x in oraw]
                        if not st.get('by'):
                            byk, byv, byraw = ok_, ov_, oraw
                    else:
                        bcol, byk, byv, byraw = self.derived(dm, st['by'], mp, ids)
                except Unjudged as e:
                    out['observed'] = 'not judged: %s' % e
                    out['tags'].append('map-unjudged')
                    return out
            if key:
                # a detached column: dm.col[::-1], dm.col[[i, j, ...]] (all rows in another order, or some), dm.col[a:b];
                # it keeps pointing at the table it came from but has row ids (and an order) of its own
                if key.get('rev'):
                    kp, pykey = list(range(len(ids) - 1, -1, -1)), slice(None, None, -1)
                elif 'idx' in key:
                    kp, pykey = list(key['idx']), list(key['idx'])
                else:
                    kp, pykey = list(range(len(ids)))[key['slice'][0]:key['slice'][1]], slice(key['slice'][0], key['slice'][1])
                oparts = [(n, k, [r[i] for i in kp], [v[i] for i in kp]) for n, k, r, v in oparts]
                byv, ids = [byv[i] for i in kp], [ids[i] for i in kp]
                if byraw is not None:
                    byraw = [byraw[i] for i in kp]
                if otypes is not None:
                    otypes = [otypes[i] for i in kp]
                if st.get('by'):
                    res = ops.sort(ocol[pykey], by=bcol[pykey])
                else:
                    res = ops.sort(ocol[pykey])
                out['tags'].append('detached')
            elif st.get('by'):
                res = ops.sort(ocol, by=bcol)
            else:
                res = ops.sort(ocol)
            post = snap(dm)
            if otypes is not None:
                # the result holds the unchecked cells of the mapped column: read them as what they stand for; that
                # every cell also kept its type is checked along the witness below
                rraw = raw_cells(res)
                rst = [standin(x) for x in rraw]
                rparts = [(st['obj'], kindof(res), [int(i) for i in res._rowid],
                           [v if why is None else Bad('%s (%r)' % (why, x)) for (v, why), x in zip(rst, rraw)])]
                rtypes = [type(x).__name__ for x in rraw]
            else:
                rparts = col_entries(st['obj'], res)
            rrid = rparts[0][2]
            if [(n, k) for n, k, _, _ in rparts] != [(n, k) for n, k, _, _ in oparts]:
                fails.append('result column type / depth %r, source %r' % ([(n, k) for n, k, _, _ in rparts],
                                                                          [(n, k) for n, k, _, _ in oparts]))
            for n, k, r, v in rparts:
                if vals_lit(v) is None:
                    fails.append('result holds a non-plain value' + bad_cells(v))
                if len(res) != len(v):
                    fails.append('len(result) != number of values')
            # position-aligned: can be assigned back to (a copy of) the DataMatrix
            try:
                if not key and not fails and otypes is None:
                    d2 = dm[:]
                    d2['zz_sorted'] = res
                    back = col_entries(st['obj'], d2['zz_sorted'])
                    if [(n, k, vals_lit(v)) for n, k, _, v in back] != [(n, k, vals_lit(v)) for n, k, _, v in rparts]:
                        fails.append('assigned-back column reads %r, sorted column %r' % (
                            [v for _, _, _, v in back], [v for _, _, _, v in rparts]))
            except Exception as e:          # noqa: BLE001
                fails.append('sorted column cannot be assigned back: %r' % (e,))
            if not fails:
                okeys, rkeys = row_keys(oparts), row_keys(rparts)
                if otypes is not None:
                    okeys, rkeys = list(zip(okeys, otypes)), list(zip(rkeys, rtypes))
                p = find_witness(byv, okeys, rkeys)
                if p is None and otypes is not None and find_witness(byv, row_keys(oparts), row_keys(rparts)) is not None:
                    fails.append('cells changed their type: source %r result %r' % (otypes, rtypes))
                if p is None:
                    p = list(range(len(byv)))
                    out['tags'].append('no-witness')
                out['oracle'] = '(' + ' && '.join('(o_sort_col %s %s %s %s %s %s)' % (
                    vals_lit(byv), vals_lit(ov), nats_lit(p), vals_lit(rv), ids_lit(ids), ids_lit(rrid))
                    for (_, _, _, ov), (_, _, _, rv) in zip(oparts, rparts)) + ')'
                out['model'] = '(' + ' && '.join('(m_sort_col %s %s %s %s)' % (
                    mcol_lit(ok_, ids, ov), mcol_lit(byk, ids, byv), nats_lit(p), mcol_lit(ok_, rrid, rv))
                    for (_, ok_, _, ov), (_, _, _, rv) in zip(oparts, rparts)) + ')'
                if byraw is not None and byk == 'KMixed' and 'no-witness' not in out['tags']:
                    out['model'] = '(%s && %s)' % (out['model'], self.x_order(byraw, ids, [ids[i] for i in p]))
            if len(rparts) == 1:
                out['observed'] = {'values': [pyobs.jsonable(x) for x in rparts[0][3]], 'row_ids': rrid}
            else:
                out['observed'] = {'series': [[repr(x) for x in v] for _, _, _, v in rparts], 'row_ids': rrid}
            out['nontrivial'] = row_keys(rparts) != row_keys(oparts) or len(set(map(doc_key_safe, byv))) < len(byv)
            if len(oparts) > 1:
                out['tags'].append('series-obj')
        elif op == 'bin_split':
            byk, _, byv = colmap[st['col']]
            bins = st['bins']
            bycol = dm[st['col']]
            if mp:
                try:
                    bycol, byk, byv, byraw = self.derived(dm, st['col'], mp, ids)
                except Unjudged as e:
                    out['observed'] = 'not judged: %s' % e
                    out['tags'].append('map-unjudged')
                    return out
            try:
                chunks = list(ops.bin_split(bycol, bins))
                obs = ('ok', chunks)
            except Exception as e:          # noqa: BLE001
                obs = ('exn', pyobs.exn_name(e))
            post = snap(dm)
            if obs[0] == 'exn':
                lit = '(Raise %s)' % obs[1]
                out['observed'] = {'raises': obs[1]}
                out['nontrivial'] = True
            else:
                crids = []
                src = {n: dict(zip(r, v)) for n, k, r, v in cols}
                for ch in obs[1]:
                    cs = snap(ch)
                    crids.append(cs[0])
                    if [(n, k) for n, k, _, _ in cs[1]] != [(n, k) for n, k, _, _ in cols]:
                        fails.append('chunk columns/types differ')
                        continue
                    for n, k, r, v in cs[1]:
                        if r != cs[0]:
                            fails.append('chunk column %s not aligned' % n)
                        elif vals_lit(v) is None or any(i not in src[n] for i in r) or \
                                vals_lit(v) != vals_lit([src[n][i] for i in r]):
                            fails.append('chunk column %s: cells are not those of the source rows' % n)
                lit = '(Ok %s)' % L.lst(ids_lit(c) for c in crids)
                out['observed'] = {'chunks': crids}
                out['nontrivial'] = len(crids) > 1
            if not fails:
                out['oracle'] = '(o_bin %s %s %s %s)' % (ids_lit(ids), vals_lit(byv), L.z(bins), lit)
                out['model'] = '(m_bin %s %s %s)' % (ids_lit(ids), L.z(bins), lit)
                if byraw is not None and byk == 'KMixed' and obs[0] == 'ok':
                    out['model'] = '(%s && %s)' % (out['model'], self.x_order(byraw, ids, [i for c in crids for i in c]))
        else:
            raise AssertionError(op)
        if snap_key(post) != snap_key(pre):
            fails.append('%s modified its input: before %r after %r' % (op, pre, post))
        if fails:
            out['pyfail'] = '; '.join(fails)[:1500]
        return out

    def rerun(self, inp):
        with warnings.catch_warnings():
            warnings.simplefilter('ignore')
            if 'lt' in inp:
                return self.rerun_lt(inp)
            os_, ms, pf, obs = [], [], [], []
            nontriv = False
            tags = list(inp.get('tags', []))
            try:
                dm = self.build(inp)
            except Exception as e:          # noqa: BLE001  (filling the columns / the prior sort, shuffle, selection,
                #                             row deletion: none of them may fail on a well-formed table)
                dm = None
                pf.append('building / deriving the table under test (%s) raised %r' % (
                    (inp.get('order') or {}).get('tag', 'fresh'), e))
                obs.append({'raises': pyobs.exn_name(e)})
                nontriv = True
            for st in (inp['steps'] if dm is not None else []):
                try:
                    r = self.step(dm, st)
                except Exception as e:      # noqa: BLE001  (the property allows ValueError only for bin_split, handled there)
                    r = {'oracle': 'true', 'model': 'true', 'pyfail': '%s raised %r' % (st['op'], e),
                         'observed': {'raises': pyobs.exn_name(e)}, 'nontrivial': True, 'tags': []}
                os_.append(r['oracle'])
                ms.append(r['model'])
                if r['pyfail']:
                    pf.append(r['pyfail'])
                obs.append(r['observed'])
                nontriv = nontriv or r['nontrivial']
                tags.extend(r['tags'])
                if r['pyfail']:
                    break
        n = len(inp['cols'][0]['values'])
        last = inp['steps'][-1]
        byname = last.get('by') or last.get('col') or last.get('obj')
        bycol = [c for c in inp['cols'] if c['name'] == byname]
        tags += [last['op'], 'len%s' % (n if n <= 12 else '13+')]
        if bycol:
            tags.append('by:' + bycol[0]['kind'])
        if len(inp['steps']) > 1:
            tags.append('history')
        if any(c['kind'] == 'KSeries' for c in inp['cols']):
            tags.append('with-series')
        o = inp.get('order')
        tags.append('order:' + ('fresh' if not o else o.get('tag', 'idx' if 'idx' in o else 'derived')))
        return {
            'input': inp, 'observed': obs, 'pyfail': '; '.join(pf) if pf else None,
            'oracle': '(' + (' && '.join(os_) or 'true') + ')', 'model': '(' + (' && '.join(ms) or 'true') + ')',
            'nontrivial': nontriv, 'sig': json.dumps(inp, sort_keys=True), 'tags': tags,
        }

    def rerun_lt(self, inp):
        from datamatrix._datamatrix import _sort
        v, w = pyobs.dec(inp['lt'][0]), pyobs.dec(inp['lt'][1])
        pyfail = None
        try:
            obs = _sort.sortable(v) < _sort.sortable(w)
            if obs is not True and obs is not False:
                pyfail = '`<` returned %r' % (obs,)
                obs = bool(obs)
        except Exception as e:              # noqa: BLE001
            pyfail = 'sortable(v) < sortable(w) raised %r' % (e,)
            obs = False
        in_l0 = all(is_cell(x) for x in (v, w))
        return {
            'input': inp, 'observed': obs, 'pyfail': pyfail if in_l0 else None,
            'oracle': '(o_lt %s %s %s)' % (pyobs.val(v), pyobs.val(w), L.boolean(obs)) if in_l0 else 'true',
            'model': '(m_lt %s %s %s)' % (pyobs.pyv(v), pyobs.pyv(w), L.boolean(obs)) if pyfail is None else 'true',
            'nontrivial': True, 'sig': json.dumps(inp, sort_keys=True),
            'tags': ['lt', 'lt:L0' if in_l0 else 'lt:L1-only'],
        }

    # ------------------------------------------------------------------ generation
    def generate(self, rng, tier):
        from datamatrix._datamatrix import _sort
        assert _sort.fastnumbers is None and _sort.sortable is _sort._sortable_regular, \
            'fastnumbers present: the kernels assume _sortable_regular'
        thorough = tier == 'thorough'
        cases = []
        # (a) pairs
        reps = representative_values()
        extra = [True, False, np.int64(3), np.float64(2.5), '1.5', '10', 'inf', ' 7 ', '1e3']
        for v in reps:
            for w in reps:
                cases.append(self.rerun({'lt': [pyobs.enc(v), pyobs.enc(w)]}))
        for v in extra:
            for w in reps[::3] + extra:
                cases.append(self.rerun({'lt': [pyobs.enc(v), pyobs.enc(w)]}))
                cases.append(self.rerun({'lt': [pyobs.enc(w), pyobs.enc(v)]}))
        # (a') text whose code point order differs from its order under Unicode normalisation / UTF-16 / collation:
        #      combining sequences with their precomposed twins and strings lying between the two, compatibility
        #      characters, Hangul jamo vs syllables, astral characters next to U+FFxx; against each other and against
        #      every string (and one value of each other class) of the representative set, both ways
        exo = exotic_strings()
        others = [x for x in reps if isinstance(x, str)] + [0, 1.5, INF, -INF, NAN, None]
        for v in exo:
            for w in exo:
                cases.append(self.rerun({'lt': [pyobs.enc(v), pyobs.enc(w)]}))
            for w in others:
                cases.append(self.rerun({'lt': [pyobs.enc(v), pyobs.enc(w)]}))
                cases.append(self.rerun({'lt': [pyobs.enc(w), pyobs.enc(v)]}))
        if thorough:
            for _ in range(1500):
                v, w = rand_value(rng, 'KMixed'), rand_value(rng, 'KMixed')
                cases.append(self.rerun({'lt': [pyobs.enc(v), pyobs.enc(w)]}))
        # (b) tables
        lengths = list(range(0, 13)) + ([16, 20, 27, 40] if thorough else [])
        nrep = 6 if thorough else 3
        for kind in KINDS:
            for n in lengths:
                for rep in range(nrep):
                    inp = self.scenario(rng, kind, n, order_kind=(rep + n) % 5)
                    m = self.built_length(inp)            # rows after the prior order (a subset may be shorter)
                    other = 'o'
                    for st in ({'op': 'sort_dm', 'by': 'a'}, {'op': 'sort_col', 'obj': 'a'},
                               {'op': 'sort_col', 'obj': other, 'by': 'a'}, {'op': 'sort_col', 'obj': 'a', 'by': 't'},
                               {'op': 'sort_dm', 'by': 't'}):
                        if st.get('by') == 't' and rep % 2:
                            continue
                        cases.append(self.rerun(dict(inp, steps=[st])))
                    if m >= 2:
                        for st in ({'op': 'sort_col', 'obj': 'a'}, {'op': 'sort_col', 'obj': 'o', 'by': 'a'}):
                            cases.append(self.rerun(dict(inp, steps=[dict(st, key=self.detach_key(rng, m))])))
                    if rep == 0 or thorough:
                        binsl = list(range(1, m + 2))
                    else:
                        binsl = sorted({rng.randint(1, m + 1), rng.randint(1, m + 1), m + 1})
                    for b in binsl:
                        cases.append(self.rerun(dict(inp, steps=[{'op': 'bin_split', 'col': 'a', 'bins': b}])))
        # (c) bin bounds on longer tables
        lens = range(13, 65) if thorough else [13, 15, 22, 29, 33, 49, 57]
        for n in lens:
            vals = [rng.randint(-5, 5) for _ in range(n)]
            inp = {'cols': [{'name': 'a', 'kind': 'KInt', 'values': [pyobs.enc(v) for v in vals]}], 'order': None,
                   'tags': ['bin-sweep']}
            for b in range(1, n + 2):
                if thorough or b in (1, 2, 3, n - 1, n, n + 1) or (n * 7 + b) % 3 == 0 or (n, b) == (15, 11):
                    cases.append(self.rerun(dict(inp, steps=[{'op': 'bin_split', 'col': 'a', 'bins': b}])))
        # (d') sort, then other operations on the same table (column / table shuffles, samples, selections: position
        #      caches get filled and Index copies get shuffled), then sort again; on fresh tables and on derived ones
        #      (whose columns share the row-id Index of their table)
        for kind in KINDS:
            for _ in range(60 if thorough else 16):
                n = rng.randint(3, 9)
                inp = self.scenario(rng, kind, n, order_kind=rng.choice([0, 2, 3, 4]))
                m = self.built_length(inp)
                if m < 3:
                    continue
                judged = lambda: rng.choice([{'op': 'sort_dm', 'by': rng.choice(['a', 'o'])}, {'op': 'sort_col', 'obj': 'o', 'by': 'a'},
                                             {'op': 'sort_col', 'obj': 'a'}, {'op': 'sort_dm', 'by': 'a'},
                                             {'op': 'sort_col', 'obj': 'a', 'key': self.detach_key(rng, m)},
                                             {'op': 'sort_col', 'obj': 'o', 'by': 'a', 'key': self.detach_key(rng, m)}])
                steps = [judged()]
                for _k in range(rng.randint(1, 3)):
                    for _u in range(rng.randint(1, 3)):
                        steps.append({'op': 'use', 'how': rng.choice(['shuffle_col', 'shuffle_col', 'shuffle_dm', 'sample',
                                                                        'select', 'sort_by_other']),
                                      'col': rng.choice(['a', 'o', 't']), 'seed': rng.randrange(1000)})
                    steps.append(judged())
                cases.append(self.rerun(dict(inp, steps=steps, tags=['history', 'reuse'])))
        # (d) histories on one table object
        for kind in KINDS:
            for _ in range(40 if thorough else 12):
                n = rng.randint(2, 9)
                inp = self.scenario(rng, kind, n, order_kind=rng.choice([0, 2]))
                m = self.built_length(inp)
                if m < 2:
                    continue
                steps = []
                for _k in range(rng.randint(2, 4)):
                    steps.append(rng.choice([
                        {'op': 'sort_dm', 'by': 'a'}, {'op': 'sort_col', 'obj': 'a'},
                        {'op': 'sort_col', 'obj': 'o', 'by': 'a'},
                        {'op': 'bin_split', 'col': 'a', 'bins': rng.randint(1, m)}]))
                    for _w in range(rng.randint(1, 3)):
                        steps.append({'op': 'write', 'col': 'a', 'idx': rng.randrange(m),
                                      'value': pyobs.enc(rand_value(rng, kind))})
                steps.append(rng.choice([{'op': 'sort_dm', 'by': 'a'}, {'op': 'sort_col', 'obj': 'o', 'by': 'a'},
                                         {'op': 'sort_col', 'obj': 'a'},
                                         {'op': 'bin_split', 'col': 'a', 'bins': rng.randint(1, m)}]))
                cases.append(self.rerun(dict(inp, steps=steps, tags=['history'])))
        # (e) a table DERIVED from another one (sorted / shuffled / selected by a comparison / rows deleted in place /
        #     index list; a fresh one as control) is shrunk and / or grown IN PLACE, new rows keep the default cells or
        #     get written, then it is sorted / bin-split (its columns may share one row-id Index object after the
        #     derivation: every column must still end up with its own, duplicate-free ids for the new rows)
        for kind in KINDS:
            for _ in range(45 if thorough else 14):
                n = rng.randint(2, 8)
                inp = self.scenario(rng, kind, n, order_kind=0)
                inp['order'] = self.derive(rng, inp, n)
                if rng.random() < 0.3:
                    self.add_series(rng, inp)
                m = self.built_length(inp)
                steps = []
                if rng.random() < 0.3:
                    steps.append(self.judged(rng, inp, m))
                for _k in range(rng.randint(1, 2)):
                    if rng.random() < 0.4:
                        d = -rng.randint(1, 2)
                        steps.append({'op': 'resize', 'delta': d})
                        m = max(0, m + d)
                    d = rng.randint(1, 3)
                    steps.append({'op': 'resize', 'delta': d})
                    m += d
                    for _w in range(rng.randint(0, 3)):
                        c = rng.choice(['a', 'o', 'a'])
                        steps.append({'op': 'write', 'wrap': True, 'col': c, 'idx': -rng.randint(1, 3),
                                      'value': pyobs.enc(rand_value(rng, kind if c == 'a' else 'KMixed'))})
                    steps.append(self.judged(rng, inp, m))
                    if rng.random() < 0.3:
                        steps.append(self.judged(rng, inp, m))
                cases.append(self.rerun(dict(inp, steps=steps, tags=['history', 'resized'])))
        # (f) tables that carry SeriesColumns (one or two, depths 0..4, also with the depth changed after filling)
        #     next to the plain columns: sort(dm, by), sort(series, by=col) (also detached), bin_split; every result
        #     row must hold the series cell of the same source row (judged by the oracle on the pseudo-columns)
        for kind in KINDS:
            for n in [0, 1, 2, 3, 4, 5, 7, 9] + ([12, 20] if thorough else []):
                for rep in range(4 if thorough else 2):
                    inp = self.scenario(rng, kind, n, order_kind=(rep + n) % 5)
                    if rep % 2 and n:
                        inp['order'] = self.derive(rng, inp, n)
                    snames = self.add_series(rng, inp)
                    m = self.built_length(inp)
                    sts = [{'op': 'sort_dm', 'by': 'a'}, {'op': 'sort_col', 'obj': snames[0], 'by': 'a'},
                           {'op': 'sort_dm', 'by': rng.choice(['o', 't'])},
                           {'op': 'sort_col', 'obj': snames[-1], 'by': rng.choice(['o', 't'])}]
                    if m >= 2:
                        sts.append({'op': 'sort_col', 'obj': snames[0], 'by': 'a', 'key': self.detach_key(rng, m)})
                    for b in sorted({1, rng.randint(1, m + 1), m, m + 1} - {0}):
                        sts.append({'op': 'bin_split', 'col': 'a', 'bins': b})
                    for st in sts:
                        cases.append(self.rerun(dict(inp, steps=[st], tags=['series'])))
            for _ in range(24 if thorough else 8):
                # sort / use / sort with a series column on board
                n = rng.randint(3, 8)
                inp = self.scenario(rng, kind, n, order_kind=rng.choice([0, 2, 3, 4]))
                snames = self.add_series(rng, inp)
                m = self.built_length(inp)
                if m < 2:
                    continue
                steps = [self.judged(rng, inp, m)]
                for _k in range(rng.randint(1, 2)):
                    for _u in range(rng.randint(1, 2)):
                        steps.append({'op': 'use', 'how': rng.choice(['shuffle_col', 'shuffle_dm', 'sample', 'select',
                                                                        'sort_by_other']),
                                      'col': rng.choice(['a', 'o', 't']), 'seed': rng.randrange(1000)})
                    if rng.random() < 0.5:
                        steps.append({'op': 'write', 'wrap': True, 'col': rng.choice(snames), 'idx': rng.randrange(m),
                                      'value': pyobs.enc(rng.choice([0.5, -1.0, NAN, 3.25]))})
                    steps.append(self.judged(rng, inp, m))
                cases.append(self.rerun(dict(inp, steps=steps, tags=['history', 'series'])))
        # (g) sort keys that are DERIVED columns with unchecked cells: `dm.a @ f` / functional.map_(f, dm.a) used directly
        #     (never assigned, which would normalise the cells) as ops.sort(col), ops.sort(dm, by=col),
        #     ops.sort(other, by=col), bin_split(col, n), also detached a second time (`(dm.a @ f)[::-1]`).  f: NumPy
        #     functions (np.int64 next to np.float64 cells), explicit NumPy scalar types of other widths, predicates
        #     (bool / np.bool_), Fractions, plain controls.  The cells are judged as the numbers they stand for.
        fns = sorted(MAPS)
        for kind in KINDS:
            mixed = kind == 'KMixed'
            for n in ([1, 2, 3, 4, 5, 6, 7, 8, 9, 11] if mixed else [2, 4, 6, 9]) + ([14, 20] if thorough else []):
                for rep in range((6 if thorough else 3) if mixed else 1):
                    inp = self.scenario_numeric(rng, kind, n, order_kind=(rep + n) % 5)
                    m = self.built_length(inp)
                    mp = lambda on='obj': {'fn': rng.choice(NPFNS if rng.random() < 0.5 else fns), 'on': on,
                                           'via': rng.choice(['@', '@', 'map_'])}
                    sts = [{'op': 'sort_dm', 'by': 'a', 'map': mp()}, {'op': 'sort_col', 'obj': 'a', 'map': mp()},
                           {'op': 'sort_col', 'obj': 'o', 'by': 'a', 'map': mp('by')},
                           {'op': 'sort_col', 'obj': 'a', 'by': rng.choice(['o', 't']), 'map': mp('obj')},
                           {'op': 'bin_split', 'col': 'a', 'bins': rng.randint(1, max(1, m)), 'map': mp()}]
                    if m >= 2:
                        sts.append({'op': 'sort_col', 'obj': 'a', 'map': mp(), 'key': self.detach_key(rng, m)})
                        sts.append({'op': 'sort_col', 'obj': 'o', 'by': 'a', 'map': mp('by'), 'key': self.detach_key(rng, m)})
                    for st in sts:
                        cases.append(self.rerun(dict(inp, steps=[st], tags=['derived-key'])))
            for _ in range((20 if thorough else 6) if mixed else 2):
                # the same inside a history: sort by a derived key / use / write / sort by a derived key
                n = rng.randint(3, 8)
                inp = self.scenario_numeric(rng, kind, n, order_kind=rng.choice([0, 2, 3, 4]))
                m = self.built_length(inp)
                if m < 2:
                    continue
                steps = []
                for _k in range(rng.randint(2, 3)):
                    st = dict(rng.choice([{'op': 'sort_dm', 'by': 'a'}, {'op': 'sort_col', 'obj': 'a'},
                                          {'op': 'sort_col', 'obj': 'o', 'by': 'a'},
                                          {'op': 'bin_split', 'col': 'a', 'bins': rng.randint(1, m)}]))
                    if rng.random() < 0.8:
                        st['map'] = {'fn': rng.choice(NPFNS if rng.random() < 0.5 else fns), 'on': 'by' if st.get('by') and st['op'] == 'sort_col' else 'obj',
                                     'via': rng.choice(['@', 'map_'])}
                    steps.append(st)
                    steps.append(rng.choice([
                        {'op': 'use', 'how': rng.choice(['shuffle_col', 'shuffle_dm', 'select', 'sort_by_other']),
                         'col': rng.choice(['a', 'o']), 'seed': rng.randrange(1000)},
                        {'op': 'write', 'col': 'a', 'idx': rng.randrange(m),
                         'value': pyobs.enc(numeric_value(rng, kind))}]))
                cases.append(self.rerun(dict(inp, steps=steps[:-1], tags=['history', 'derived-key'])))
        return cases

    def scenario_numeric(self, rng, kind, n, order_kind):
        """like scenario(), with a by-column `a` that holds mostly whole and fractional numbers (with ties, both signs)"""
        inp = self.scenario(rng, kind, n, order_kind)
        alpha = [numeric_value(rng, kind) for _ in range(max(2, rng.choice([n, n // 2 + 1, 3])))]
        a = [rng.choice(alpha) if rng.random() < 0.8 else numeric_value(rng, kind) for _ in range(n)]
        inp['cols'][0]['values'] = [pyobs.enc(v) for v in a]
        return inp

    def judged(self, rng, inp, m):
        """one judged call on the live table of (current) length m"""
        snames = [c['name'] for c in inp['cols'] if c['kind'] == 'KSeries']
        opts = [{'op': 'sort_dm', 'by': rng.choice(['a', 'o', 't'])}, {'op': 'sort_dm', 'by': 'a'},
                {'op': 'sort_col', 'obj': 'a'}, {'op': 'sort_col', 'obj': 'o', 'by': 'a'},
                {'op': 'sort_col', 'obj': 'o'}, {'op': 'sort_col', 'obj': 'a', 'by': rng.choice(['o', 't'])},
                {'op': 'bin_split', 'col': rng.choice(['a', 'a', 'o', 't']), 'bins': rng.randint(1, max(1, min(m, 4)))}]
        if m >= 2:
            opts.append({'op': 'sort_col', 'obj': 'a', 'key': self.detach_key(rng, m)})
            opts.append({'op': 'sort_col', 'obj': 'o', 'by': 'a', 'key': self.detach_key(rng, m)})
        for sname in snames:
            opts.append({'op': 'sort_col', 'obj': sname, 'by': rng.choice(['a', 'o', 't'])})
            opts.append({'op': 'sort_dm', 'by': rng.choice(['a', 'o', 't'])})
        return rng.choice(opts)

    def derive(self, rng, inp, n):
        """how the table under test is derived from the freshly built one (None: not at all)"""
        c = rng.random()
        if c < 0.22:
            return {'sort': rng.choice(['a', 'o', 't']), 'tag': 'sorted-before'}
        if c < 0.44:
            return {'shuffle': rng.randrange(1000), 'tag': 'shuffled-by-ops'}
        if c < 0.64:
            ovals = [v for col in inp['cols'] if col['name'] == 'o' for v in col['values']]
            return {'select': {'col': 'o', 'ne': rng.choice(ovals + [pyobs.enc('x'), pyobs.enc('no such cell')])},
                    'tag': 'selected'}
        if c < 0.82:
            return {'delrows': sorted({rng.randrange(n) for _ in range(rng.randint(1, 2))}), 'tag': 'rows-deleted'}
        if c < 0.92:
            p = [i for i in range(n) if rng.random() < 0.8] or [0]
            rng.shuffle(p)
            return {'idx': p, 'tag': 'subset'}
        return None

    def add_series(self, rng, inp):
        """adds one or two SeriesColumns to a scenario; -> their names"""
        n = len(inp['cols'][0]['values'])
        names = ['s'] if rng.random() < 0.6 else ['s', 'u']
        for name in names:
            depth = rng.choice([0, 1, 2, 2, 3, 3, 4])
            rows = []
            for i in range(n):
                rows.append([pyobs.enc(float(rng.choice([i, i + 0.25 * j, i * 10 + j, NAN, INF, -INF, 0.0, -0.0, j, 1.5,
                                                         rng.uniform(-3, 3)]))) for j in range(depth)])
            col = {'name': name, 'kind': 'KSeries', 'depth': depth, 'values': rows}
            if rng.random() < 0.3:
                col['defaultnan'] = False
            if rng.random() < 0.3:
                col['redepth'] = rng.choice([d for d in range(0, 6) if d != depth])
            inp['cols'].append(col)
        return names

    def built_length(self, inp):
        """rows of the table under test (after the prior order / derivation; a subset may be shorter)"""
        try:
            return len(self.build(inp))
        except Exception:                   # noqa: BLE001  (reported by rerun as a case of its own)
            return len(inp['cols'][0]['values'])

    def detach_key(self, rng, m):
        c = rng.random()
        if c < 0.3:
            return {'rev': True}
        if c < 0.6:
            p = list(range(m))
            rng.shuffle(p)
            return {'idx': p}
        if c < 0.8:
            p = [i for i in range(m) if rng.random() < 0.7] or [0]
            rng.shuffle(p)
            return {'idx': p}
        a = rng.randrange(0, m)
        return {'slice': [a, rng.randrange(a, m + 1)]}

    def scenario(self, rng, kind, n, order_kind):
        alpha = [rand_value(rng, kind) for _ in range(max(1, rng.choice([n, n // 2 + 1, 3])))]
        a = [rng.choice(alpha) if rng.random() < 0.8 else rand_value(rng, kind) for _ in range(n)]
        o = [rng.choice(['p%d' % i, i, i + 0.5, 'x', None]) for i in range(n)]
        tk = KINDS[(KINDS.index(kind) + 1 + rng.randrange(2)) % 3]
        t = [rand_value(rng, tk) for _ in range(n)]
        cols = [{'name': 'a', 'kind': kind, 'values': [pyobs.enc(v) for v in a]},
                {'name': 'o', 'kind': 'KMixed', 'values': [pyobs.enc(v) for v in o]},
                {'name': 't', 'kind': tk, 'values': [pyobs.enc(v) for v in t]}]
        order = None
        if n:
            if order_kind == 1:
                order = {'idx': list(range(n - 1, -1, -1)), 'tag': 'reversed'}
            elif order_kind == 2:
                p = list(range(n))
                rng.shuffle(p)
                order = {'idx': p, 'tag': 'shuffled'}
            elif order_kind == 3:
                p = [i for i in range(n) if rng.random() < 0.7] or [0]
                rng.shuffle(p)
                order = {'idx': p, 'tag': 'subset'}
            elif order_kind == 4:
                order = {'sort': 'o', 'tag': 'sorted-before'}
        return {'cols': cols, 'order': order}

    # ------------------------------------------------------------------ shrinking
    def shrink_candidates(self, inp):
        if 'lt' in inp:
            return
        steps = inp['steps']
        for i in range(len(steps) - 1):
            yield dict(inp, steps=steps[:i] + steps[i + 1:])
        if inp.get('order'):
            yield dict(inp, order=None)
        used = {s.get(k) for s in steps for k in ('by', 'obj', 'col')} | \
               ({inp['order'].get('sort'), (inp['order'].get('select') or {}).get('col')} if inp.get('order') else set())
        for c in inp['cols']:
            if c['name'] not in used and len(inp['cols']) > 1:
                yield dict(inp, cols=[x for x in inp['cols'] if x is not c])
        n = len(inp['cols'][0]['values'])
        if not inp.get('order') or 'sort' in inp['order'] or 'shuffle' in inp['order'] or 'select' in inp['order']:
            for k in range(n):
                yield dict(inp, cols=[dict(c, values=c['values'][:k] + c['values'][k + 1:]) for c in inp['cols']])
        for c in inp['cols']:
            if c['kind'] == 'KSeries':
                if c['depth'] > 1 and 'redepth' not in c:
                    yield dict(inp, cols=[dict(x, depth=1, values=[r[:1] for r in x['values']]) if x is c else x
                                          for x in inp['cols']])
                if 'redepth' in c:
                    yield dict(inp, cols=[{k_: v_ for k_, v_ in x.items() if k_ != 'redepth'} if x is c else x
                                          for x in inp['cols']])
                continue
            for k, v in enumerate(c['values']):
                for simple in (pyobs.enc(0), pyobs.enc(1)):
                    if v != simple:
                        yield dict(inp, cols=[dict(x, values=x['values'][:k] + [simple] + x['values'][k + 1:])
                                              if x is c else x for x in inp['cols']])

    def key(self, case):
        i = case['input']
        if 'lt' in i:
            return 'sortable lt %s' % json.dumps(i['lt'], sort_keys=True, separators=(',', ':'))
        return 'sort %s' % json.dumps({k: i[k] for k in ('cols', 'order', 'steps')}, sort_keys=True,
                                      separators=(',', ':'))


def doc_key_safe(v):
    k = doc_key(v)
    return (k[0], repr(k[1]) if k[0] == 1 else (float(k[1]) if k[0] == 0 and abs(k[1]) < 2 ** 53 else k[1]))


def is_cell(v):
    """a value a column can hold as such (the L0 order is stated for these)"""
    if v is None or type(v) in (int, float):
        return True
    if type(v) is str:
        try:
            float(v)
            return False
        except ValueError:
            return True
    return False


def representative_values():
    return [0, 1, -1, 2, 7, -13, 10, 2 ** 53, 2 ** 53 + 1, 2 ** 53 + 2, -(2 ** 53) - 1, 2 ** 63 + 5, -(2 ** 64),
            0.0, -0.0, 0.5, 1.0, 1.5, -0.75, 2.0, 9007199254740992.0, 9007199254740994.0, 1e300, -1e300, 5e-324,
            0.1, INF, -INF, NAN,
            '', 'a', 'b', 'B', 'ab', 'a b', 'é', 'z', '日本', '-', '_x', 'None', 'nan-text',
            None]


def exotic_strings():
    """text for which 'by code point' differs from what a normalising / collating / UTF-16 comparison gives"""
    return ['e\u0301clair', '\u00e9clair', 'eclair', 'f', 'zebra', 'e\u0301', 'ez', 'e\u0300', 'e\u0301\u0323', 'e\u0323\u0301',
            '\u1e1b', 'A\u030a', '\u00c5', '\u212b', 'B', '\u1100\u1161', '\uac00', '\u1101', 'n\u0303o', '\u00f1o', 'nz',
            '\ufb01n', 'fin', '\u0301', '\u00df', 'ss', '\uff21', '\ud7ff', '\ue000', '\uffee', '\uffff', '\U00010000',
            '\U0001f600', '\U0001f600\ufe0f', '\u0131', 'I\u0307', '\u03a9', '\u2126', '\u00a0', ' ']


def numeric_value(rng, kind):
    """mostly whole and fractional numbers of both signs; now and then one of the other classes of the type"""
    c = rng.random()
    if kind == 'KInt':
        return rng.randint(-6, 6) if c < 0.8 else rand_value(rng, kind)
    if c < 0.4:
        v = rng.randint(-6, 6)
        return v if kind == 'KMixed' else float(v)
    if c < 0.75:
        return rng.randint(-12, 12) / rng.choice([2.0, 4.0, 8.0])
    if c < 0.85:
        return rng.choice([INF, -INF, NAN, 0.0, -0.0])
    return rand_value(rng, kind)


def rand_value(rng, kind):
    if kind == 'KInt':
        return rng.choice([rng.randint(-3, 3), rng.randint(-100, 100), 2 ** 53 + rng.randint(0, 2), -(2 ** 53) - 1,
                           2 ** 62 + rng.randint(0, 3), -(2 ** 62) - rng.randint(0, 3), 2 ** 63 - 1, -(2 ** 63),
                           rng.randint(-2 ** 40, 2 ** 40)])
    if kind == 'KFloat':
        return rng.choice([rng.randint(-3, 3), rng.randint(-3, 3) + 0.5, NAN, INF, -INF, 0.0, -0.0,
                           rng.uniform(-10, 10), 1e300, -1e300, 5e-324, float(2 ** 53), rng.randint(-2, 2) / 4.0])
    c = rng.random()
    if c < 0.3:
        return rng.choice([rng.randint(-3, 3), rng.randint(-100, 100), 2 ** 53 + rng.randint(0, 2), -(2 ** 53) - 1,
                           2 ** 63 + 5])
    if c < 0.5:
        return rng.choice([rng.randint(-3, 3) + 0.5, rng.uniform(-5, 5), 1.5e300, -0.75, 0.1, 2 ** 53 + 0.0])
    if c < 0.6:
        return rng.choice([INF, -INF])
    if c < 0.68:
        # text that float() / int() can or cannot parse: what is stored decides (a number if the column converted it,
        # text otherwise), and text sorts after every number
        return rng.choice(['1_5', '2021_03', ' 7 ', '1e3', '+3', '0x10', '1_000.5', '1__5', '_1', '1_', '3.', '.5', '1,5'])
    if c < 0.72:
        # NFD / NFC spellings of one label with text between them in code point order; astral next to U+FFxx
        return rng.choice([rng.choice(['e\u0301clair', '\u00e9clair', 'f', 'zebra', 'e\u0301', 'ez', '\u00e9', 'eclair']),
                           rng.choice(exotic_strings())])
    if c < 0.8:
        return rng.choice(['', 'a', 'b', 'B', 'ab', 'é', 'z', '日本', 'A', 'aa', '_', 'x y', '~'])
    if c < 0.9:
        return None
    return NAN


PROP = C10()
