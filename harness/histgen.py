"""Random (seeded) generation of operation histories, interleaved with their
execution on the implementation so that every choice can look at the live
pool.  Profiles weight the alphabet towards one property's operations."""
import random

import pyobs
import world

NAMES = ['a', 'b', 'c', 'd']
BADNAMES = ['1x', 'a b', 'class', 'x = y', 'a.b', 'a, b', '']
# identifiers that differ only in unicode normal form (MICRO SIGN vs GREEK MU, precomposed vs combining accent): distinct names
UNINAMES = ['\u00b5V', '\u03bcV', '\u00e9', 'e\u0301']

VALS = {
    'KMixed': [0, 1, 2, 3, -1, 7, 2.5, -0.5, float('nan'), float('inf'), 'a', 'b', 'zz', 'A', '', '10', '2.5', 'nan',
               None, True, 4.0, 10 ** 17, 'é'],
    'KFloat': [0, 1, 2, 3, -1, 2.5, -0.5, float('nan'), float('inf'), float('-inf'), '3', '1.5', 'x', None, 1e300,
               2 ** 53 + 1, -0.0],
    'KInt': [0, 1, 2, 3, -1, 7, 2.9, -2.9, '5', '3.7', True, 10 ** 15],
}
BAD = {'KMixed': [pyobs.Obj()], 'KFloat': [pyobs.Obj()], 'KInt': [pyobs.Obj(), None, 'x', float('nan'), float('inf')]}
REFS = {
    'KMixed': [0, 1, 2, 2.5, 'a', 'b', 'zz', '', None, 7, -1],
    'KFloat': [0, 1, 2, 2.5, -0.5, 3],
    'KInt': [0, 1, 2, 3, 7, -1],
}

DEFAULT_WEIGHTS = {
    'new': 3, 'setcolkind': 5, 'setcol': 8, 'setcolfromcol': 3, 'setcell': 12, 'select': 9, 'merge': 6, 'slice': 4,
    'getrows': 3, 'sort': 4, 'shuffle': 4, 'sample': 2, 'setlength': 5, 'delrows': 3, 'delcol': 2, 'rename': 3,
    'concat': 3, 'setsorted': 1, 'setcolfromslice': 2,
}


def pick_value(rng, kind, bad_rate):
    if rng.random() < bad_rate:
        return rng.choice(BAD[kind])
    return rng.choice(VALS[kind])


def gen_rhs(rng, kind, n, bad_rate):
    c = rng.random()
    if c < 0.45:
        return {'k': 'scalar', 'v': pyobs.enc(pick_value(rng, kind, bad_rate))}
    m = n
    if rng.random() < bad_rate:
        m = max(0, n + rng.choice([-1, 1, 2]))
    return {'k': 'seq', 'vs': [pyobs.enc(pick_value(rng, kind, bad_rate / 2)) for _ in range(m)]}


def _fits_int64(col):
    try:
        cells = list(col)
    except Exception:       # noqa: BLE001  (a column left unreadable by an out-of-model step)
        return False
    for x in cells:
        if isinstance(x, (int, float)) and x == x and abs(x) >= 2 ** 62:
            return False
    return True


def gen_col_rhs(rng, P, ti, name, m):
    """A right-hand side that is a live column object: the target itself, another column of the same table (any
    type) or of another pool table; None when no column of the required length exists."""
    cands = []
    for t2, q in enumerate(P):
        if len(q) != m:
            continue
        target_int = world.kind_of(P[ti]._cols[name]) == 'KInt' if name in P[ti]._cols else False
        for nm, col in q._cols.items():
            if world.kind_of(col) is not None:
                if target_int and not _fits_int64(col):
                    continue        # int64 overflow of an IntColumn is outside the model (OverflowError)
                cands.append((3 if t2 == ti and nm == name else (2 if t2 == ti else 1), t2, nm))
    if not cands:
        return None
    _w, t2, nm = rng.choices(cands, [c[0] for c in cands])[0]
    return {'k': 'col', 't2': t2, 'name2': nm, 'as': rng.choice(['column', 'column', 'array'])}


def col_kinds(dm):
    return [(name, world.kind_of(col)) for name, col in dm._cols.items()]


def plan_merge(rng, r):
    """Directed multi-step plans for the merge operators (returned as a list of operations):
    balanced-xor -- two overlapping slices a, b of one table with |b - a| = |a & b| > 0, then a ^ b (and the other
                    operators): the result is as long as the left operand although rows come from the right one;
    none-left    -- two overlapping relatives, None written into a shared row of a MixedColumn of the LEFT one (another
                    value into the right one), then the merges: the left cell wins even when it is None."""
    P = r.pool
    cands = [i for i, q in enumerate(P) if len(q) >= 4]
    if not cands:
        return None
    ti = rng.choice(cands)
    n = len(P[ti])
    base = len(P)
    if rng.random() < 0.5:
        m = rng.randint(1, n // 3) if n >= 3 else 1
        i0 = rng.randint(0, max(0, n - 3 * m))
        ops = [{'op': 'slice', 't': ti, 'a': i0, 'b': i0 + 2 * m}, {'op': 'slice', 't': ti, 'a': i0 + m, 'b': i0 + 3 * m}]
        seq = [('MXor', base, base + 1), ('MOr', base, base + 1), ('MXor', base + 1, base)]
        rng.shuffle(seq)
        return ops + [{'op': 'merge', 'mop': mo, 't': a, 't2': b} for mo, a, b in seq[:2]]
    mixed = [nm for nm, kd in col_kinds(P[ti]) if kd == 'KMixed']
    if not mixed:
        return None
    name = rng.choice(mixed)
    ops = [{'op': 'slice', 't': ti, 'a': 0, 'b': n - 1}, {'op': 'slice', 't': ti, 'a': 1, 'b': n}]
    # row 1 of the source is row 1 of the first and row 0 of the second relative
    ops.append({'op': 'setcell', 't': base, 'name': name, 'addr': {'k': 'int', 'i': 1},
                'rhs': {'k': 'scalar', 'v': pyobs.enc(None)}})
    ops.append({'op': 'setcell', 't': base + 1, 'name': name, 'addr': {'k': 'int', 'i': 0},
                'rhs': {'k': 'scalar', 'v': pyobs.enc(rng.choice(['v', 5, 2.5]))}})
    mo = rng.choice(['MOr', 'MAnd'])
    return ops + [{'op': 'merge', 'mop': mo, 't': base, 't2': base + 1}, {'op': 'merge', 'mop': 'MOr', 't': base + 1, 't2': base}]


def plan_keptrow(rng, r):
    """Directed plan: a Row object is taken and written through (dm[i].name = v, the Row is kept), then the table it
    points into is changed by an operation that rebuilds the table's internals (rename, row deletion, column deletion,
    a new column, resize, sorted flag), then the SAME Row object is written through again -- under the new name after a
    rename.  The Row still denotes row i of the table as it is now."""
    P = r.pool
    cands = [i for i, q in enumerate(P) if len(q) >= 2 and [c for c in col_kinds(q) if c[1] is not None]]
    if not cands:
        return None
    ti = rng.choice(cands)
    dm = P[ti]
    n = len(dm)
    cols = [(nm, kd) for nm, kd in col_kinds(dm) if kd is not None]
    name, kind = rng.choice(cols)
    i = rng.randrange(n - 1) if rng.random() < 0.6 else rng.randint(-n, -2) if n >= 2 and rng.random() < 0.5 else 0
    w1 = {'op': 'setcell', 't': ti, 'name': name, 'addr': {'k': 'row', 'i': i, 'via': 'kept'},
          'rhs': {'k': 'scalar', 'v': pyobs.enc(pick_value(rng, kind, 0))}}
    name2 = name
    c = rng.random()
    if c < 0.35:
        free = [x for x in NAMES + ['e', 'f'] if x not in dict(col_kinds(dm))]
        if not free:
            return None
        name2 = rng.choice(free)
        mid = {'op': 'rename', 't': ti, 'old': name, 'new': name2}
    elif c < 0.65:
        # delete a row AFTER the kept one (the kept index stays in range and keeps denoting the same row for i >= 0)
        pos = i if i >= 0 else n + i
        later = [j for j in range(n) if j > pos]
        if not later:
            return None
        mid = {'op': 'delrows', 't': ti, 'l': [rng.choice(later)]}
        if i < 0:
            i_after = i     # counted from the end: now another row, which is what the Row denotes
    elif c < 0.8:
        others = [nm for nm, _k in cols if nm != name]
        if not others:
            return None
        mid = {'op': 'delcol', 't': ti, 'name': rng.choice(others), 'how': rng.choice(['item', 'attr'])}
    elif c < 0.9:
        mid = {'op': 'setlength', 't': ti, 'n': n + 1}
    else:
        mid = {'op': 'setcolkind', 't': ti, 'name': rng.choice([x for x in NAMES + ['e', 'f']]), 'kind': rng.choice(['KMixed', 'KFloat', 'KInt'])}
        if mid['name'] == name:
            return None
    w2 = {'op': 'setcell', 't': ti, 'name': name2, 'addr': {'k': 'row', 'i': i, 'via': 'kept'},
          'rhs': {'k': 'scalar', 'v': pyobs.enc(pick_value(rng, kind, 0))}}
    return [w1, mid, w2]


def plan_lookup_grow(rng, r, max_pool, max_rows):
    """Directed plan on ONE table object: a row-id lookup (a selection: it fills the per-column lookup caches -- position
    cache of the Index, cached argsort of numeric and series columns), then the table is resized in place (grown, or shrunk
    and grown), then further row-id lookups that involve the added rows (shuffle, sample of all rows, sort, a selection on
    the new rows' default cells)."""
    P = r.pool
    cands = [i for i, q in enumerate(P) if 1 <= len(q) < max_rows and [c for c in col_kinds(q) if c[1] is not None]]
    if not cands or len(P) + 3 > max_pool + 2:
        return None
    ti = rng.choice(cands)
    dm = P[ti]
    n = len(dm)
    cols = [(nm, kd) for nm, kd in col_kinds(dm) if kd is not None]
    name, kind = rng.choice(cols)
    ops = [{'op': 'select', 't': ti, 'name': name, 'cmp': rng.choice(['CNe', 'CEq', 'CGe']), 'ref': pyobs.enc(rng.choice(REFS[kind]))}]
    if rng.random() < 0.3 and n >= 2:
        ops.append({'op': 'setlength', 't': ti, 'n': n - 1})
        n -= 1
    n2 = n + rng.randint(1, 2)
    ops.append({'op': 'setlength', 't': ti, 'n': n2})
    follow = rng.choice(['shuffle', 'sample', 'sort', 'select', 'shuffle'])
    if follow == 'shuffle':
        ops.append({'op': 'shuffle', 't': ti})
    elif follow == 'sample':
        ops.append({'op': 'sample', 't': ti, 'k': n2})
    elif follow == 'sort':
        ops.append({'op': 'sort', 't': ti, 'name': name})
    else:
        # the new rows hold the default cell ('' / NaN / 0): `!= 1` selects them in every column type (a NaN reference
        # would be outside the model)
        ops.append({'op': 'select', 't': ti, 'name': name, 'cmp': 'CNe', 'ref': pyobs.enc(1)})
    return ops


def plan_merge_grow_merge(rng, r, max_pool, max_rows):
    """Directed plan: a table is used as the LEFT operand of a merge (per-column caches of its rows get filled), then
    it is grown in place and the new rows are written, a relative of the grown table is taken and given other values,
    and the two are merged again: rows present in both take their cells from the left operand, the new rows included."""
    P = r.pool
    cands = [i for i, q in enumerate(P) if 2 <= len(q) < max_rows - 1 and [c for c in col_kinds(q) if c[1] is not None]]
    if not cands or len(P) + 4 > max_pool + 3:
        return None
    ti = rng.choice(cands)
    dm = P[ti]
    n = len(dm)
    name, kind = rng.choice([(nm, kd) for nm, kd in col_kinds(dm) if kd is not None])
    base = len(P)
    k = rng.randint(1, 2)
    val = lambda: pyobs.enc(pick_value(rng, kind, 0))
    ops = [{'op': 'merge', 'mop': rng.choice(['MOr', 'MAnd']), 't': ti, 't2': ti},                      # -> base
           {'op': 'setlength', 't': ti, 'n': n + k},
           {'op': 'setcell', 't': ti, 'name': name, 'addr': {'k': 'slice', 'a': n, 'b': None},
            'rhs': {'k': 'seq', 'vs': [val() for _ in range(k)]}},
           {'op': 'slice', 't': ti, 'a': rng.choice([0, 1, n - 1]), 'b': None},                            # -> base + 1
           {'op': 'setcell', 't': base + 1, 'name': name, 'addr': {'k': 'slice', 'a': None, 'b': None},
            'rhs': {'k': 'scalar', 'v': val()}},
           {'op': 'merge', 'mop': 'MOr', 't': ti, 't2': base + 1},
           {'op': 'merge', 'mop': 'MAnd', 't': ti, 't2': base + 1}]
    return ops


def gen_op(rng, r, weights, bad_rate=0.08, max_pool=7, max_rows=9):
    """Choose the next operation given the runner's live pool."""
    P = r.pool
    if not P:
        return {'op': 'new', 'n': rng.randint(0, 6)}
    plan = getattr(r, 'plan', None)
    while plan:
        o_ = plan.pop(0)
        # a directed plan refers to tables its earlier steps were to create: when such a step failed on the
        # implementation at hand (no table appeared), the rest of the plan is dropped
        if all(o_.get(k_, 0) < len(P) for k_ in ('t', 't2')):
            return o_
        del plan[:]
    if weights.get('merge', 0) >= 10 and len(P) + 3 <= max_pool and rng.random() < 0.12:
        made = plan_merge(rng, r)
        if made:
            r.plan = made[1:]
            return made[0]
    if weights.get('merge', 0) >= 3 and weights.get('setlength', 0) >= 1 and rng.random() < 0.03:
        made = plan_merge_grow_merge(rng, r, max_pool, max_rows)
        if made:
            r.plan = made[1:]
            return made[0]
    if weights.get('setlength', 0) >= 1 and (weights.get('shuffle', 0) or weights.get('select', 0)) and rng.random() < 0.03:
        made = plan_lookup_grow(rng, r, max_pool, max_rows)
        if made:
            r.plan = made[1:]
            return made[0]
    if weights.get('setcell', 0) >= 12 and rng.random() < 0.04:
        made = plan_keptrow(rng, r)
        if made:
            r.plan = made[1:]
            return made[0]
    for _attempt in range(50):
        k = rng.choices(list(weights.keys()), list(weights.values()))[0]
        ti = rng.randrange(len(P))
        dm = P[ti]
        n = len(dm)
        cols = [(nm, kd) for nm, kd in col_kinds(dm) if kd is not None]
        derived = k in ('new', 'select', 'merge', 'slice', 'getrows', 'sort', 'shuffle', 'sample', 'concat')
        if derived and len(P) >= max_pool:
            continue
        if k == 'new':
            return {'op': 'new', 'n': rng.randint(0, 6)}
        if k == 'setcolkind':
            return {'op': 'setcolkind', 't': ti, 'name': rng.choice(NAMES), 'kind': rng.choice(world.KINDS)}
        if k == 'setcol':
            name = rng.choice(NAMES)
            kind = dict(cols).get(name, 'KMixed')
            return {'op': 'setcol', 't': ti, 'name': name, 'rhs': gen_rhs(rng, kind, n, bad_rate)}
        if k == 'setcolfromcol':
            t2 = rng.randrange(len(P)) if rng.random() < 0.5 else ti
            c2 = [nm for nm, kd in col_kinds(P[t2]) if kd is not None]
            if not c2:
                continue
            return {'op': 'setcolfromcol', 't': ti, 'name': rng.choice(NAMES), 't2': t2, 'name2': rng.choice(c2)}
        if k == 'setcell':
            if not cols:
                continue
            name, kind = rng.choice(cols)
            form = rng.choice(['int', 'int', 'slice', 'list', 'sel', 'row'])
            if form in ('int', 'row'):
                if n == 0 and rng.random() > bad_rate:
                    continue
                i = rng.randint(-n, n - 1) if n and rng.random() > bad_rate else rng.choice([n, -n - 1, n + 3])
                if form == 'row' and rng.random() < 0.2:
                    name = rng.choice(NAMES)
                    kind = dict(cols).get(name, 'KMixed')
                addr = {'k': form, 'i': i}
                if form == 'row':
                    c_ = rng.random()
                    if c_ < 0.3:
                        addr['via'] = 'iter'
                    elif c_ < 0.65:
                        addr['via'] = 'kept'
                        held = [k_[1] for k_ in getattr(r, 'kept', {}) if k_[0] == ti and -n <= k_[1] < n]
                        if held and rng.random() < 0.7:
                            addr['i'] = rng.choice(held)
                return {'op': 'setcell', 't': ti, 'name': name, 'addr': addr,
                        'rhs': {'k': 'scalar', 'v': pyobs.enc(pick_value(rng, kind, bad_rate))}}
            if form == 'slice':
                a = rng.choice([None, 0, 1, 2, -1, -2, n, n + 2])
                b = rng.choice([None, 1, 2, 3, -1, n, n + 1])
                m = len(range(*slice(a, b).indices(n)))
                rhs = gen_col_rhs(rng, P, ti, name, m) if rng.random() < 0.15 else None
                return {'op': 'setcell', 't': ti, 'name': name, 'addr': {'k': 'slice', 'a': a, 'b': b},
                        'rhs': rhs or gen_rhs(rng, kind, m, bad_rate)}
            if form == 'list':
                if n == 0:
                    continue
                if rng.random() < (0.5 if kind != 'KMixed' else 0.3):
                    # every row once, in some order: with a column-valued right-hand side (often the target itself)
                    l = rng.sample(range(n), n)
                    rhs = gen_col_rhs(rng, P, ti, name, n) if rng.random() < 0.7 else None
                    return {'op': 'setcell', 't': ti, 'name': name, 'addr': {'k': 'list', 'l': l},
                            'rhs': rhs or gen_rhs(rng, kind, n, bad_rate)}
                l = [rng.randrange(n) for _ in range(rng.randint(0, min(n, 4)))]
                if rng.random() < bad_rate:
                    l.insert(rng.randint(0, len(l)), rng.choice([-1, n, n + 1]))
                return {'op': 'setcell', 't': ti, 'name': name, 'addr': {'k': 'list', 'l': l},
                        'rhs': gen_rhs(rng, kind, len(l), bad_rate)}
            if form == 'sel':
                # a selection that is a subset of the table (same family), or an unrelated table
                myids = set(int(x) for x in dm._rowid)
                cands = [j for j, q in enumerate(P) if q._id == dm._id and set(int(x) for x in q._rowid) <= myids]
                c_ = rng.random()
                if c_ < bad_rate:
                    cands = [j for j, q in enumerate(P) if q._id != dm._id] or cands
                elif c_ < 2.5 * bad_rate:
                    # a relative that holds rows this table lacks (taken before a shrink / from a sibling): KeyError
                    cands = [j for j, q in enumerate(P) if q._id == dm._id
                             and not set(int(x) for x in q._rowid) <= myids] or cands
                if not cands:
                    continue
                t2 = rng.choice(cands)
                rhs = gen_col_rhs(rng, P, ti, name, len(P[t2])) if rng.random() < 0.2 else None
                return {'op': 'setcell', 't': ti, 'name': name, 'addr': {'k': 'sel', 't2': t2},
                        'rhs': rhs or gen_rhs(rng, kind, len(P[t2]), bad_rate)}
        if k == 'select':
            if not cols:
                continue
            name, kind = rng.choice(cols)
            return {'op': 'select', 't': ti, 'name': name, 'cmp': rng.choice(['CEq', 'CNe', 'CLt', 'CLe', 'CGt', 'CGe']),
                    'ref': pyobs.enc(rng.choice(REFS[kind]))}
        if k == 'merge':
            rel = [j for j, q in enumerate(P) if q._id == dm._id]
            if rng.random() < bad_rate:
                rel = list(range(len(P)))
            t2 = rng.choice(rel)
            # relatives whose same-named column was re-typed in between: outside the model (Spec.step: OutOfModel) and
            # the implementation then builds columns that cannot even be read, so nothing after it could be judged
            if P[t2]._id == dm._id and any(n2 in P[t2]._cols and type(P[t2]._cols[n2]) is not type(c2)
                                           for n2, c2 in dm._cols.items()):
                continue
            return {'op': 'merge', 'mop': rng.choice(['MAnd', 'MOr', 'MXor']), 't': ti, 't2': t2}
        if k == 'slice':
            return {'op': 'slice', 't': ti, 'a': rng.choice([None, 0, 1, 2, -2, n]),
                    'b': rng.choice([None, 1, 3, -1, n, n + 2])}
        if k == 'getrows':
            if n == 0:
                continue
            if n >= 4 and rng.random() < 0.3:
                # every row, the first and the last in place, the interior permuted: a contiguous id range whose end
                # points look untouched (fast paths keyed on the end points!)
                mid = list(range(1, n - 1))
                rng.shuffle(mid)
                if mid == list(range(1, n - 1)):
                    mid.reverse()
                return {'op': 'getrows', 't': ti, 'l': [0] + mid + [n - 1]}
            l = rng.sample(range(n), rng.randint(1, min(n, 4)))
            l = [i - n if rng.random() < 0.2 else i for i in l]
            if len(set(x % n for x in l)) != len(l):
                continue
            if rng.random() < bad_rate:
                l.append(n + 1)
            return {'op': 'getrows', 't': ti, 'l': l}
        if k == 'sort':
            if not cols:
                continue
            return {'op': 'sort', 't': ti, 'name': rng.choice(cols)[0]}
        if k == 'shuffle':
            return {'op': 'shuffle', 't': ti}
        if k == 'sample':
            kk = rng.randint(0, n) if rng.random() > bad_rate else n + 1
            return {'op': 'sample', 't': ti, 'k': kk}
        if k == 'setlength':
            return {'op': 'setlength', 't': ti, 'n': rng.choice([0, max(0, n - 1), max(0, n - 2), n, n + 1, n + 2])
                    if n < max_rows else rng.choice([0, n - 1, n - 3, n])}
        if k == 'delrows':
            if n == 0:
                continue
            l = [rng.randint(-n, n - 1) for _ in range(rng.randint(1, min(3, n)))]
            if rng.random() < bad_rate:
                l = [n]
            return {'op': 'delrows', 't': ti, 'l': l}
        if k == 'delcol':
            name = rng.choice([c[0] for c in cols]) if cols and rng.random() > bad_rate else rng.choice(NAMES)
            return {'op': 'delcol', 't': ti, 'name': name, 'how': rng.choice(['item', 'item', 'attr', 'obj'])}
        if k == 'setcolfromslice':
            if not cols or n == 0:
                continue
            c = rng.random()
            if c < 0.25:
                l = list(range(n))                                  # all rows in their order: inserted as it is
            elif c < 0.5 and n >= 3:
                mid = list(range(1, n - 1))
                rng.shuffle(mid)
                l = [0] + mid + [n - 1]                             # permuted inside, end points in place
            elif c < 0.85:
                l = rng.sample(range(n), n)
            else:
                l = rng.sample(range(n), rng.randint(0, n - 1)) + ([n + 1] if rng.random() < 0.3 else [])
            l = [i - n if (0 <= i < n and rng.random() < 0.15) else i for i in l]
            return {'op': 'setcolfromslice', 't': ti, 'name': rng.choice(NAMES), 'name2': rng.choice(cols)[0], 'l': l}
        if k == 'rename':
            old = rng.choice([c[0] for c in cols]) if cols and rng.random() > bad_rate else rng.choice(NAMES)
            new = rng.choice(NAMES + ['e', 'f']) if rng.random() > bad_rate else rng.choice(BADNAMES)
            if rng.random() < 0.12:
                new = rng.choice(UNINAMES)
            if rng.random() < 0.08:
                new = old          # rename to itself: nothing happens, but a missing column is still an error
            return {'op': 'rename', 't': ti, 'old': old, 'new': new}
        if k == 'concat':
            t2 = rng.randrange(len(P))
            if len(dm) + len(P[t2]) > 2 * max_rows:
                continue
            return {'op': 'concat', 't': ti, 't2': t2}
        if k == 'setsorted':
            return {'op': 'setsorted', 't': ti, 'b': rng.random() < 0.5}
    return {'op': 'new', 'n': rng.randint(0, 4)}


def gen_history(rng, nsteps, weights=None, seed=0, prefix=None, big_first=False, **kw):
    """Generate and execute; returns the list of ops (with oracle arguments filled in)."""
    weights = dict(weights or DEFAULT_WEIGHTS)
    r = world.Runner()
    ops_list = []
    for o in (prefix or []):
        o = dict(o)
        r.apply(o, seed=seed * 7919 + len(ops_list))
        ops_list.append(o)
    if not ops_list:
        # bootstrap: a table with two or three typed, filled columns
        n = rng.randint(9, 30) if big_first else rng.randint(2, 6)
        boot = [{'op': 'new', 'n': n}]
        for name in rng.sample(NAMES, rng.randint(2, 3)):
            kind = rng.choice(world.KINDS)
            boot.append({'op': 'setcolkind', 't': 0, 'name': name, 'kind': kind})
            boot.append({'op': 'setcol', 't': 0, 'name': name,
                         'rhs': {'k': 'seq', 'vs': [pyobs.enc(pick_value(rng, kind, 0)) for _ in range(n)]}})
        for o in boot:
            r.apply(o, seed=seed * 7919 + len(ops_list))
            ops_list.append(o)
    while len(ops_list) < nsteps:
        o = gen_op(rng, r, weights, **kw)
        r.apply(o, seed=seed * 7919 + len(ops_list))
        ops_list.append(o)
    return ops_list
