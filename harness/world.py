"""Running operation histories against the implementation and dumping the
object graph of every live DataMatrix as Coq terms (types of Model/LTable.v,
Spec/Ops.v).  Shared by the state-machine properties C01..C11, C17."""
import random
import warnings

import numpy as np

import coqlit as L
import pyobs

KINDS = ['KMixed', 'KFloat', 'KInt']


def _imports():
    global DataMatrix, MixedColumn, FloatColumn, IntColumn, Index, ops, BaseColumn
    from datamatrix import DataMatrix, MixedColumn, FloatColumn, IntColumn, operations as ops
    from datamatrix._datamatrix._index import Index
    from datamatrix._datamatrix._basecolumn import BaseColumn


def coltype(kind):
    return {'KMixed': MixedColumn, 'KFloat': FloatColumn, 'KInt': IntColumn}[kind]


def kind_of(col):
    t = type(col)
    if t is MixedColumn:
        return 'KMixed'
    if t is FloatColumn:
        return 'KFloat'
    if t is IntColumn:
        return 'KInt'
    return None


# ------------------------------------------------------------------ op -> Coq
def optz(x):
    return L.opt(x, L.z)


def rhs_coq(r):
    if r['k'] == 'scalar':
        return '(RScalar %s)' % pyobs.pyv(pyobs.dec(r['v']))
    # k == 'col': the value was a column object; the runner recorded the cells it held when the operation started
    return '(RSeq %s)' % L.lst(pyobs.pyv(pyobs.dec(v)) for v in r.get('vs', []))


def addr_coq(a):
    k = a['k']
    if k == 'int':
        return '(AInt %s)' % L.z(a['i'])
    if k == 'row':
        return '(ARow %s)' % L.z(a['i'])
    if k == 'slice':
        return '(ASlice %s %s)' % (optz(a['a']), optz(a['b']))
    if k == 'list':
        return '(AList %s)' % L.zs(a['l'])
    if k == 'sel':
        return '(ASel %s)' % L.nat(a['t2'])
    raise AssertionError(a)


def nats(l):
    return L.lst(L.nat(x) for x in l)


def op_coq(o):
    k = o['op']
    if k == 'new':
        return '(ONew %s)' % L.nat(o['n'])
    if k == 'setcolkind':
        return '(OSetColKind %s %s %s)' % (L.nat(o['t']), L.string(o['name']), o['kind'])
    if k == 'setcol':
        return '(OSetCol %s %s %s)' % (L.nat(o['t']), L.string(o['name']), rhs_coq(o['rhs']))
    if k == 'setcolfromcol':
        return '(OSetColFromCol %s %s %s %s)' % (L.nat(o['t']), L.string(o['name']), L.nat(o['t2']), L.string(o['name2']))
    if k == 'setcell':
        return '(OSetCell %s %s %s %s)' % (L.nat(o['t']), L.string(o['name']), addr_coq(o['addr']), rhs_coq(o['rhs']))
    if k == 'select':
        return '(OSelect %s %s %s %s)' % (L.nat(o['t']), L.string(o['name']), o['cmp'], pyobs.val(pyobs.dec(o['ref'])))
    if k == 'merge':
        return '(OMerge %s %s %s)' % (o['mop'], L.nat(o['t']), L.nat(o['t2']))
    if k == 'slice':
        return '(OSlice %s %s %s)' % (L.nat(o['t']), optz(o['a']), optz(o['b']))
    if k == 'getrows':
        return '(OGetRows %s %s)' % (L.nat(o['t']), L.zs(o['l']))
    if k == 'sort':
        return '(OSort %s %s %s)' % (L.nat(o['t']), L.string(o['name']), nats(o.get('perm', [])))
    if k == 'shuffle':
        return '(OShuffle %s %s)' % (L.nat(o['t']), nats(o.get('perm', [])))
    if k == 'sample':
        return '(OSample %s %s %s)' % (L.nat(o['t']), L.z(o['k']), nats(o.get('perm', [])))
    if k == 'setlength':
        return '(OSetLength %s %s)' % (L.nat(o['t']), L.z(o['n']))
    if k == 'delrows':
        return '(ODelRows %s %s)' % (L.nat(o['t']), L.zs(o['l']))
    if k == 'delcol':
        return '(ODelCol %s %s)' % (L.nat(o['t']), L.string(o['name']))
    if k == 'rename':
        return '(ORename %s %s %s %s)' % (L.nat(o['t']), L.string(o['old']), L.string(o['new']),
                                           L.boolean(o['new'].isidentifier() and not _iskeyword(o['new'])))
    if k == 'concat':
        return '(OConcat %s %s)' % (L.nat(o['t']), L.nat(o['t2']))
    if k == 'setsorted':
        return '(OSetSorted %s %s)' % (L.nat(o['t']), L.boolean(o['b']))
    if k == 'setcolfromslice':
        return '(OSetColFromSlice %s %s %s %s)' % (L.nat(o['t']), L.string(o['name']), L.string(o['name2']), L.zs(o['l']))
    raise AssertionError(o)


def _iskeyword(s):
    import keyword
    return keyword.iskeyword(s)


# ------------------------------------------------------------------ dumping
def index_coq(ix, problems):
    if isinstance(ix, Index):
        a = [int(x) for x in ix._a]
        if ix._length != len(a):
            problems.append('Index._length %r != len(_a) %d' % (ix._length, len(a)))
        if ix._metaindex is None:
            meta = 'None'
        else:
            items = sorted(ix._metaindex.items(), key=lambda kv: (kv[1], kv[0]))
            meta = '(Some %s)' % L.lst('(%s, %s)' % (L.N(int(k)), L.nat(int(v))) for k, v in items)
        mx = 'None' if ix._max is None else '(Some %s)' % L.z(int(ix._max))
    elif isinstance(ix, np.ndarray):
        a = [int(x) for x in ix]
        meta, mx = 'None', 'None'
    else:
        problems.append('row index is a %s' % type(ix).__name__)
        a = [int(x) for x in ix]
        meta, mx = 'None', 'None'
    return '{| ia := %s; imeta := %s; imax := %s |}' % (L.lst(L.N(x) for x in a), meta, mx), a


def cells_coq(col, kind, problems):
    seq = col._seq
    out = []
    if kind == 'KMixed':
        if not isinstance(seq, list):
            problems.append('MixedColumn._seq is a %s' % type(seq).__name__)
        for x in seq:
            lit = pyobs.val(x)
            if lit is None:
                problems.append('cell of type %s in a MixedColumn' % type(x).__name__)
                lit = 'VNone'
            out.append(lit)
    else:
        if not isinstance(seq, np.ndarray) or seq.ndim != 1:
            problems.append('%s._seq is %s' % (type(col).__name__, type(seq).__name__))
        want = 'f' if kind == 'KFloat' else 'i'
        if isinstance(seq, np.ndarray) and seq.dtype.kind != want:
            problems.append('%s._seq has dtype %s' % (type(col).__name__, seq.dtype))
        for x in seq:
            if kind == 'KFloat':
                out.append(pyobs.val(float(x)))
            else:
                try:
                    out.append(pyobs.val(int(x)))
                except (ValueError, OverflowError):
                    problems.append('non-integer value %r in an IntColumn' % (x,))
                    out.append('(VInt 0)')
    return L.lst(out)


EMPTY_LTABLE = ('{| l_fam := 0; l_rowid := {| ia := []; imeta := None; imax := None |}; l_names := []; l_cols := []; '
                'l_sorted := true; l_dflt := KMixed |}')


class Runner:
    def __init__(self):
        _imports()
        self.pool = []
        self.famids = {}
        self.last = []            # last dumped literal per pool index

    def fam(self, dm):
        if dm._id not in self.famids:
            self.famids[dm._id] = len(self.famids)
        return self.famids[dm._id]

    def dump_table(self, dm, problems):
        rid, ids = index_coq(dm._rowid, problems)
        objs = []        # distinct column objects in _cols order
        names = []
        for name, col in dm._cols.items():
            for j, o in enumerate(objs):
                if o is col:
                    names.append((name, j))
                    break
            else:
                objs.append(col)
                names.append((name, len(objs) - 1))
        cols = []
        for col in objs:
            kind = kind_of(col)
            if kind is None:
                problems.append('unsupported column type %s' % type(col).__name__)
                kind = 'KMixed'
            crid, _ = index_coq(col._rowid, problems)
            cols.append('{| lc_kind := %s; lc_rowid := %s; lc_cells := %s; lc_owner := %s; lc_tc := %s |}' % (
                kind, crid, cells_coq(col, kind, problems), L.boolean(col._datamatrix is dm),
                L.boolean(col._typechecking is True)))
        dk = {MixedColumn: 'KMixed', FloatColumn: 'KFloat', IntColumn: 'KInt'}.get(dm._default_col_type)
        if dk is None:
            problems.append('default column type %r' % (dm._default_col_type,))
            dk = 'KMixed'
        return ('{| l_fam := %s; l_rowid := %s; l_names := %s; l_cols := %s; l_sorted := %s; l_dflt := %s |}' % (
            L.nat(self.fam(dm)), rid,
            L.lst('(%s, %s)' % (L.string(n), L.nat(j)) for n, j in names),
            L.lst(cols), L.boolean(bool(dm._sorted)), dk))

    def probes(self, dm, problems):
        """Python-side observations that the Coq state cannot express."""
        n = len(dm)
        for name, col in dm._cols.items():
            if len(col) != n:
                problems.append('column %s has %d cells in a %d-row table' % (name, len(col), n))
                continue
            try:
                colwise = list(col)
                rowwise = [row[name] for row in dm]
            except Exception as e:      # noqa: BLE001
                problems.append('row-wise read of %s raised %r' % (name, e))
                continue
            if [pyobs.val(x) for x in colwise] != [pyobs.val(x) for x in rowwise]:
                problems.append('row-wise read of %s differs from column-wise read' % name)
            if col.dm is not dm:
                problems.append('column %s reports another owner' % name)
            nm = col.name
            aliases = [k for k, c in dm._cols.items() if c is col]
            if (nm != name and not (isinstance(nm, list) and sorted(nm) == sorted(aliases))):
                problems.append('column %s reports name %r' % (name, nm))
        try:
            names = dm.column_names
            want = sorted(dm._cols.keys()) if dm._sorted else list(dm._cols.keys())
            if names != want:
                problems.append('column_names %r, expected %r' % (names, want))
            if [n_ for n_, _c in dm.columns] != want:
                problems.append('columns lists %r' % ([n_ for n_, _c in dm.columns],))
        except Exception as e:      # noqa: BLE001
            problems.append('column_names raised %r' % e)

    def snapshot_objects(self):
        """ids of Index/array/_seq objects reachable from the pool, with contents (audits A1, A2)."""
        snap = {}
        for dm in self.pool:
            for ix in [dm._rowid] + [c._rowid for c in dm._cols.values()]:
                if id(ix) not in snap:
                    content = list(ix._a) if isinstance(ix, Index) else [int(x) for x in ix]
                    snap[id(ix)] = (ix, content)
        return snap

    def audit(self, before, problems):
        for key, (obj, content) in before.items():
            now = list(obj._a) if isinstance(obj, Index) else [int(x) for x in obj]
            if now != content:
                problems.append('A1: a row-id object that existed before the operation was mutated in place')
                break
        owners = {}
        seqs = {}
        for i, dm in enumerate(self.pool):
            seen = set()
            for col in dm._cols.values():
                if id(col) in seen:
                    continue
                seen.add(id(col))
                if id(col) in owners and owners[id(col)] != i:
                    problems.append('A2: one column object is held by two DataMatrix objects')
                owners[id(col)] = i
                if id(col._seq) in seqs and seqs[id(col._seq)] is not col:
                    problems.append('A2: one cell storage object is shared by two columns')
                seqs[id(col._seq)] = col
                if isinstance(col._seq, np.ndarray) and col._seq.base is not None:
                    base = col._seq.base
                    for other_id, other in seqs.items():
                        if other is not col and isinstance(other._seq, np.ndarray) and (
                                other._seq is base or other._seq.base is base):
                            problems.append('A2: two columns are views of one buffer')
        cols_ids = {}
        for i, dm in enumerate(self.pool):
            if id(dm._cols) in cols_ids:
                problems.append('A2: two DataMatrix objects share one column dict')
            cols_ids[id(dm._cols)] = i

    # ---------------------------------------------------------------- apply
    def apply(self, o, seed=0):
        """Execute one operation; returns (outcome literal, is_new)."""
        P = self.pool
        k = o['op']
        res = None
        random.seed(seed)
        with warnings.catch_warnings():
            warnings.simplefilter('ignore')
            try:
                if k == 'new':
                    res = DataMatrix(length=o['n'])
                elif k == 'setcolkind':
                    P[o['t']][o['name']] = coltype(o['kind'])
                elif k == 'setcol':
                    r = o['rhs']
                    P[o['t']][o['name']] = pyobs.dec(r['v']) if r['k'] == 'scalar' else [pyobs.dec(v) for v in r['vs']]
                elif k == 'setcolfromslice':
                    dm = P[o['t']]
                    dm[o['name']] = dm[o['name2']][list(o['l'])]
                elif k == 'setcolfromcol':
                    P[o['t']][o['name']] = P[o['t2']][o['name2']]
                elif k == 'setcell':
                    r = o['rhs']
                    a = o['addr']
                    dm = P[o['t']]
                    if r['k'] == 'col':
                        # the value is a live column object (possibly the target itself or an alias of it); what the
                        # property promises is the assignment of the cells it holds now, in order
                        v = P[r['t2']][r['name2']]
                        r['vs'] = [pyobs.enc(x) for x in list(v)]
                        if r.get('as') == 'array':
                            v = v._seq if isinstance(v._seq, np.ndarray) else list(v._seq)
                    else:
                        v = pyobs.dec(r['v']) if r['k'] == 'scalar' else [pyobs.dec(x) for x in r['vs']]
                    if a['k'] == 'row':
                        if a.get('via') == 'iter':
                            # Row objects collected by iterating over the table and used afterwards (max(dm, key=..),
                            # list(dm), tuple unpacking): each must still be the row it was yielded for
                            rows = list(dm)
                            setattr(rows[a['i']], o['name'], v)
                        elif a.get('via') == 'kept':
                            # a Row object taken earlier in the history (dm[i], kept by the caller) and used again after
                            # other operations on its table (rename, row / column deletion, resize, new columns): it
                            # still denotes row i of the table as it is NOW.  Only in-range indices are kept (an
                            # out-of-range Row raises at another point than dm[i] does).
                            kept = self.__dict__.setdefault('kept', {})
                            key_ = (o['t'], a['i'])
                            row = kept.get(key_)
                            if row is None or row._datamatrix is not dm or not (-len(dm) <= a['i'] < len(dm)):
                                row = dm[a['i']]
                                kept[key_] = row
                            setattr(row, o['name'], v)
                        else:
                            setattr(dm[a['i']], o['name'], v)
                    else:
                        col = dm[o['name']]
                        if a['k'] == 'int':
                            col[a['i']] = v
                        elif a['k'] == 'slice':
                            col[a['a']:a['b']] = v
                        elif a['k'] == 'list':
                            col[list(a['l'])] = v
                        elif a['k'] == 'sel':
                            col[P[a['t2']]] = v
                elif k == 'select':
                    col = P[o['t']][o['name']]
                    ref = pyobs.dec(o['ref'])
                    c = o['cmp']
                    res = {'CEq': col.__eq__, 'CNe': col.__ne__, 'CLt': col.__lt__, 'CLe': col.__le__,
                           'CGt': col.__gt__, 'CGe': col.__ge__}[c](ref)
                elif k == 'merge':
                    a, b = P[o['t']], P[o['t2']]
                    res = a & b if o['mop'] == 'MAnd' else (a | b if o['mop'] == 'MOr' else a ^ b)
                elif k == 'slice':
                    res = P[o['t']][o['a']:o['b']]
                elif k == 'getrows':
                    res = P[o['t']][list(o['l'])]
                elif k == 'sort':
                    dm = P[o['t']]
                    res = ops.sort(dm, by=dm[o['name']])
                elif k == 'shuffle':
                    res = ops.shuffle(P[o['t']])
                elif k == 'sample':
                    res = ops.random_sample(P[o['t']], o['k'])
                elif k == 'setlength':
                    P[o['t']].length = o['n']
                elif k == 'delrows':
                    l = o['l']
                    if len(l) == 1:
                        del P[o['t']][l[0]]
                    else:
                        del P[o['t']][tuple(l)]
                elif k == 'delcol':
                    how = o.get('how', 'item')
                    dm = P[o['t']]
                    if how == 'attr':
                        try:
                            delattr(dm, o['name'])
                        except AttributeError as e:
                            # del dm.<missing> is an AttributeError by Python's protocol; the property's ValueError is
                            # about del dm[<missing name>]
                            raise ValueError(str(e))
                    elif how == 'obj' and o['name'] in dm._cols and \
                            sum(1 for c in dm._cols.values() if c is dm._cols[o['name']]) == 1:
                        del dm[dm._cols[o['name']]]       # by object (only when the object has one name)
                    else:
                        del dm[o['name']]
                elif k == 'rename':
                    P[o['t']].rename(o['old'], o['new'])
                elif k == 'concat':
                    res = P[o['t']] << P[o['t2']]
                elif k == 'setsorted':
                    P[o['t']].sorted = o['b']
                else:
                    raise AssertionError(o)
            except AssertionError:
                raise
            except Exception as e:          # noqa: BLE001
                return '(Err %s)' % pyobs.exn_name(e), False
        if res is not None:
            if not isinstance(res, DataMatrix):
                return '(Err OtherError)', False
            # oracle-supplied arguments: the order the implementation produced
            if k in ('sort', 'shuffle', 'sample'):
                src = [int(x) for x in P[o['t']]._rowid]
                try:
                    o['perm'] = [src.index(int(x)) for x in res._rowid]
                except ValueError:
                    o['perm'] = []
            P.append(res)
            return 'OkNew', True
        return 'OkUnit', False


def run_history(ops_list, seed=0):
    """Execute a history; returns (coq steps literal, coq final literal, problems, stats)."""
    r = Runner()
    steps = []
    problems = []
    outcomes = []
    for si, o in enumerate(ops_list):
        before = r.snapshot_objects()
        out, _new = r.apply(o, seed=seed * 7919 + si)
        outcomes.append(out)
        pr = []
        r.audit(before, pr)
        dumps = []
        for i, dm in enumerate(r.pool):
            if i >= len(r.last):
                r.last.append(None)
            try:
                lit = r.dump_table(dm, pr)
            except Exception as e:      # noqa: BLE001  (an object graph the dumper cannot even walk)
                pr.append('the object graph of table %d cannot be dumped: %r' % (i, e))
                lit = r.last[i] or EMPTY_LTABLE
            if r.last[i] != lit:
                r.last[i] = lit
                dumps.append('(%s, %s)' % (L.nat(i), lit))
                try:
                    r.probes(dm, pr)
                except Exception as e:      # noqa: BLE001  (a public read raised)
                    pr.append('reading table %d through its public interface raised %r' % (i, e))
        for p in pr:
            problems.append('step %d (%s): %s' % (si, o['op'], p))
        steps.append('{| so_op := %s; so_out := %s; so_dumps := %s; so_pyok := %s |}' % (
            op_coq(o), out, L.lst(dumps), L.boolean(not pr)))
    final = L.lst(r.last[:len(r.pool)])
    return L.lst(steps), final, problems, {'outcomes': outcomes, 'pool': len(r.pool),
                                             'rows': [len(dm) for dm in r.pool]}
