"""C02 -- column comparison selects exactly the matching rows."""
import math
import operator
import random as _random
import warnings

import numpy as np

import coqlit as L
import pyobs

NAN = float('nan')
INF = float('inf')
KINDS = ['KMixed', 'KFloat', 'KInt']
DERIVS = ['natural', 'sorted', 'shuffled', 'selected', 'concatenated', 'regrown']
# derivations that resize / rebuild / re-derive after the rows were rearranged (fewer sources each, see generate)
DERIVS2 = ['reordered_grown', 'grown_reordered', 'shrunk', 'deleted_grown', 'merged_grown', 'concat_grown', 'unpickled',
           'aliased', 'late_columns', 'sel_sel_sorted', 'ends_fixed']
# derivations through functions that build the returned table column by column and have to hand every column over
# to it (fewer sources each; the compared column is drawn from ALL columns of the derived table, see generate)
DERIVS3 = ['hshuffled_subset', 'hshuffled_all', 'kept_only', 'setcol', 'mapped', 'concat_forms', 'weighted']
# derivations in which the table starts EMPTY, receives its columns (as column objects of another empty / non-empty table,
# by type, or by later assignment) and only then gets its length and cells (the compared column: ANY column, see generate)
DERIVS4 = ['from_empty']
# the statistics of a column: numbers (CallableFloat: a float that can also be called) used as reference scalars
STATS = ['max', 'min', 'mean', 'median', 'std', 'sum']
OPS = {'CEq': operator.eq, 'CNe': operator.ne, 'CLt': operator.lt, 'CLe': operator.le, 'CGt': operator.gt,
       'CGe': operator.ge}
OPNAMES = ['CEq', 'CNe', 'CLt', 'CLe', 'CGt', 'CGe']

CELLS = {
    'KMixed': [0, 1, -1, 2, 7, 2.5, -0.5, NAN, INF, -INF, 'a', 'b', '', None, 2 ** 53 + 1],
    'KFloat': [0.0, -0.0, 1.0, -1.0, 2.0, 2.5, -0.5, 7.0, NAN, INF, -INF, 1e300, 2.0 ** 53],
    'KInt': [0, 1, -1, 2, 7, -3, 100, 5, 2 ** 53, 2 ** 53 + 1, -2 ** 63, 2 ** 63 - 1],
}
# scalar references: the column's own value domain first, then values outside it (judged by the L1 model only)
SCALARS = {
    'KMixed': [0, 1, 2, -1, 7, 3, 2 ** 53 + 1, 0.0, -0.0, 1.0, 2.5, -0.5, NAN, INF, -INF, 1e300, 'a', 'b', '', 'c',
               None, '1', '2.5', True, 2 ** 70],
    'KFloat': [0, 1, 2, -1, 7, 3, 2 ** 53, 0.0, -0.0, 1.0, 2.5, -0.5, 0.3, NAN, INF, -INF, 1e300, 9007199254740992.0,
               'a', '1', '2.5', '', None, True, 2 ** 53 + 1, 2 ** 62],
    'KInt': [0, 1, 2, -1, 7, 3, 100, 2 ** 53, 2 ** 53 + 1, -2 ** 63, 2 ** 63 - 1, 0.0, -0.0, 1.0, 7.0, NAN, INF, -INF,
             2.5, -0.5, 'a', '1', '2.5', '', None, True],
}
# a tame alphabet for the statistics references (small numbers: the statistics are often cells, or lie between cells)
TAME = {
    'KMixed': [0, 1, 2, 3, 5, 7, 7, -1, 2.5, 'a', None, NAN],
    'KFloat': [0.0, 1.0, 2.0, 3.0, 7.0, 7.0, 2.5, -0.5, NAN],
    'KInt': [0, 1, 2, 3, 5, 7, 7, -1, -3, 100],
}
# integers beyond the binary64 range (legitimate MixedColumn cells; float(x) / math.isnan(x) raise OverflowError on them)
HUGE = 2 ** 1024
HUGE_CELLS = [HUGE, NAN, 'a', None, 2.5, -HUGE, INF, 2 ** 1500 + 7]
HUGE_REFS = [NAN, INF, -INF, 1.7976931348623157e308, -1.7976931348623157e308, 1e300, 0.5, 0.0, 0, 1, HUGE, -HUGE, HUGE + 1,
             2 ** 1023, float(2 ** 1023), 2 ** 1500 + 7, 'a', None]
TYPES = {'TInt': int, 'TFloat': float, 'TStr': str, 'TNoneType': type(None), 'TBool': bool, 'TObject': object}


def _p6(x):
    return not isinstance(x, str) and x is not None and x > 0


def _p7(x):
    return x in (2, 'a', None)


# index -> (python function, text); Run/SC02.v pred_family / Run/RC02.v mfun hold the Gallina counterpart
PREDICATES = [
    (lambda x: True, 'lambda x: True'),
    (lambda x: False, 'lambda x: False'),
    (lambda x: x == 1, 'lambda x: x == 1'),
    (lambda x: x != x, 'lambda x: x != x'),
    (lambda x: x is None, 'lambda x: x is None'),
    (lambda x: isinstance(x, str), 'lambda x: isinstance(x, str)'),
    (_p6, 'def f(x): return not isinstance(x, str) and x is not None and x > 0'),
    (_p7, "def f(x): return x in (2, 'a', None)"),
    (lambda x: x, 'lambda x: x   (truth value)'),
    (lambda x: x > 1, 'lambda x: x > 1   (raises on text / None)'),
    (lambda x, y: True, 'lambda x, y: True   (two parameters)'),
    (lambda: True, 'lambda: True   (no parameter)'),
]
N_TOTAL_PREDS = 9


def coltype(kind):
    from datamatrix import MixedColumn, FloatColumn, IntColumn
    return {'KMixed': MixedColumn, 'KFloat': FloatColumn, 'KInt': IntColumn}[kind]


def kind_of(col):
    from datamatrix import MixedColumn, FloatColumn, IntColumn
    return {MixedColumn: 'KMixed', FloatColumn: 'KFloat', IntColumn: 'KInt'}.get(type(col))


def plainval(x):
    if isinstance(x, np.floating):
        return float(x)
    if isinstance(x, np.integer):
        return int(x)
    return x


def dump(dm):
    """(row ids, [(name, kind, [cells])]) of a DataMatrix, columns in creation order."""
    rid = [int(r) for r in dm._rowid]
    cols = []
    for name, col in dm._cols.items():
        cols.append((name, kind_of(col), [plainval(v) for v in col]))
    return rid, cols


def _zbig(n):
    """a compact Coq Z term for a very large integer: 2^e + r, written with Z.shiftl (linear under vm_compute; Z.pow
    multiplies e times), when it lies within 2^64 of a power of two, else a hexadecimal numeral -- parsing a decimal
    numeral of several hundred digits costs 0.1-0.2 s each, and every case prints its cells about twenty times"""
    m = abs(n)
    for e in (m.bit_length() - 1, m.bit_length()):
        r = m - 2 ** e
        if abs(r) < 2 ** 64:
            t = 'Z.shiftl 1 %d' % e + (' + %d' % r if r > 0 else ' - %d' % -r if r < 0 else '')
            break
    else:
        t = '0x%x' % m
    return '(- (%s))' % t if n < 0 else '(%s)' % t


def val_lit(c):
    if type(c) is int and abs(c) >= 2 ** 80:
        return '(VInt %s)' % _zbig(c)
    return pyobs.val(c)


def pyv_lit(v):
    if type(v) is int and abs(v) >= 2 ** 80:
        return '(PInt %s)' % _zbig(v)
    return pyobs.pyv(v)


def dump_lit(d):
    """-> (rid literal, cols literal) or None when a cell is not a plain value"""
    rid, cols = d
    parts = []
    for name, kind, cells in cols:
        lits = [val_lit(c) for c in cells]
        if kind is None or any(x is None for x in lits):
            return None
        parts.append('(%s, %s, %s)' % (L.string(name), kind, L.lst(lits)))
    return L.lst(L.N(r) for r in rid), L.lst(parts)


def same_dump(a, b):
    return repr(_canon(a)) == repr(_canon(b))


def _canon(d):
    rid, cols = d
    return rid, [(n, k, [('f', float(c).hex()) if type(c) is float else (type(c).__name__, c) for c in cells])
                 for n, k, cells in cols]


# ---- references <-> JSON ------------------------------------------------------------------
def enc_ref(r):
    t = r[0]
    if t == 'col':
        return dict(r[1].spec)
    if t == 'stat':
        return dict(r[1].spec, value=pyobs.enc(r[1].plain), cls=type(r[1].obj).__name__)
    if t == 'scalar':
        return {'t': t, 'v': pyobs.enc(r[1])}
    if t in ('seq', 'tuple', 'set'):
        return {'t': t, 'v': [pyobs.enc(x) for x in r[1]]}
    return {'t': t, 'v': r[1]}


def dec_ref(d):
    t = d['t']
    if t == 'scalar':
        return (t, pyobs.dec(d['v']))
    if t in ('seq', 'tuple', 'set'):
        return (t, [pyobs.dec(x) for x in d['v']])
    return (t, d['v'])


class ColRef(object):
    """a reference that is a LIVE COLUMN OBJECT: `col` (of kind `kind`) belongs to `owner` (the source itself, a relative
    of it, or an unrelated table of the same length); `cells` are its cells, row by row, as plain values; `spec` is the
    JSON-able recipe (make_ref rebuilds the object from it)"""
    def __init__(self, col, owner, spec):
        self.col, self.owner, self.spec = col, owner, spec
        self.cells = [plainval(v) for v in col]
        self.kind = kind_of(col)
        self.before = dump(owner)


class StatUnavailable(Exception):
    """computing the statistic (not the operation under test) raised, or did not give a number: the case is dropped"""


class StatRef(object):
    """a reference that is the value of a column statistic (`dm.c.max`, `.min`, `.mean`, `.median`, `.std`, `.sum`): `obj`
    is the object the property returned -- a CallableFloat (a float that is also callable and returns itself), for a
    MixedColumn sometimes a plain number -- and `plain` the same number as a plain Python float / int.  It is a NUMBER:
    the comparison is judged exactly as the comparison with `plain`."""
    def __init__(self, obj, spec):
        self.obj, self.spec = obj, spec
        o = plainval(obj)
        if isinstance(o, bool) or not isinstance(o, (int, float)):
            raise TypeError('statistic %r is not a number' % (obj,))
        self.plain = float(o) if isinstance(o, float) else int(o)


def ref_object(r):
    t, v = r
    if t == 'col':
        return v.col
    if t == 'stat':
        return v.obj
    if t == 'scalar':
        return v
    if t == 'seq':
        return list(v)
    if t == 'tuple':
        return tuple(v)
    if t == 'set':
        return set(v)
    if t == 'pred':
        return PREDICATES[v][0]
    if t == 'type':
        return TYPES[v]
    raise AssertionError(r)


def ref_lit(r):
    t, v = r
    if t == 'col':
        # `column OP other_column` is judged as `column OP [the cells of other_column]` (a same-length sequence)
        return '(OSeq %s)' % L.lst(pyv_lit(x) for x in v.cells)
    if t == 'stat':
        # `column OP column.max` is judged as `column OP <that number as a plain float>`
        return '(OScalar %s)' % pyv_lit(v.plain)
    if t == 'scalar':
        return '(OScalar %s)' % pyv_lit(v)
    if t in ('seq', 'tuple'):
        return '(OSeq %s)' % L.lst(pyv_lit(x) for x in v)
    if t == 'set':
        # the members as the set holds them (duplicates by == / hash collapse, e.g. 1 and 1.0)
        return '(OSet %s)' % L.lst(pyv_lit(x) for x in set(v))
    if t == 'pred':
        return '(OPred %s)' % L.nat(v)
    if t == 'type':
        return '(OType %s)' % v
    raise AssertionError(r)


class C02:
    id = 'C02'
    props_file = 'theories/Props/C02.v'
    kernel_files = ['KSelect.v', 'KCheck.v']
    oracle_vos = ['theories/Run/SC02.vo']
    model_vos = ['theories/Run/RC02.vo']
    oracle_imports = ['From DM Require Import Run.SC02.']
    model_imports = ['From DM Require Import Run.SC02 Run.RC02.']
    exhaustive = False
    rule = ('3 column types x 25 derivations of the source x cell vectors of length 0..6 (thorough: ..10) drawn from a '
            '12-15 value alphabet per type (ints incl. 2^53+1 / int64 bounds, floats incl. nan, +-inf, -0.0, text, None) x '
            'references {int, float incl. nan/+-inf/-0.0, text, numeric text, None, bool, same-length list/tuple (incl. the '
            'column\'s own cells, wrong length), set (0-4 members incl. nan, also with the NaN members being the very float '
            'objects the MixedColumn stores), 12 plain def/lambda functions, 6 types} x all six operators per case; plus one '
            'sweep of every scalar reference against a column holding the whole alphabet. Derivations: natural, ops.sort, '
            'ops.shuffle, a selection/slice of a larger table, a << b, a selection grown again and filled in; and (fewer '
            'sources each) the resize / re-derive zoo: reordered (sort, shuffle, index list, reversed slice, ends fixed, '
            'newest row moved away from the end) then grown and filled; grown then reordered (then grown again); shrunk '
            '(after reordering; then grown: ids handed out again); rows deleted (del dm[i], del dm[[..]], the newest row '
            'included) then grown; a | b, a & b, a ^ b of two selections then grown; reordered << reordered, reordered '
            'and grown; unpickled (protocols 0, 2, highest) then grown; column aliases made before and after deriving, '
            'the aliased column extended once; payload columns added AFTER the derivation and after the growth; a '
            'selection of a selection of a sorted table; tables of >= 6 rows whose first and last row (id) stay in place '
            'while the interior is permuted (ids 0..n-1, an id range with offset, ids with gaps, a grown table), also grown. '
            'Seven more derivations go through functions that assemble the returned table column by column and must hand '
            'every column over to it: ops.shuffle_horiz on a SUBSET of the columns (c and one or two siblings of its type; '
            'the payload columns take no part) and on ALL columns (the table, or every column listed), ops.keep_only / '
            'dm[(names)] / dm[[columns]] / del dm.name, functional.setcol (c rewritten from a list / from a sibling '
            'column, a new column copying c, a constant or typed new column), functional.map_ over the rows and '
            'dm.c = map_(f, dm.c) / dm.z = dm.d @ f, a << b in its other forms (row by row, operands with different '
            'columns, three operands, a dict on the right), ops.weight; each optionally grown / reordered afterwards. On '
            'these the compared column is drawn from ALL columns of the derived table (c, its siblings, new columns, and '
            'the Mixed / Float / Int payload columns with references taken from their own cells), so a column that was '
            'not re-attached to the returned table is compared whatever its role was. A small family puts integers '
            'beyond the binary64 range (2^1024, -2^1024, 2^1500+7: float(x) and math.isnan(x) overflow on them) into a '
            'MixedColumn next to NaN, inf, text and None and compares with NaN, +-inf, the largest floats, 2^1023 as int '
            'and float, huge ints, sets / sequences / predicates / types (natural, sorted, selected, horizontally shuffled). '
            'A family of references that are LIVE COLUMN OBJECTS (dm.a == dm.b; all six operators; every column type on '
            'both sides): the reference column is a column the derived source already has (the compared column itself, '
            'an alias, a sibling, a payload column), a column added to the source that repeats the compared cell in about '
            'half of the rows, a column of a relative (copy / reversed / permuted / resized-and-cut-back table derived '
            'from the source) or of an unrelated table of the same length; judged as the comparison with the list of '
            'that column\'s cells, row by row (L0 oracle and L1 model); the reference column and its table must be '
            'unchanged afterwards. '
            'A family of references that are the STATISTICS of a column (col.max, .min, .mean, .median, .std, .sum: a '
            'CallableFloat, i.e. a float that can also be called and then returns itself; for a MixedColumn sometimes a '
            'plain number or NaN): of the compared column itself (dm.x == dm.x.max), of another column of the source, of '
            'a column of an unrelated table (every column type); all six operators, every column type, every statistic '
            'also against the whole alphabet; the cells half of the time from a tame alphabet (statistics that are cells '
            'or lie between cells); judged exactly as the comparison with that number as a plain float (L0 oracle and '
            'L1 model). '
            'One more derivation builds the table EMPTY (DataMatrix(), length=0, a table cut back to length 0, dm[:0], '
            'an empty selection by value / by set), hands it its columns as column objects of ANOTHER empty table (the '
            'template, made in the same ways with typed columns; dm.c = template.c or setattr), by type, or by later '
            'assignment (by type, straight from a list, as column objects of a non-empty table of the same length that '
            'already holds the cells), and only then gives it its length (dm.length = k, sometimes k+1 then k) and its '
            'cells (whole column, [:], [0:k], cell by cell), possibly growing it a second time; the template then stays '
            'empty or is grown to the same / another length and filled with other cells; the compared column is again '
            'drawn from ALL columns. '
            'Every row carries a unique payload p (MixedColumn) and side by side e = p/2 (FloatColumn) and i = 3p+1 '
            '(IntColumn); the L0 oracle compares the row ids and EVERY column of the result with the positional '
            'selection from the dumped source, and independently (Python side) every result row must be, cell for cell over '
            'all columns and with its row id, a row of the source, in source order, no row repeated. The source is dumped '
            'before/after each comparison; the result must be a new DataMatrix sharing no column object or cell '
            'storage with the source. non-trivial = some operator selects a proper non-empty subset; distinct by '
            '(kind, derivation, cells, reference)')
    trusted_base = [
        'Coq 8.16.1 kernel (coqc; vm_compute for evaluating cases; no native_compute)',
        'translator /verif/translate (pystmt.py, gen_select.py, gen_checktype.py): _compare dispatch chain, _issequence, '
        'op tests and per-cell tests of _compare_nan/_type/_set/_function/_value/_sequence, NumericColumn._compare_value/'
        '_compare_sequence, IntColumn.__eq__/__ne__ -> Gen/KSelect.v; the _checktype chains -> Gen/KCheck.v; loop '
        'skeletons and the materialisation of the result by row id (DataMatrix._selectrowid, BaseColumn._getrowidkey, '
        'NumericColumn._getrowidkey, NumericColumn._rowid_argsort: whole bodies) are pinned (expect_same), not translated',
        'hand-written CPython/NumPy models in Base/PyVal.v and Model/SelectRef.v (==, <, isinstance, math.isnan, np.isnan/'
        'isinf/where, element-wise comparison of a float64/int64 array with a Python number or list, iteration of an '
        'array yielding numpy scalars), exercised by the correspondence',
        'Spec/Table.v py_cmp (CPython comparison of int/float/str/None, raising = no match) and take',
        'harness/c02.py (generator, dumper, pairing of the Python predicates with Run/SC02.v pred_family), harness/pyobs.py',
    ]
    assumptions = [
        'fastnumbers is not installed (checked at run time): the regular _checktype variants are live',
        'reference domain of the claim (Spec/Select.v in_domain): any int/float/text/None for MixedColumn; for FloatColumn '
        'numbers with |int| <= 2^53 and finite references for < <= > >=; for IntColumn int64 integers or integral floats '
        '(|.| <= 2^53, cells then also within 2^53), +-inf/None with ==/!= only; NaN, sets, functions, types with ==/!= '
        'only; sequences of the column length; numeric-looking text, bool and other objects are outside (L1 model only)',
        'elements of sequences and members of sets are compared with plain == (a NaN member matches nothing)',
        'a column object as reference is modelled as the list of its cells (plain Python numbers): MixedColumn and '
        'IntColumn iterate it and type-check every cell as they do for a list; a FloatColumn takes the array of a numeric '
        'reference column as it is (NumericColumn._tosequence) -- the same element-wise comparison, not modelled separately',
        'a statistic of a column used as reference (CallableFloat) is modelled as the plain float of the same value; when '
        'computing the statistic itself raises (not the operation under test) the case is dropped',
        'predicates must not depend on the Python class of a number (NumericColumn hands numpy scalars to them)',
        'set members beyond 2^53 are not generated for a FloatColumn (numpy.float64 == int rounds the int; the L1 model '
        'compares set members exactly)',
        'a FloatColumn is not compared with a list mixing an integer beyond 2^53 and a number beyond int64 (NumPy then '
        'builds an object array and compares exactly; that dtype switch is not modelled)',
        '_getrowidkey is modelled as lookup by row id (the bodies of both _getrowidkey and of _rowid_argsort are pinned; '
        'that argsort+searchsorted and the Index dict are lookups by id on duplicate-free ids is Props/C01.v); '
        'C02_l_select_refines needs duplicate-free row ids in the source -- the derivation zoo is what checks that the '
        'implementation keeps them so through resizes after reordering, deletions, merges, concatenation and pickling',
        'floats of a reference are binary64 values (ref_wf: odd mantissa below 2^53), which is what harness/coqlit.py prints',
        'source unchanged / result is a new object are checked on the Python side (dump before/after, identity, '
        'np.shares_memory), not inside Coq',
    ]

    # ---- building the source ------------------------------------------------------------
    def build(self, kind, deriv, cells, seed):
        """-> source DataMatrix derived in the named way; its column c holds cells of `cells` (the old derivations:
        a rearrangement of all of them; the newer ones may drop some and add alphabet fillers).  Every row carries a
        unique payload p (MixedColumn) and, side by side, e = p / 2 (FloatColumn) and i = 3 p + 1 (IntColumn), so a
        result row whose cells come from different source rows is visible in every column type."""
        import pickle
        from datamatrix import DataMatrix, FloatColumn, IntColumn, MixedColumn, operations as ops, functional as fnc
        rnd = _random.Random(seed)
        ct = coltype(kind)
        alphabet = CELLS[kind]

        def payload(dm, name, ps, key=None):
            """(re)write the payload column `name` for the payload numbers ps at rows key (None: all rows)"""
            vals = {'p': list(ps), 'e': [0.5 * x for x in ps], 'i': [3 * x + 1 for x in ps],
                    't': ['t%d' % x for x in ps]}[name]
            if not vals:
                return
            if key is None:
                dm[name] = vals
            else:
                dm[name][key:] = vals

        def table(cs, start, cols='pei'):
            dm = DataMatrix(length=len(cs))
            dm.p = MixedColumn
            payload(dm, 'p', [start + j for j in range(len(cs))])
            dm.c = ct
            if cs:
                dm.c = list(cs)
            for name in cols[1:]:
                dm[name] = {'e': FloatColumn, 'i': IntColumn, 't': MixedColumn}[name]
                payload(dm, name, [start + j for j in range(len(cs))])
            return dm

        def fillers(m):
            return [rnd.choice(alphabet) for _ in range(m)]

        def grow(dm, cs, start):
            """lengthen dm by len(cs) rows and fill every column of the new rows"""
            k = len(dm)
            if not cs:
                return dm
            dm.length = k + len(cs)
            dm.c[k:] = list(cs)
            ps = [start + j for j in range(len(cs))]
            done = set()
            for name, col in list(dm._cols.items()):
                if name in ('p', 'e', 'i', 't') and id(col) not in done:
                    done.add(id(col))
                    payload(dm, name, ps, k)
            return dm

        def with_extras(cs, extra):
            """cs with `extra` alphabet fillers inserted -> (cells, sorted positions of the fillers)"""
            pos = sorted(rnd.sample(range(len(cs) + extra), extra))
            out, it = [], iter(cs)
            for j in range(len(cs) + extra):
                out.append(rnd.choice(alphabet) if j in pos else next(it))
            return out, pos

        def ends_fixed_perm(m):
            """a permutation of range(m) keeping the first and last position and moving some interior row"""
            mid = list(range(1, m - 1))
            for _ in range(8):
                rnd.shuffle(mid)
                if mid != list(range(1, m - 1)):
                    break
            else:
                mid.reverse()
            return [0] + mid + [m - 1]

        def reorder(dm, mode=None):
            m = len(dm)
            mode = mode or rnd.choice(['sort', 'shuffle', 'index', 'reverse', 'ends', 'lastmoved'])
            if m < 2:
                return dm[:]
            if mode == 'sort':
                return ops.sort(dm, by=dm.c)
            if mode == 'shuffle':
                _random.seed(rnd.randint(0, 10 ** 6))
                return ops.shuffle(dm)
            if mode == 'reverse':
                return dm[::-1]
            if mode == 'ends' and m >= 4:
                return dm[ends_fixed_perm(m)]
            perm = list(range(m))
            rnd.shuffle(perm)
            if mode == 'lastmoved' and perm[-1] == m - 1:
                # the row that was created last (largest row id) does not stay last
                j = rnd.randrange(m - 1)
                perm[j], perm[-1] = perm[-1], perm[j]
            return dm[perm]

        n = len(cells)
        if deriv == 'natural':
            return table(cells, 100)
        if deriv == 'sorted':
            cs = list(cells)
            rnd.shuffle(cs)
            dm = table(cs, 100)
            return ops.sort(dm, by=dm.c)
        if deriv == 'shuffled':
            dm = table(cells, 100)
            _random.seed(seed)
            return ops.shuffle(dm)
        if deriv == 'selected':
            extra = rnd.randint(1, 3)
            filler = [rnd.choice(CELLS[kind]) for _ in range(extra)]
            pos = sorted(rnd.sample(range(len(cells) + extra), extra))
            cs, it = [], iter(cells)
            fi = iter(filler)
            for i in range(len(cells) + extra):
                cs.append(next(fi) if i in pos else next(it))
            dm = table(cs, 100)
            how = rnd.randint(0, 2)
            if how == 0:
                return dm.p != {100 + i for i in pos}
            if how == 1:
                keep = [i for i in range(len(cs)) if i not in pos]
                rnd.shuffle(keep)
                if not keep:
                    return dm.p != {100 + i for i in pos}
                return dm[keep]
            sel = dm.p == (lambda x: (x - 100) not in pos)
            return sel
        if deriv == 'regrown':
            # a selection of a larger table (row ids with gaps) that is grown again and filled in
            k = rnd.randint(0, len(cells))
            extra = rnd.randint(1, 2)
            pos = sorted(rnd.sample(range(k + extra), extra))
            cs, it = [], iter(cells[:k])
            for i in range(k + extra):
                cs.append(rnd.choice(CELLS[kind]) if i in pos else next(it))
            dm = table(cs, 100)
            sel = dm.p != {100 + i for i in pos}
            return grow(sel, cells[k:], 300)
        if deriv == 'concatenated':
            k = rnd.randint(0, len(cells))
            return table(cells[:k], 100) << table(cells[k:], 200)
        # ---- derivations that resize / rebuild after the rows were rearranged ----------------
        k = rnd.randint(min(2, n), n)
        if deriv == 'reordered_grown':
            # rearranged (the newest row need not be last any more), then lengthened and filled in
            dm = reorder(table(cells[:k], 100), rnd.choice(['sort', 'shuffle', 'lastmoved', 'lastmoved', 'reverse', 'ends']))
            tail = list(cells[k:]) or fillers(rnd.randint(1, 2))
            dm = grow(dm, tail, 300)
            if rnd.random() < 0.3:
                dm = grow(reorder(dm), fillers(1), 400)
            return dm
        if deriv == 'grown_reordered':
            dm = grow(table(cells[:k], 100), cells[k:], 300)
            dm = reorder(dm)
            if rnd.random() < 0.5:
                dm = grow(dm, fillers(rnd.randint(1, 2)), 400)
            return dm
        if deriv == 'shrunk':
            cs = list(cells) + fillers(rnd.randint(1, 3))
            dm = table(cs, 100)
            if rnd.random() < 0.7:
                dm = reorder(dm)
            dm.length = n
            if rnd.random() < 0.5:
                dm = grow(dm, fillers(rnd.randint(1, 2)), 300)     # ids above the surviving maximum are handed out again
            return dm
        if deriv == 'deleted_grown':
            cs, pos = with_extras(cells[:k], rnd.randint(1, 3))
            if rnd.random() < 0.4 and len(cs) - 1 not in pos:
                pos = pos[:-1] + [len(cs) - 1] if pos else [len(cs) - 1]   # the newest row goes: its id is reused
                pos = sorted(set(pos))
            dm = table(cs, 100)
            how = rnd.randint(0, 2)
            if how == 0:
                dm = reorder(dm, 'index')
                gone = sorted(rnd.sample(range(len(dm)), min(len(pos), len(dm))))
            else:
                gone = pos
            if how == 1:
                del dm[list(gone)]
            else:
                for j in reversed(gone):
                    del dm[j]
            return grow(dm, list(cells[k:]) or fillers(1), 300)
        if deriv == 'merged_grown':
            cs, _pos = with_extras(cells[:k], rnd.randint(1, 3))
            base = table(cs, 100)
            if rnd.random() < 0.5:
                base = reorder(base)
            m = len(base)
            pa = [j for j in range(m) if rnd.random() < 0.6]
            pb = [j for j in range(m) if rnd.random() < 0.6]
            rnd.shuffle(pb)
            a = base[pa] if pa else base[:0]
            b = base[pb] if pb else base[:0]
            how = rnd.randint(0, 2)
            dm = (a | b) if how == 0 else (a & b) if how == 1 else (a ^ b)
            return grow(dm, list(cells[k:]) or fillers(1), 300)
        if deriv == 'concat_grown':
            a = reorder(table(cells[:k], 100))
            b = reorder(table(cells[k:], 200))
            dm = a << b
            if rnd.random() < 0.5:
                dm = reorder(dm)
            if rnd.random() < 0.6:
                dm = grow(dm, fillers(rnd.randint(1, 2)), 300)
            return dm
        if deriv == 'unpickled':
            dm = reorder(table(cells[:k], 100))
            if rnd.random() < 0.4:
                dm = dm.p != {100 + rnd.randrange(k + 1)}
            dm = pickle.loads(pickle.dumps(dm, protocol=rnd.choice([0, 2, pickle.HIGHEST_PROTOCOL])))
            return grow(dm, cells[k:], 300)
        if deriv == 'aliased':
            # c is also known as q (one column object under two names); derived tables un-alias, the alias is
            # made again on the derived table and the table is grown (the shared column is extended once)
            dm = table(cells[:k], 100)
            dm.q = dm.c
            dm = reorder(dm)
            dm.r = dm.c
            if rnd.random() < 0.5:
                dm.u = dm.i
            dm = grow(dm, cells[k:], 300)
            if rnd.random() < 0.3:
                dm = reorder(dm)
            return dm
        if deriv == 'late_columns':
            # the payload columns e, i, t are added AFTER the table was derived (and before / after it is grown)
            cs, pos = with_extras(cells[:k], rnd.randint(0, 2))
            dm = reorder(table(cs, 100, cols='p'))
            if pos:
                dm = dm.p != {100 + j for j in pos}
            late = ['e', 'i', 't']
            rnd.shuffle(late)
            cut = rnd.randint(0, 3)
            for name in late[:cut]:
                dm[name] = {'e': FloatColumn, 'i': IntColumn, 't': MixedColumn}[name]
                payload(dm, name, [int(x) for x in dm.p])
            dm = grow(dm, cells[k:], 300)
            for name in late[cut:]:
                dm[name] = {'e': FloatColumn, 'i': IntColumn, 't': MixedColumn}[name]
                payload(dm, name, [int(x) for x in dm.p])
            return dm
        if deriv == 'sel_sel_sorted':
            cs, pos = with_extras(cells, rnd.randint(2, 4))
            base = table(cs, 100)
            s = ops.sort(base, by=base.c)
            half = len(pos) // 2
            s1 = s.p != {100 + j for j in pos[:half]}
            drop = {100 + j for j in pos[half:]}
            how = rnd.randint(0, 2)
            if how == 0:
                s2 = s1.p != drop
            elif how == 1:
                s2 = s1.p == (lambda x: x not in drop)
            else:
                keep = [j for j, x in enumerate(s1.p) if x not in drop]
                s2 = s1[keep] if keep else s1.p != {x for x in s1.p}
            if rnd.random() < 0.3:
                s2 = grow(s2, fillers(1), 300)
            return s2
        if deriv == 'ends_fixed':
            # >= 6 rows; the first and the last row (and their row ids) stay in place, the interior is permuted:
            # end-point tests cannot tell such a table from an untouched one
            cs = list(cells) + fillers(max(0, 6 - n))
            how = rnd.randint(0, 3)
            if how == 0:                                       # ids 0..m-1
                dm = table(cs, 100)
            elif how == 1:                                     # ids k0..k0+m-1: a slice of a longer table
                pre, post = rnd.randint(1, 2), rnd.randint(0, 2)
                dm = table(fillers(pre) + cs + fillers(post), 100)[pre:pre + len(cs)]
            elif how == 2:                                     # ids with gaps, ascending
                allc, pos = with_extras(cs[1:-1], rnd.randint(1, 2))
                dm = table(cs[:1] + allc + cs[-1:], 100)
                dm = dm.p != {101 + j for j in pos}
            else:                                              # a grown table
                dm = grow(table(cs[:3], 100), cs[3:], 300)
            dm = dm[ends_fixed_perm(len(dm))]
            if rnd.random() < 0.35:
                dm = grow(dm, fillers(1), 400)
            elif rnd.random() < 0.3:
                dm = dm[ends_fixed_perm(len(dm))]
            return dm
        # ---- derivations through functions that assemble the returned table column by column -------------------
        # (a column left pointing at a temporary table reads correctly by position, but a comparison on it selects
        # from that other table: the comparison is then made on ANY column of the derived table, see generate)
        def sibling(dm, name):
            dm[name] = ct
            if len(dm):
                dm[name] = fillers(len(dm))

        def afterwards(dm, p_grow=0.25, p_reorder=0.15):
            c = rnd.random()
            if c < p_grow:
                return grow(dm, fillers(rnd.randint(1, 2)), 300)
            if c < p_grow + p_reorder:
                return reorder(dm)
            return dm

        if deriv == 'hshuffled_subset':
            # ops.shuffle_horiz on SOME of the columns: c and one or two siblings of its type trade cells row by row;
            # the payload columns take no part and must still belong to (and come back from) the returned table
            dm = table(cells, 100, cols=rnd.choice(['pei', 'peit']))
            sib = ['d'] + (['d2'] if rnd.random() < 0.4 else [])
            for name in sib:
                sibling(dm, name)
            if rnd.random() < 0.4:
                dm = reorder(dm)
            cols = [dm.c] + [dm[name] for name in sib]
            rnd.shuffle(cols)
            _random.seed(seed)
            dm = ops.shuffle_horiz(*cols)
            if rnd.random() < 0.15 and len(dm):
                return dm.p != {plainval(dm.p[0])}
            return afterwards(dm)
        if deriv == 'hshuffled_all':
            # ops.shuffle_horiz on ALL columns (the table itself, or every column listed): only columns that can hold
            # each other's cells take part; the typed payload columns are added afterwards
            dm = table(cells, 100, cols='pt' if (kind == 'KMixed' and rnd.random() < 0.5) else 'p')
            if rnd.random() < 0.6:
                sibling(dm, 'd')
            if rnd.random() < 0.3:
                dm = reorder(dm)
            _random.seed(seed)
            if rnd.random() < 0.5:
                dm = ops.shuffle_horiz(dm)
            else:
                cols = [col for _name, col in dm.columns]
                rnd.shuffle(cols)
                dm = ops.shuffle_horiz(*cols)
            for name in ('e', 'i'):
                if rnd.random() < 0.7:
                    dm[name] = {'e': FloatColumn, 'i': IntColumn}[name]
                    payload(dm, name, [100 + j for j in range(len(dm))])
            return afterwards(dm)
        if deriv == 'kept_only':
            # ops.keep_only / dm[(names)] / dm[[columns]] / del dm.name: a table with fewer columns
            dm = table(cells, 100, cols='peit')
            sibling(dm, 'x')
            dm.y = IntColumn
            if rnd.random() < 0.4:
                dm = reorder(dm)
            keep = ['p', 'c'] + [nm for nm in ('e', 'i', 't', 'x') if rnd.random() < 0.6]
            how = rnd.randint(0, 4)
            if how == 0:
                dm = ops.keep_only(dm, *keep)
            elif how == 1:
                dm = ops.keep_only(dm, *[dm[nm] for nm in keep])
            elif how == 2:
                rnd.shuffle(keep)
                dm = dm[tuple(keep)]
            elif how == 3:
                dm = dm[[nm if rnd.random() < 0.5 else dm[nm] for nm in keep]]
            else:
                for nm in list(dm.column_names):
                    if nm not in keep:
                        if rnd.random() < 0.5:
                            del dm[nm]
                        else:
                            delattr(dm, nm)
            return afterwards(dm)
        if deriv == 'setcol':
            # functional.setcol: a copy of the table with one column (re)written
            src = table(cells, 100)
            if rnd.random() < 0.4:
                src = reorder(src)
            how = rnd.randint(0, 4) if n else 4
            if how == 0:                                    # c rewritten from a list
                dm = fnc.setcol(src, 'c', [plainval(x) for x in src.c][::-1])
            elif how == 1:                                  # a new column holding a copy of c
                dm = fnc.setcol(src, 'z', src.c)
            elif how == 2:                                  # c replaced by the cells of a sibling column of the source
                sibling(src, 'd')
                dm = fnc.setcol(src, 'c', src.d)
            elif how == 3:                                  # a constant column first, then c rewritten
                dm = fnc.setcol(fnc.setcol(src, 'z', 1), 'c', fillers(len(src)))
            else:                                           # a new empty column of c's type
                dm = fnc.setcol(src, 'z', ct)
            return afterwards(dm)
        if deriv == 'mapped':
            # functional.map_ over the rows (a copy written cell by cell), and a mapped column put back into the table
            src = table(cells, 100)
            sibling(src, 'd')
            if rnd.random() < 0.4:
                src = reorder(src)
            how = rnd.randint(0, 4)
            if how == 0:
                dm = fnc.map_(lambda **d: {}, src)
            elif how == 1:
                dm = fnc.map_(lambda **d: {'c': d['d'], 'd': d['c']}, src)
            elif how == 2:
                dm = fnc.map_(lambda **d: {'p': d['p'], 'c': d['c']}, src)
            elif how == 3:
                dm = src
                dm.c = fnc.map_(lambda x: x, dm.c)
            else:
                dm = src
                dm.z = dm.d @ (lambda x: x)
            return afterwards(dm)
        if deriv == 'concat_forms':
            # a << b in its other forms: rows appended one at a time, operands with different columns, three operands,
            # a dict on the right
            a = table(cells[:k], 100)
            rest = list(cells[k:])
            how = rnd.randint(0, 3)
            if how == 3 and not (kind == 'KMixed' and rest):
                how = rnd.randint(0, 2)
            if how == 0:
                b = table(rest, 200)
                dm = a
                for j in range(len(b)):
                    dm = dm << b[j]
                if not len(b):
                    dm = a << b
            elif how == 1:
                b = table(rest, 200, cols='pe')
                sibling(b, 'x')
                dm = (a << b) if rnd.random() < 0.5 else (b << a)
            elif how == 2:
                j = rnd.randint(0, len(rest))
                dm = a << reorder(table(rest[:j], 200)) << table(rest[j:], 300, cols='pie')
            else:
                a = table(cells[:k], 100, cols='pt')
                ps = [200 + j for j in range(len(rest))]
                dm = a << {'p': ps, 'c': rest, 't': ['t%d' % x for x in ps]}
            return afterwards(dm)
        if deriv == 'weighted':
            # ops.weight: a new table written cell by cell, every row repeated w times (w = 0: dropped)
            src = table(cells, 100)
            if rnd.random() < 0.4:
                src = reorder(src)
            if not len(src):
                return afterwards(src[:])
            src.w = [rnd.choice([0, 1, 1, 2]) for _ in range(len(src))]
            return afterwards(ops.weight(src.w))
        if deriv == 'from_empty':
            # The table starts EMPTY (made in one of six ways), receives its columns -- as column objects of ANOTHER
            # empty table (the template), by type, or by later assignment (by type, from a list, as column objects of a
            # non-empty table of the same length) -- and only then gets its length and its cells (whole column, slice,
            # cell by cell; possibly in two steps).  The template then goes its own way (stays empty, or is grown and
            # filled with other cells).  A column that stayed attached to the table it was copied from sits in the new
            # table and reads correctly, but a comparison on it selects from the other table.
            tnames = {'p': MixedColumn, 'c': ct, 'e': FloatColumn, 'i': IntColumn, 't': MixedColumn}
            names = ['p', 'c', 'e', 'i'] + (['t'] if rnd.random() < 0.3 else [])
            colset = ''.join(names).replace('c', '')

            def empty(mode, typed):
                if mode >= 3:
                    src = table(fillers(rnd.randint(1, 3)), 500, cols=colset)
                    if mode == 3:
                        return src[:0]
                    if mode == 4:
                        return src.p == 'no such row'
                    return src.p == set()
                if mode == 0:
                    dm = DataMatrix()
                elif mode == 1:
                    dm = DataMatrix(length=0)
                else:
                    dm = DataMatrix(length=rnd.randint(1, 3))
                    if typed and rnd.random() < 0.5:
                        for nm in names:
                            dm[nm] = tnames[nm]
                        typed = False
                    dm.length = 0
                if typed:
                    for nm in names:
                        dm[nm] = tnames[nm]
                return dm

            def values(nm, cs, start):
                ps = [start + j for j in range(len(cs))]
                return {'p': ps, 'c': list(cs), 'e': [0.5 * x for x in ps], 'i': [3 * x + 1 for x in ps],
                        't': ['t%d' % x for x in ps]}[nm]

            def fill(dm, nm, vals):
                how = rnd.randint(0, 3)
                if how == 0:
                    dm[nm] = vals
                elif how == 1:
                    dm[nm][:] = vals
                elif how == 2:
                    dm[nm][0:len(vals)] = vals
                else:
                    for j, v in enumerate(vals):
                        dm[nm][j] = v

            template = empty(rnd.choice([0, 0, 1, 1, 2, 3, 4, 5]), True)
            dm = empty(rnd.choice([0, 0, 0, 1, 1, 2, 3, 4, 5]), False)
            order = list(names)
            rnd.shuffle(order)
            for nm in order:
                how = rnd.choice(['object', 'object', 'object', 'type', 'late'])
                if how == 'object':
                    if rnd.random() < 0.5:
                        dm[nm] = template[nm]
                    else:
                        setattr(dm, nm, getattr(template, nm))
                elif how == 'type':
                    dm[nm] = tnames[nm]
            k = rnd.choice([n, n, rnd.randint(0, n)])
            if k:
                if rnd.random() < 0.2:
                    dm.length = k + 1
                dm.length = k
            donor = None
            for nm in order:
                vals = values(nm, cells[:k], 100)
                if nm not in dm:
                    how = rnd.randint(0, 2)
                    if how == 0 and k and tnames[nm] is MixedColumn:
                        dm[nm] = vals                       # a new column straight from a list
                        continue
                    if how == 1:
                        # the column object of a table of the same length that already holds these cells
                        donor = donor or table(cells[:k], 100, cols=colset)
                        dm[nm] = donor[nm]
                        if rnd.random() < 0.7:
                            continue
                    else:
                        dm[nm] = tnames[nm]
                if k:
                    fill(dm, nm, vals)
            way = rnd.randint(0, 2)
            if way:
                # the template goes its own way: other cells, the same or another length
                m = (max(n, 1) + rnd.randint(0, 1)) if way == 1 else rnd.randint(1, 2)
                template.length = m
                other = (list(cells)[::-1] + fillers(m))[:m]
                for nm in names:
                    fill(template, nm, values(nm, other, 900))
            if donor is not None and rnd.random() < 0.5:
                donor.length = len(donor) + 1
            dm = grow(dm, cells[k:], 300)
            return afterwards(dm, 0.15, 0.15)
        raise AssertionError(deriv)

    # ---- one case ------------------------------------------------------------------------
    def rerun(self, inp):
        from datamatrix import DataMatrix
        kind, deriv, seed = inp['kind'], inp['deriv'], inp['seed']
        cells = [pyobs.dec(c) for c in inp['cells']]
        ops = inp['ops']
        colname = inp.get('col', 'c')       # the column compared (the newer derivations: any column of the table)
        with warnings.catch_warnings():
            warnings.simplefilter('ignore')
            try:
                dm = self.build(kind, deriv, cells, seed)
                if colname not in dm._cols:
                    return None
                ref = self.make_ref(inp['ref'], dm, colname)
                before = dump(dm)
            except StatUnavailable:
                return None
            except Exception as e:      # noqa: BLE001
                # deriving the source is not the operation under test, but a crash is not a verdict either: on the
                # unchanged tree every recipe of build() runs through for every cell vector
                return {'input': inp, 'observed': [{'build': '%s: %s' % (type(e).__name__, e)}],
                        'pyfail': 'deriving the source (%s) raised %s: %s' % (deriv, type(e).__name__, e),
                        'oracle': 'true', 'model': 'true', 'nontrivial': False,
                        'sig': 'build|%s|%s|%s|%s' % (kind, deriv, inp['cells'], seed), 'tags': [kind, deriv, 'build-raised']}
            src_lit = dump_lit(before)
            pyfail = None
            ckind = kind_of(dm._cols[colname])
            if src_lit is None or ckind is None or (colname == 'c' and ckind != kind):
                return None
            obs_lits, observed = [], []
            sizes = []
            for k_op, opn in enumerate(ops):
                refobj = ref_object(ref)
                try:
                    res = OPS[opn](dm[colname], refobj)
                    out = ('ok', res)
                except Exception as e:      # noqa: BLE001
                    out = ('exn', pyobs.exn_name(e))
                if inp.get('between'):
                    # other operations on the source between two comparisons (results discarded): column and table
                    # shuffles / samples / sorts copy and permute row-id objects whose caches the comparison filled
                    import random as _random
                    from datamatrix import operations as _ops
                    _random.seed(seed * 31 + k_op)
                    try:
                        for use in inp['between']:
                            if use == 'shuffle_col':
                                _ops.shuffle(dm.c)
                            elif use == 'shuffle_p':
                                _ops.shuffle(dm.p)
                            elif use == 'shuffle_dm':
                                _ops.shuffle(dm)
                            elif use == 'sample':
                                _ops.random_sample(dm, min(2, len(dm)))
                            elif use == 'sort':
                                _ops.sort(dm, by=dm.p)
                            elif use == 'shuffle_res' and out[0] == 'ok' and isinstance(out[1], DataMatrix):
                                _ops.shuffle(out[1])
                    except Exception as e:      # noqa: BLE001
                        pyfail = pyfail or 'an operation between two comparisons raised %r' % (e,)
                after = dump(dm)
                if not same_dump(before, after) and pyfail is None:
                    pyfail = 'the source changed during %s: %r -> %r' % (opn, before, after)
                if ref[0] == 'col' and pyfail is None:
                    cr = ref[1]
                    if not same_dump(cr.before, dump(cr.owner)):
                        pyfail = 'the table of the reference column changed during %s: %r -> %r' % (
                            opn, cr.before, dump(cr.owner))
                    elif not any(c is cr.col for c in cr.owner._cols.values()) or cr.col._datamatrix is not cr.owner:
                        pyfail = 'the reference column no longer belongs to its table after %s' % opn
                if out[0] == 'exn':
                    obs_lits.append('(%s, ObsRaise %s)' % (opn, out[1]))
                    observed.append({'op': opn, 'raises': out[1]})
                    continue
                res = out[1]
                if not isinstance(res, DataMatrix):
                    pyfail = pyfail or '%s returned %s, not a DataMatrix' % (opn, type(res).__name__)
                    obs_lits.append('(%s, ObsRaise OtherError)' % opn)
                    observed.append({'op': opn, 'returned': type(res).__name__})
                    continue
                d = dump(res)
                lit = dump_lit(d)
                if lit is None:
                    pyfail = pyfail or '%s: result holds a cell that is not a plain int/float/str/None' % opn
                    obs_lits.append('(%s, ObsRaise OtherError)' % opn)
                    continue
                why = self.fresh(dm, res)
                if why and pyfail is None:
                    pyfail = '%s: %s' % (opn, why)
                if len(set(len(c) for _n, _k, c in d[1])) > 1 or any(len(c) != len(d[0]) for _n, _k, c in d[1]):
                    pyfail = pyfail or '%s: result columns differ in length' % opn
                else:
                    why = self.rows_intact(before, d)
                    if why and pyfail is None:
                        pyfail = '%s: %s' % (opn, why)
                obs_lits.append('(%s, ObsOk %s %s)' % (opn, lit[0], lit[1]))
                pcol = [c for n, _k, c in d[1] if n == 'p']
                observed.append({'op': opn, 'rows': pcol[0] if pcol else None})
                sizes.append(len(d[0]))
        rlit = ref_lit(ref)
        xs = L.lst(obs_lits)
        n = len(before[0])
        args = '%s %s %s %s %s' % (src_lit[0], src_lit[1], L.string(colname), rlit, xs)
        return {
            'input': dict(inp, ref=(dict(enc_ref(ref), shared=True) if inp['ref'].get('shared') else enc_ref(ref))),
            'observed': observed, 'pyfail': pyfail,
            'oracle': '(oracle %s)' % args,
            'model': '(model_agrees %s)' % args,
            'aux': '(some_in_dom %s %s %s %s)' % (src_lit[1], L.string(colname), rlit, xs),
            'nontrivial': any(0 < s < n for s in sizes),
            'sig': '%s|%s|%s|%s%s%s%s' % (kind, deriv, src_lit[1],
                                          rlit + ('|colref:%s/%s' % (inp['ref']['where'], ref[1].kind) if ref[0] == 'col' else '')
                                          + ('|stat:%s' % type(ref[1].obj).__name__ if ref[0] == 'stat' else ''),
                                          '|shared' if inp['ref'].get('shared') else '',
                                          '|' + ','.join(inp['between']) if inp.get('between') else '',
                                          '|col=' + colname if colname != 'c' else ''),
            'tags': [kind, deriv, 'ref:' + self.ref_tag(ref), 'len%d' % n] + (['shared-nan'] if inp['ref'].get('shared') else [])
            + (['col:%s/%s' % (colname if colname in 'peit' else 'other', ckind)] if colname != 'c' else [])
            + (['colref:%s' % inp['ref']['where'], 'colref:%s-vs-%s' % (ckind, ref[1].kind)] if ref[0] == 'col' else [])
            + (['stat:%s' % inp['ref']['stat'], 'stat-of:%s' % inp['ref']['of'], 'stat-class:%s' % type(ref[1].obj).__name__,
                'stat-value:%s' % ('nan' if ref[1].plain != ref[1].plain else 'inf' if ref[1].plain in (INF, -INF) else
                                   'integral' if ref[1].plain == int(ref[1].plain) else 'fraction')]
               if ref[0] == 'stat' else [])
            + (['huge-int-cell'] if any(type(x) is int and abs(x) >= HUGE for nm, _k, c in before[1] if nm == colname
                                        for x in c) else []),
        }

    def ref_tag(self, ref):
        t, v = ref
        if t == 'col':
            return 'column-object'
        if t == 'stat':
            return 'statistic'
        if t == 'scalar':
            if type(v) is float:
                return 'nan' if v != v else ('inf' if math.isinf(v) else 'float')
            return {int: 'int', str: 'str', bool: 'bool', type(None): 'None'}.get(type(v), 'other')
        return t

    def rows_intact(self, before, d):
        """Python-side row integrity: every result row is, cell for cell over ALL columns (and with its row id), a row
        of the source, no source row occurs more often than in the source, and the rows keep the source's order.
        Rows are compared whole, so a result whose Mixed / Float / Int cells come from different source rows is seen
        even when the payload p alone looks right."""
        def rows(dd):
            rid, cols = _canon(dd)
            return [(rid[j],) + tuple(repr(c[j]) for _n, _k, c in cols) for j in range(len(rid))]
        if [(n, k) for n, k, _c in before[1]] != [(n, k) for n, k, _c in d[1]]:
            return 'result columns %r differ from the source columns %r' % (
                [(n, k) for n, k, _c in d[1]], [(n, k) for n, k, _c in before[1]])
        src, j = rows(before), 0
        for r in rows(d):
            while j < len(src) and src[j] != r:
                j += 1
            if j == len(src):
                return ('result row %r is not a row of the source at or after the previous result row '
                        '(cells of different rows mixed, a row repeated, or rows out of source order)' % (r,))
            j += 1
        return None

    def fresh(self, dm, res):
        if res is dm:
            return 'the result is the source object itself'
        if res._cols is dm._cols:
            return 'the result shares the column dict of the source'
        for name, col in res._cols.items():
            src = dm._cols.get(name)
            if src is None:
                return 'result has a column %r the source lacks' % name
            if col is src:
                return 'column %r of the result is the column object of the source' % name
            if col._datamatrix is not res:
                return 'column %r of the result does not belong to the result' % name
            if isinstance(col._seq, np.ndarray):
                if len(col._seq) and np.shares_memory(col._seq, src._seq):
                    return 'column %r of the result shares its array with the source' % name
            elif col._seq is src._seq:
                return 'column %r of the result shares its list with the source' % name
        if list(res._cols.keys()) != list(dm._cols.keys()):
            return 'result columns %r differ from the source columns %r' % (list(res._cols), list(dm._cols))
        return None

    def make_ref(self, r, dm, colname='c'):
        """A reference spec may depend on the derived source: 'own' = the column's current cells, 'ownscalar' = one
        of them, 'ownset' = up to three of them (for the payload columns, whose cells no alphabet lists)."""
        col = dm._cols[colname]
        if r['t'] == 'col':
            return ('col', self.col_ref(r, dm, colname))
        if r['t'] == 'stat':
            return ('stat', self.stat_ref(r, dm, colname))
        if r['t'] in ('own', 'ownscalar', 'ownset'):
            cells = [plainval(v) for v in col]
            rnd = _random.Random(r['v'])
            alt = SCALARS[kind_of(col)][:12]
            if r['t'] == 'own':
                return ('seq', [c if rnd.random() < 0.6 else rnd.choice(alt) for c in cells])
            if r['t'] == 'ownscalar':
                return ('scalar', rnd.choice(cells) if cells else alt[0])
            return ('set', [rnd.choice(cells) for _ in range(rnd.randint(1, 3))] if cells else [])
        ref = dec_ref(r)
        if r.get('shared') and ref[0] == 'set' and isinstance(col._seq, list):
            # the NaN members of the set are the very float objects the column stores (a MixedColumn keeps the
            # object it was given): `x in set` / `x == y` short-cuts on identity must not make NaN match
            own = [x for x in col._seq if type(x) is float and x != x]
            if own and any(type(x) is float and x != x for x in ref[1]):
                ref = ('set', [x for x in ref[1] if not (type(x) is float and x != x)] + own)
        return ref

    def stat_ref(self, r, dm, colname):
        """the reference is the statistic r['stat'] (max, min, mean, median, std, sum) of
        'self'    the compared column itself (dm.x == dm.x.max);
        'column'  another column of the source (falls back to the compared column when there is none);
        'ext'     a column of kind r['kind'] of an unrelated table.
        The properties return a CallableFloat: an ordinary float that can also be called (and then returns itself)."""
        from datamatrix import DataMatrix
        rnd = _random.Random(r['seed'])
        of = r['of']
        if of == 'ext':
            k2 = r['kind']
            m = rnd.randint(1, 5)
            other = DataMatrix(length=m)
            other.o = coltype(k2)
            other.o = [rnd.choice(CELLS[k2]) for _ in range(m)]
            col = other.o
        else:
            names = [nm for nm, c in dm._cols.items() if kind_of(c) in KINDS and nm != colname]
            col = dm[rnd.choice(names)] if (of == 'column' and names) else dm[colname]
        try:
            return StatRef(getattr(col, r['stat']), r)
        except Exception as e:      # noqa: BLE001
            raise StatUnavailable('%s: %s' % (type(e).__name__, e))

    def col_ref(self, r, dm, colname):
        """the reference is a live column object of kind r['kind']:
        'same'     a column the derived source already has (the compared column itself, an alias, a sibling, a payload
                   column); falls back to 'samenew' when the source has no column of that kind;
        'samenew'  a column added to the source now, holding the compared column's cell in about half of the rows;
        'relative' a column of a table derived from the source (copy, reversed, permuted: same length, other row
                   order), either the relative's own copy of the compared column or a column added to the relative;
        'other'    a column of an unrelated table of the same length.
        The comparison is positional (row j of the column against cell j of the reference), whatever the row ids."""
        from datamatrix import DataMatrix
        rnd = _random.Random(r['seed'])
        where, k2 = r['where'], r['kind']
        target = dm._cols[colname]
        tcells = [plainval(v) for v in target]
        n = len(dm)

        def fits(c):
            if k2 == 'KMixed':
                return True
            if k2 == 'KFloat':
                return type(c) is float or (type(c) is int and abs(c) <= 2 ** 53)
            return type(c) is int and -2 ** 63 <= c < 2 ** 63

        def operand(owner):
            owner['o'] = coltype(k2)
            if n:
                owner['o'] = [c if (fits(c) and rnd.random() < 0.5) else rnd.choice(CELLS[k2]) for c in tcells]
            return owner._cols['o']

        if where == 'same':
            names = [nm for nm, c in dm._cols.items() if kind_of(c) == k2]
            if names:
                return ColRef(dm._cols[rnd.choice(names)], dm, r)
            where = 'samenew'
        if where == 'samenew':
            return ColRef(operand(dm), dm, r)
        if where == 'relative':
            how = rnd.randint(0, 3)
            if how == 0 or n < 2:
                rel = dm[:]
            elif how == 1:
                rel = dm[::-1]
            elif how == 2:
                perm = list(range(n))
                rnd.shuffle(perm)
                rel = dm[perm]
            else:
                rel = dm[:]
                rel.length = n + 1          # a relative that was resized and cut back to the same length
                rel.length = n
            if kind_of(rel._cols[colname]) == k2 and rnd.random() < 0.5:
                return ColRef(rel._cols[colname], rel, r)
            return ColRef(operand(rel), rel, r)
        assert where == 'other', where
        other = DataMatrix(length=n)
        other.p = list(range(n))
        return ColRef(operand(other), other, r)

    # ---- generation -----------------------------------------------------------------------
    def random_ref(self, rng, kind, n, which):
        sc = SCALARS[kind]
        dom = {'KMixed': sc[:21], 'KFloat': sc[:18], 'KInt': sc[:12]}[kind]
        if which == 'scalar':
            return {'t': 'scalar', 'v': pyobs.enc(rng.choice(sc))}
        if which == 'seq':
            c = rng.random()
            if c < 0.35:
                return {'t': 'own', 'v': rng.randint(0, 10 ** 6)}
            if c < 0.45:
                m = n + rng.choice([-1, 1, 2]) if n else 1
                return {'t': 'seq', 'v': [pyobs.enc(rng.choice(dom)) for _ in range(max(m, 0))]}
            pool = dom if c < 0.85 else sc
            vs = [rng.choice(pool) for _ in range(n)]
            if kind == 'KFloat' and any(type(x) in (int, float) and math.isfinite(x) and abs(x) >= 2 ** 63 for x in vs):
                # a list holding an integer beyond int64 becomes an object array, which compares exactly where a
                # numeric array rounds integers beyond 2^53: that dtype switch is not modelled
                vs = [2 ** 53 if type(x) is int and abs(x) > 2 ** 53 else x for x in vs]
            return {'t': rng.choice(['seq', 'tuple']), 'v': [pyobs.enc(x) for x in vs]}
        if which == 'set':
            pool = dom if rng.random() < 0.8 else sc
            if kind == 'KFloat':
                # numpy.float64 == <int beyond 2^53> rounds the int; the L1 model compares set members exactly
                pool = [x for x in pool if not (type(x) is int and abs(x) > 2 ** 53)]
            vs = [rng.choice(pool) for _ in range(rng.randint(0, 3))]
            if kind != 'KInt' and rng.random() < 0.35:
                vs.append(NAN)
            r = {'t': 'set', 'v': [pyobs.enc(x) for x in vs]}
            if any(type(x) is float and x != x for x in vs) and rng.random() < 0.7:
                r['shared'] = True          # NaN members are the column's own NaN objects (see make_ref)
            return r
        if which == 'pred':
            return {'t': 'pred', 'v': rng.randrange(len(PREDICATES)) if rng.random() < 0.3 else rng.randrange(N_TOTAL_PREDS)}
        if which == 'type':
            return {'t': 'type', 'v': rng.choice(sorted(TYPES))}
        raise AssertionError(which)

    def generate(self, rng, tier):
        import datamatrix._datamatrix._basecolumn as bc
        import datamatrix._datamatrix._numericcolumn as nc
        assert not bc.fastnumbers and nc.fastnumbers is None, 'fastnumbers present: kernels assume it is not'
        cases = []
        seen = set()

        def add(inp):
            c = self.rerun(inp)
            if c is not None and c['sig'] not in seen:
                seen.add(c['sig'])
                cases.append(c)
        # sweep: every scalar reference, every type, every predicate against the whole alphabet
        for kind in KINDS:
            cells = [pyobs.enc(c) for c in CELLS[kind]]
            base = {'kind': kind, 'deriv': 'natural', 'cells': cells, 'seed': 1, 'ops': OPNAMES}
            for v in SCALARS[kind]:
                add(dict(base, ref={'t': 'scalar', 'v': pyobs.enc(v)}))
            for t in sorted(TYPES):
                add(dict(base, ref={'t': 'type', 'v': t}))
            for i in range(len(PREDICATES)):
                add(dict(base, ref={'t': 'pred', 'v': i}))
            add(dict(base, ref={'t': 'set', 'v': []}))
            add(dict(base, ref={'t': 'set', 'v': [pyobs.enc(NAN)]}))
            add(dict(base, ref={'t': 'set', 'v': [pyobs.enc(NAN)], 'shared': True}))
            add(dict(base, ref={'t': 'set', 'v': [pyobs.enc(NAN), pyobs.enc(1)], 'shared': True}))
        per_len = 3 if tier == 'quick' else 8
        maxlen = 6 if tier == 'quick' else 10
        refs_per_source = 5 if tier == 'quick' else 6
        whiches = ['scalar', 'seq', 'set', 'pred', 'type', 'scalar', 'seq', 'set']
        nsrc = 0
        for kind in KINDS:
            for deriv in DERIVS + DERIVS2:
                first = deriv in DERIVS
                for n in range(0, maxlen + 1):
                    reps = (1 if n == 0 else per_len) if first else (1 if n < 3 else 2 if tier == 'quick' else 5)
                    for _ in range(reps):
                        cells = [pyobs.enc(rng.choice(CELLS[kind])) for _ in range(n)]
                        seed = rng.randint(0, 10 ** 6)
                        m = self.source_length(kind, deriv, cells, seed, n)
                        nsrc += 1
                        for j in range(refs_per_source if first else refs_per_source - 1):
                            which = whiches[j % len(whiches)] if first else whiches[(j + nsrc) % 5]
                            inp_ = {'kind': kind, 'deriv': deriv, 'cells': cells, 'seed': seed, 'ops': OPNAMES,
                                    'ref': self.random_ref(rng, kind, m, which)}
                            if rng.random() < 0.25:
                                inp_['between'] = rng.sample(['shuffle_col', 'shuffle_p', 'shuffle_dm', 'sample', 'sort',
                                                              'shuffle_res'], rng.randint(1, 3))
                            add(inp_)
        # references that are LIVE COLUMN OBJECTS (dm.a == dm.b): every column type on both sides, the reference column
        # taken from the source itself, from a relative or from an unrelated table of the same length
        allderivs = DERIVS + DERIVS2 + DERIVS3 + DERIVS4
        for kind in KINDS:
            for k2 in KINDS:
                for where in ('same', 'samenew', 'relative', 'other'):
                    for rep in range(2 if tier == 'quick' else 6):
                        n = rng.randint(2, maxlen) if rep or where == 'same' else rng.randint(0, 1)
                        cells = [pyobs.enc(rng.choice(CELLS[kind])) for _ in range(n)]
                        inp_ = {'kind': kind, 'deriv': 'natural' if (rep == 0 and where == 'samenew') else rng.choice(allderivs),
                                'cells': cells, 'seed': rng.randint(0, 10 ** 6), 'ops': OPNAMES,
                                'ref': {'t': 'col', 'where': where, 'kind': k2, 'seed': rng.randint(0, 10 ** 6)}}
                        if rng.random() < 0.15:
                            inp_['between'] = rng.sample(['shuffle_col', 'shuffle_p', 'shuffle_dm', 'sample', 'sort',
                                                          'shuffle_res'], rng.randint(1, 2))
                        add(inp_)
        # references that are the STATISTICS of a column (CallableFloat: a float that is also callable): of the compared
        # column itself, of another column of the source, of a column of an unrelated table; all six operators; the
        # cells half of the time from a tame alphabet (statistics that are cells, proper non-empty selections)
        for kind in KINDS:
            whole = [pyobs.enc(c) for c in CELLS[kind]]
            for stat in STATS:
                add({'kind': kind, 'deriv': 'natural', 'cells': whole, 'seed': 1, 'ops': OPNAMES,
                     'ref': {'t': 'stat', 'stat': stat, 'of': 'self', 'seed': 0}})
                for of in ('self', 'column', 'ext'):
                    for rep in range(2 if tier == 'quick' else 6):
                        n = rng.randint(2, maxlen) if (rep or rng.random() < 0.8) else rng.randint(0, 1)
                        pool = TAME[kind] if rng.random() < 0.5 else CELLS[kind]
                        cells = [pyobs.enc(rng.choice(pool)) for _ in range(n)]
                        inp_ = {'kind': kind, 'deriv': 'natural' if rep == 0 else rng.choice(allderivs),
                                'cells': cells, 'seed': rng.randint(0, 10 ** 6), 'ops': OPNAMES,
                                'ref': {'t': 'stat', 'stat': stat, 'of': of, 'seed': rng.randint(0, 10 ** 6)}}
                        if of == 'ext':
                            inp_['ref']['kind'] = rng.choice(KINDS)
                        if rng.random() < 0.1:
                            inp_['between'] = rng.sample(['shuffle_col', 'shuffle_p', 'shuffle_dm', 'sample', 'sort',
                                                          'shuffle_res'], rng.randint(1, 2))
                        add(inp_)
        # integers beyond the binary64 range as MixedColumn cells, against NaN / inf / float / huge references of every
        # kind (a handful of cases: each such numeral is several hundred digits)
        hcells = [pyobs.enc(c) for c in HUGE_CELLS]
        for deriv in ('natural', 'sorted', 'selected', 'hshuffled_subset'):
            base = {'kind': 'KMixed', 'deriv': deriv, 'cells': hcells, 'seed': rng.randint(0, 10 ** 6), 'ops': OPNAMES}
            full = deriv == 'natural'
            for v in (HUGE_REFS if full else HUGE_REFS[:3] + rng.sample(HUGE_REFS[3:], 2)):
                add(dict(base, ref={'t': 'scalar', 'v': pyobs.enc(v)}))
            for vs in ([NAN], [NAN, HUGE], [INF, 1], [-HUGE, 2.5])[:4 if full else 2]:
                add(dict(base, ref={'t': 'set', 'v': [pyobs.enc(x) for x in vs]}))
            add(dict(base, ref={'t': 'set', 'v': [pyobs.enc(NAN)], 'shared': True}))
            add(dict(base, ref={'t': 'own', 'v': rng.randint(0, 10 ** 6)}))
            m = self.source_info('KMixed', deriv, hcells, base['seed'], len(hcells))[0]
            add(dict(base, ref={'t': 'seq', 'v': [pyobs.enc(rng.choice([NAN, INF, 0.5, HUGE, 1])) for _ in range(m)]}))
            for i in (3, 6, 8, 9) if full else (3,):
                add(dict(base, ref={'t': 'pred', 'v': i}))
            for t in ('TInt', 'TFloat') if full else ():
                add(dict(base, ref={'t': 'type', 'v': t}))
        # tables assembled column by column (DERIVS3): the comparison is made on any column of the derived table
        for kind in KINDS:
            for deriv in DERIVS3 + DERIVS4:
                for n in range(0, maxlen + 1):
                    # (the from-empty derivation has many variants: how either table is made, how every column arrives,
                    # how the cells are written, what becomes of the template)
                    for _ in range((1 if (tier == 'quick' or n < 2) else 4) * (4 if deriv in DERIVS4 else 1)):
                        cells = [pyobs.enc(rng.choice(CELLS[kind])) for _ in range(n)]
                        seed = rng.randint(0, 10 ** 6)
                        m, cols = self.source_info(kind, deriv, cells, seed, n)
                        cols = [(nm, kd) for nm, kd in cols if kd in KINDS] or [('c', kind)]
                        special = [(nm, kd) for nm, kd in cols if nm not in ('p', 'e', 'i', 't', 'w', 'y')]
                        nsrc += 1
                        for j in range(refs_per_source - 1):
                            colname, ckind = rng.choice(special) if (j < 2 and special) else rng.choice(cols)
                            which = whiches[(j + nsrc) % 5]
                            if colname in ('p', 'e', 'i', 't', 'w') and which in ('scalar', 'set') and rng.random() < 0.7:
                                ref = {'t': 'own' + which, 'v': rng.randint(0, 10 ** 6)}
                            else:
                                ref = self.random_ref(rng, ckind, m, which)
                            inp_ = {'kind': kind, 'deriv': deriv, 'cells': cells, 'seed': seed, 'ops': OPNAMES, 'ref': ref}
                            if colname != 'c':
                                inp_['col'] = colname
                            if rng.random() < 0.15:
                                inp_['between'] = rng.sample(['shuffle_col', 'shuffle_p', 'shuffle_dm', 'sample', 'sort',
                                                              'shuffle_res'], rng.randint(1, 2))
                            add(inp_)
        return cases

    def source_length(self, kind, deriv, cells, seed, default):
        """the number of rows of the derived source (sequence references are drawn with that length)"""
        return self.source_info(kind, deriv, cells, seed, default)[0]

    def source_info(self, kind, deriv, cells, seed, default):
        """(number of rows, [(column name, kind)]) of the derived source"""
        try:
            with warnings.catch_warnings():
                warnings.simplefilter('ignore')
                dm = self.build(kind, deriv, [pyobs.dec(c) for c in cells], seed)
                return len(dm), [(nm, kind_of(col)) for nm, col in dm._cols.items()]
        except Exception:       # noqa: BLE001   (rerun reports it)
            return default, [('c', kind)]

    def shrink_candidates(self, inp):
        out = []
        if len(inp['ops']) > 1:
            for o in inp['ops']:
                out.append(dict(inp, ops=[o]))
            return out
        if inp['deriv'] != 'natural':
            out.append(dict(inp, deriv='natural'))
        cells = inp['cells']
        r = inp['ref']
        for i in range(len(cells)):
            c2 = cells[:i] + cells[i + 1:]
            if r['t'] in ('seq', 'tuple') and len(r['v']) == len(cells) and inp['deriv'] == 'natural':
                out.append(dict(inp, cells=c2, ref=dict(r, v=r['v'][:i] + r['v'][i + 1:])))
            elif r['t'] not in ('seq', 'tuple', 'own'):
                out.append(dict(inp, cells=c2))
        if r['t'] == 'set':
            for i in range(len(r['v'])):
                out.append(dict(inp, ref=dict(r, v=r['v'][:i] + r['v'][i + 1:])))
        return out

    def key(self, case):
        i = case['input']
        return 'select kind=%s deriv=%s%s ops=%s ref=%s cells=%s' % (
            i['kind'], i['deriv'], ' col=%s' % i['col'] if i.get('col', 'c') != 'c' else '', ','.join(i['ops']), i['ref'],
            i['cells'])


PROP = C02()
