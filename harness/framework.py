"""Common machinery of ./check: build, Print Assumptions, case evaluation in
Coq, outcome decision, shrinking, known findings, evidence."""
import concurrent.futures
import fcntl
import hashlib
import json
import os
import re
import shutil
import subprocess
import sys
import time

VERIF = os.path.dirname(os.path.dirname(os.path.abspath(__file__)))
REPO = os.environ.get('VERIF_REPO', '/repo')
COQ = os.environ.get('VERIF_COQ') or os.path.join(VERIF, 'coq')
THEORIES = os.path.join(COQ, 'theories')
WORK = os.environ.get('VERIF_WORK') or os.path.join(VERIF, '.work')
NPROC = min(16, os.cpu_count() or 4)

sys.path.insert(0, os.path.join(VERIF, 'translate'))
import kernels  # noqa: E402

ALLOWED_AXIOMS = {
    # standard-library axioms that may appear (none is expected; see DESIGN.md section 7)
    'Coq.Logic.FunctionalExtensionality.functional_extensionality_dep',
    'Coq.Logic.Classical_Prop.classic',
    'Coq.Logic.ProofIrrelevance.proof_irrelevance',
    'Coq.Logic.Eqdep.Eq_rect_eq.eq_rect_eq',
    'Coq.Logic.JMeq.JMeq_eq',
    'functional_extensionality_dep', 'classic', 'proof_irrelevance', 'eq_rect_eq', 'JMeq_eq',
}
FORBIDDEN = re.compile(
    r'\b(Admitted|admit|Axiom|Axioms|Parameter|Parameters|Conjecture|Hypothesis|Hypotheses|Variable|Variables)\b'
    r'|Unset\s+Guard|bypass_check|Admit\s+Obligations|type-in-type|impredicative-set|native_compute')


class HarnessError(Exception):
    pass


def sh(cmd, timeout, cwd=None, env=None):
    p = subprocess.run(cmd, cwd=cwd, env=env, stdout=subprocess.PIPE, stderr=subprocess.STDOUT,
                       timeout=timeout, text=True, errors='replace')
    return p.returncode, p.stdout


class Build:
    def __init__(self):
        self.kernels = {}
        self.failed = []      # .vo targets that failed to build
        self.errors = {}      # target -> error text
        self.log = ''
        self.wall = 0.0

    def uptodate(self, rel_vo):
        """True iff coq/<rel_vo> exists and make considers it up to date."""
        if not os.path.exists(os.path.join(COQ, rel_vo)):
            return False
        rc, _ = sh(['make', '-q', rel_vo], 120, cwd=COQ)
        return rc == 0


def write_coqproject():
    """_CoqProject lists every .v file under theories/ (sorted); rewritten only when the listing changes."""
    files = []
    for root, _dirs, names in os.walk(THEORIES):
        for n in names:
            if n.endswith('.v') and not n.startswith('.'):
                files.append(os.path.relpath(os.path.join(root, n), COQ))
    text = '-Q theories DM\n' + '\n'.join(sorted(files)) + '\n'
    cp = os.path.join(COQ, '_CoqProject')
    old = open(cp).read() if os.path.exists(cp) else None
    if old != text:
        with open(cp, 'w') as f:
            f.write(text)


def build(clean=False, targets=None):
    """Regenerate kernels from REPO and (re)build the Coq development."""
    t0 = time.time()
    os.makedirs(WORK, exist_ok=True)
    b = Build()
    with open(os.path.join(WORK, 'build.lock'), 'w') as lock:
        fcntl.flock(lock, fcntl.LOCK_EX)
        b.kernels = kernels.generate_all(REPO, os.path.join(THEORIES, 'Gen'))
        mk = os.path.join(COQ, 'Makefile')
        cp = os.path.join(COQ, '_CoqProject')
        write_coqproject()
        if not os.path.exists(mk) or os.path.getmtime(mk) < os.path.getmtime(cp):
            rc, out = sh(['coq_makefile', '-f', '_CoqProject', '-o', 'Makefile'], 120, cwd=COQ)
            if rc != 0:
                raise HarnessError('coq_makefile failed:\n' + out)
        if clean:
            sh(['make', 'clean'], 300, cwd=COQ)
        rc, out = sh(['bash', '-c', 'ulimit -v 12000000; timeout 3000 make -k -j%d COQC="timeout 240 coqc" %s' % (NPROC, ' '.join(targets or []))], 3100, cwd=COQ)
        b.log = out
        for m in re.finditer(r'\*\*\* \[Makefile\S*: (\S+\.vo)\] Error', out):
            b.failed.append(m.group(1))
        # attach error text: Coq prints 'File "./theories/X.v", line ...' followed by the message
        for m in re.finditer(r'File "\./(theories/\S+)\.v", line (\d+), characters [^\n]*\n((?:.*\n){1,12}?)(?=\n|make|COQC|File )', out):
            b.errors.setdefault(m.group(1) + '.vo', 'line %s: %s' % (m.group(2), m.group(3).strip()[:600]))
        fcntl.flock(lock, fcntl.LOCK_UN)
    b.wall = time.time() - t0
    return b


def coq_deps(rel_v):
    """Transitive .v dependencies (inside theories/) of a file, via coqdep output in .Makefile.d"""
    dep_file = os.path.join(COQ, '.Makefile.d')
    deps = {}
    if os.path.exists(dep_file):
        for line in open(dep_file):
            if ':' not in line:
                continue
            lhs, rhs = line.split(':', 1)
            tg = [t for t in lhs.split() if t.endswith('.vo')]
            srcs = [s[:-1] for s in rhs.split() if s.endswith('.vo') and s.startswith('theories/')]
            for t in tg:
                deps[t[:-1]] = srcs
    seen = set()
    todo = [rel_v]
    while todo:
        x = todo.pop()
        if x in seen:
            continue
        seen.add(x)
        todo.extend(deps.get(x, []))
    return sorted(seen)


def scan_forbidden(files):
    hits = []
    for rel in files:
        p = os.path.join(COQ, rel)
        if not os.path.exists(p):
            continue
        text = open(p, encoding='utf-8').read()
        # strip comments (non-nested approximation is not enough: do a proper nested strip)
        out, depth, i = [], 0, 0
        while i < len(text):
            if text.startswith('(*', i):
                depth += 1
                i += 2
            elif text.startswith('*)', i) and depth:
                depth -= 1
                i += 2
            else:
                if depth == 0:
                    out.append(text[i])
                i += 1
        code = ''.join(out)
        # Variables/Hypotheses are allowed inside Sections only
        sec = 0
        for ln, line in enumerate(code.split('\n'), 1):
            if re.match(r'\s*Section\b', line):
                sec += 1
            if re.match(r'\s*End\b', line) and sec:
                sec -= 1
            for m in FORBIDDEN.finditer(line):
                w = m.group(0)
                if w.split()[0] in ('Variable', 'Variables', 'Hypothesis', 'Hypotheses') and sec > 0:
                    continue
                hits.append('%s:%d: %s' % (rel, ln, w))
    return hits


def print_assumptions(rel_v, workdir):
    """Re-compile a Props file, return (ok, [(theorem, 'closed' | [axioms])], raw)."""
    os.makedirs(os.path.join(workdir, 'props'), exist_ok=True)
    out_vo = os.path.join(workdir, 'props', os.path.basename(rel_v) + 'o')
    rc, out = sh(['timeout', '900', 'coqc', '-Q', 'theories', 'DM', '-o', out_vo, rel_v], 1000, cwd=COQ)
    text = open(os.path.join(COQ, rel_v), encoding='utf-8').read()
    names = re.findall(r'^Print Assumptions (\S+?)\.\s*$', text, re.M)
    results = []
    blocks = re.split(r'(?=Closed under the global context|Axioms:)', out)
    blocks = [b for b in blocks if b.startswith('Closed under') or b.startswith('Axioms:')]
    for i, name in enumerate(names):
        if i >= len(blocks):
            results.append((name, None))
            continue
        blk = blocks[i]
        if blk.startswith('Closed'):
            results.append((name, 'closed'))
        else:
            axs = re.findall(r'^(\S+)\s*:', blk[len('Axioms:'):], re.M)
            results.append((name, axs))
    return rc == 0, results, out


def eval_bools(import_lines, exprs, workdir, tag, shard=300, timeout=1200, width=1, shard_bytes=220000):
    """Evaluate Coq boolean expressions by vm_compute; returns the set of
    indices whose value is not `true`.  With width > 1 every expression is a
    `list bool` of exactly that length and the returned indices are
    i * width + component.  Files are sharded by count and by size so that all
    cores are used.  Raises HarnessError if a file does not compile (that is a
    defect of the harness, never a verdict)."""
    os.makedirs(workdir, exist_ok=True)
    files = []
    k = 0
    while k < len(exprs):
        size = 0
        j = k
        while j < len(exprs) and j - k < shard and (j == k or size + len(exprs[j]) <= shard_bytes):
            size += len(exprs[j])
            j += 1
        chunk = exprs[k:j]
        name = '%s_%d' % (tag, len(files))
        path = os.path.join(workdir, name + '.v')
        with open(path, 'w', encoding='utf-8') as f:
            f.write('\n'.join(import_lines) + '\n')
            f.write('From Coq Require Import ZArith List Bool String.\nImport ListNotations.\nOpen Scope string_scope.\nOpen Scope Z_scope.\n')
            if width == 1:
                f.write('Definition cs : list bool := [\n')
                f.write(';\n'.join(chunk))
                f.write('\n].\n')
            else:
                f.write('Definition cs : list bool := List.concat [\n')
                f.write(';\n'.join(chunk))
                f.write('\n].\n')
            f.write('Fixpoint bad (i : nat) (l : list bool) : list nat := match l with [] => [] '
                    '| b :: r => if b then bad (S i) r else i :: bad (S i) r end.\n')
            f.write('Eval vm_compute in (List.length cs, bad 0 cs).\n')
        files.append((k, len(chunk), path))
        k = j

    def one(item):
        k0, n, path = item
        rc, out = sh(['timeout', str(timeout), 'coqc', '-Q', os.path.join(COQ, 'theories'), 'DM', path],
                     timeout + 60, cwd=workdir)
        return k0, n, path, rc, out

    failing = set()
    with concurrent.futures.ThreadPoolExecutor(max_workers=NPROC) as ex:
        for k0, n, path, rc, out in ex.map(one, files):
            if rc != 0:
                raise HarnessError('coqc failed on %s:\n%s' % (path, out[-3000:]))
            m = re.search(r'=\s*\((\d+)(?:%nat)?\s*,\s*(\[.*?\])(?:%nat)?\s*\)\s*:\s*nat \* list nat', out, re.S)
            if not m:
                raise HarnessError('cannot parse coqc output for %s:\n%s' % (path, out[-2000:]))
            if int(m.group(1)) != n * width:
                raise HarnessError('%s: %s booleans evaluated, %d expected' % (path, m.group(1), n * width))
            for x in re.findall(r'\d+', m.group(2)):
                failing.add(k0 * width + int(x))
    return failing


def load_known():
    p = os.path.join(VERIF, 'known_findings.json')
    if not os.path.exists(p):
        return []
    return json.load(open(p))


def write_evidence(pid, data):
    edir = os.environ.get('VERIF_EVIDENCE_DIR') or os.path.join(VERIF, 'evidence')
    os.makedirs(edir, exist_ok=True)
    p = os.path.join(edir, pid + '.json')
    tmp = p + '.tmp'
    with open(tmp, 'w') as f:
        json.dump(data, f, indent=1, sort_keys=True, default=str)
    os.replace(tmp, p)


def write_replay(pid, payload):
    d = os.path.join(os.environ['VERIF_WORK'], 'replays') if os.environ.get('VERIF_WORK') else os.path.join(VERIF, 'replays')
    os.makedirs(d, exist_ok=True)
    blob = json.dumps(payload, sort_keys=True, default=str)
    h = hashlib.sha1(blob.encode()).hexdigest()[:10]
    p = os.path.join(d, '%s-%s.json' % (pid, h))
    with open(p, 'w') as f:
        json.dump(payload, f, indent=1, sort_keys=True, default=str)
    return p


def cleanup(workdir):
    if os.environ.get('VERIF_KEEP') == '1':
        return
    shutil.rmtree(workdir, ignore_errors=True)
