"""Direct probes for the known findings of /verif/known_findings.json (kind = "finding"): each probe
re-executes the specific failing input on the implementation.  While the defect is present the probe
yields a failing case whose key matches the finding (the check prints KNOWN-FINDING and exits 0); once
it is repaired the probe passes silently.  Any OTHER violation of the same property is still reported."""
import warnings


def _case(pid, key, problem, what):
    return {'input': {'finding_probe': key}, 'observed': {'problem': problem, 'input': what}, 'pyfail': problem,
            'oracle': 'true', 'model': 'true', 'nontrivial': True, 'sig': 'finding|' + key, 'tags': ['finding-probe'],
            'finding_key': key}


def probes(pid):
    out = []
    with warnings.catch_warnings():
        warnings.simplefilter('ignore')
        from datamatrix import DataMatrix, FloatColumn, IntColumn, operations as ops, convert as cnv
        if pid == 'C02':
            dm = DataMatrix(length=3)
            dm.f = FloatColumn
            dm.f = 1, 1e300, 3
            dm.u = 0, 1, 2
            problem = None
            try:
                got = list((dm.f == 1e300).u)
                if got != [1]:
                    problem = 'FloatColumn == 1e300 selected rows %r, expected [1]' % (got,)
            except Exception as e:      # noqa: BLE001
                problem = 'FloatColumn == 1e300 raised %s: %s' % (type(e).__name__, e)
            out.append(_case(pid, 'finding C02 float-column reference beyond 2**64', problem,
                             'dm.f = FloatColumn [1, 1e300, 3]; dm.f == 1e300'))
            dm = DataMatrix(length=2)
            dm.i = IntColumn
            dm.i = 1, 2
            problem = None
            try:
                n_eq, n_ne = len(dm.i == object), len(dm.i != object)
                if (n_eq, n_ne) != (2, 0):
                    problem = 'IntColumn == object selected %d of 2 rows, != object %d (every int is an object)' % (n_eq, n_ne)
            except Exception as e:      # noqa: BLE001
                problem = 'IntColumn == object raised %r' % (e,)
            out.append(_case(pid, 'finding C02 int-column compared with the type object', problem,
                             'dm.i = IntColumn [1, 2]; dm.i == object'))
        if pid == 'C13':
            dm = DataMatrix(length=1)
            dm.i = IntColumn
            dm.i = [3]
            x = -(2 ** 53 + 1)
            problem = None
            try:
                got = int((x / dm.i)[0])
                want = int(x / 3)           # -3002399751580331: Python divides the two ints with one rounding
                if got != want:
                    problem = ('-(2**53+1) / IntColumn([3]) = %d, but int(-(2**53+1) / 3) = %d (np.true_divide converts '
                               'both int64 operands to float64 first)' % (got, want))
            except Exception as e:      # noqa: BLE001
                problem = 'x / IntColumn raised %r' % (e,)
            out.append(_case(pid, 'finding C13 int beyond 2**53 divided by an IntColumn', problem,
                             'dm.i = IntColumn [3]; -(2**53+1) / dm.i'))
        if pid == 'C15':
            dm = DataMatrix(length=3)
            dm.i = IntColumn
            dm.i = 0, 1, 5
            problem = None
            try:
                zc = ops.z(dm.i)
                vals = [float(v) for v in zc]
                m = sum(vals) / 3
                sd = (sum((v - m) ** 2 for v in vals) / 2) ** .5
                if abs(m) > 1e-9 or abs(sd - 1) > 1e-9:
                    problem = 'ops.z(IntColumn [0, 1, 5]) = %r: mean %.3f, std %.3f (scores truncated to int)' % (vals, m, sd)
            except Exception as e:      # noqa: BLE001
                problem = 'ops.z(IntColumn) raised %r' % (e,)
            out.append(_case(pid, 'finding C15 z of an IntColumn', problem, 'ops.z(IntColumn [0, 1, 5])'))
        if pid == 'C17':
            dm = DataMatrix(length=3)
            dm.a = 10 ** 17 + 1, None, 3
            problem = None
            try:
                df = cnv.to_pandas(dm)
                got = df['a'].tolist()
                if int(got[0]) != 10 ** 17 + 1:
                    problem = 'to_pandas of MixedColumn [10**17+1, None, 3] gives %r (integer rounded through float64)' % (got,)
            except Exception as e:      # noqa: BLE001
                problem = 'to_pandas raised %r' % (e,)
            out.append(_case(pid, 'finding C17 to_pandas integer beyond 2**53 next to None', problem,
                             'MixedColumn [10**17+1, None, 3] -> to_pandas'))
        if pid == 'C19':
            from datamatrix import functional as fnc
            import functools
            # F1: filter_ on a column that is known under two names
            dm = DataMatrix(length=3)
            dm.a = 1, 2, 3
            dm.b = dm.a
            problem = None
            try:
                r = fnc.filter_(lambda x: x > 1, dm.a)
                if isinstance(r, DataMatrix) or list(r) != [2, 3]:
                    problem = ('filter_(f, dm.a) on a column known under two names (dm.b = dm.a) returns %s instead of '
                               'the column [2, 3]' % (type(r).__name__,))
            except Exception as e:      # noqa: BLE001
                problem = 'filter_ on an aliased column raised %r' % (e,)
            out.append(_case(pid, 'finding C19 filter_ on a column known under two names', problem,
                             'dm.a = 1, 2, 3; dm.b = dm.a; filter_(lambda x: x > 1, dm.a)'))
            # F2: setcol on a table with an aliased column differs from the direct assignment
            dm = DataMatrix(length=3)
            dm.a = 1, 2, 3
            dm.b = dm.a
            problem = None
            try:
                r = fnc.setcol(dm, 'a', 7)
                d2 = DataMatrix(length=3)
                d2.a = 1, 2, 3
                d2.b = d2.a
                d2['a'] = 7
                if (list(r.a), list(r.b)) != (list(d2.a), list(d2.b)):
                    problem = ("setcol(dm, 'a', 7) with dm.b = dm.a gives a=%r b=%r, the assignment dm['a'] = 7 gives a=%r b=%r"
                               % (list(r.a), list(r.b), list(d2.a), list(d2.b)))
            except Exception as e:      # noqa: BLE001
                problem = 'setcol on an aliased table raised %r' % (e,)
            out.append(_case(pid, 'finding C19 setcol on a table with a column known under two names', problem,
                             "dm.a = 1, 2, 3; dm.b = dm.a; setcol(dm, 'a', 7) vs dm['a'] = 7"))
            # F3: setcol / map_ build on dm[:], which drops default_col_type
            problem = None
            try:
                dm = DataMatrix(length=2, default_col_type=IntColumn)
                r = fnc.setcol(dm, 'y', [1.5, 2.5])
                d2 = DataMatrix(length=2, default_col_type=IntColumn)
                d2['y'] = [1.5, 2.5]
                if type(r.y) is not type(d2.y) or list(r.y) != list(d2.y):
                    problem = ("setcol(dm, 'y', [1.5, 2.5]) on a table with default_col_type=IntColumn gives %s %r, the "
                               "assignment gives %s %r" % (type(r.y).__name__, list(r.y), type(d2.y).__name__, list(d2.y)))
            except Exception as e:      # noqa: BLE001
                problem = 'setcol with default_col_type raised %r' % (e,)
            out.append(_case(pid, 'finding C19 setcol drops default_col_type', problem,
                             "DataMatrix(length=2, default_col_type=IntColumn); setcol(dm, 'y', [1.5, 2.5])"))
            # F5: a callable that is not a plain function
            dm = DataMatrix(length=3)
            dm.a = 1, 2, 3
            problem = None
            try:
                r = fnc.filter_(functools.partial(lambda lo, x: x > lo, 1), dm.a)
                if list(r) != [2, 3]:
                    problem = 'filter_(functools.partial(...), dm.a) returns %r instead of [2, 3]' % (list(r),)
            except Exception as e:      # noqa: BLE001
                problem = 'filter_ with a functools.partial raised %r' % (e,)
            out.append(_case(pid, 'finding C19 filter_ with a callable that is not a plain function', problem,
                             'filter_(functools.partial(lambda lo, x: x > lo, 1), dm.a)'))
        if pid == 'C14':
            dm = DataMatrix(length=4)
            dm.A = 'x', 'y', 'x', 'y'
            dm.B = dm.A
            dm.C = 1, 1, 2, 2
            problem = None
            try:
                parts = [(v1, v2, list(d.C)) for v1, v2, d in ops.split(dm.C, dm.A)]
                if len(parts) != 4:
                    problem = 'split(dm.C, dm.A) with dm.B = dm.A gives %r' % (parts,)
            except Exception as e:      # noqa: BLE001
                problem = 'split(dm.C, dm.A) with the key column dm.A known under two names raised %s: %s' % (type(e).__name__, e)
            out.append(_case(pid, 'finding C14 split by a column known under two names', problem,
                             "dm.A = 'x','y','x','y'; dm.B = dm.A; dm.C = 1,1,2,2; ops.split(dm.C, dm.A)"))
    return out
