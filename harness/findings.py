"""Direct probes for the known findings of /verif/known_findings.json (kind = "finding"): each probe
re-executes the specific failing input on the implementation.  While the defect is present the probe
yields a failing case whose key matches the finding (the check prints KNOWN-FINDING and exits 0); once
it is repaired the probe passes silently.  Any OTHER violation of the same property is still reported."""
import warnings


def _case(pid, key, problem, what):
    return {'input': {'finding_probe': key}, 'observed': {'problem': problem, 'input': what}, 'pyfail': problem,
            'oracle': 'true', 'model': 'true', 'nontrivial': True, 'sig': 'finding|' + key, 'tags': ['finding-probe'],
            'finding_key': key}


def probes(pid):
    out = []
    with warnings.catch_warnings():
        warnings.simplefilter('ignore')
        from datamatrix import DataMatrix, FloatColumn, IntColumn, operations as ops, convert as cnv
        if pid == 'C02':
            dm = DataMatrix(length=3)
            dm.f = FloatColumn
            dm.f = 1, 1e300, 3
            dm.u = 0, 1, 2
            problem = None
            try:
                got = list((dm.f == 1e300).u)
                if got != [1]:
                    problem = 'FloatColumn == 1e300 selected rows %r, expected [1]' % (got,)
            except Exception as e:      # noqa: BLE001
                problem = 'FloatColumn == 1e300 raised %s: %s' % (type(e).__name__, e)
            out.append(_case(pid, 'finding C02 float-column reference beyond 2**64', problem,
                             'dm.f = FloatColumn [1, 1e300, 3]; dm.f == 1e300'))
            dm = DataMatrix(length=2)
            dm.i = IntColumn
            dm.i = 1, 2
            problem = None
            try:
                n_eq, n_ne = len(dm.i == object), len(dm.i != object)
                if (n_eq, n_ne) != (2, 0):
                    problem = 'IntColumn == object selected %d of 2 rows, != object %d (every int is an object)' % (n_eq, n_ne)
            except Exception as e:      # noqa: BLE001
                problem = 'IntColumn == object raised %r' % (e,)
            out.append(_case(pid, 'finding C02 int-column compared with the type object', problem,
                             'dm.i = IntColumn [1, 2]; dm.i == object'))
        if pid == 'C15':
            dm = DataMatrix(length=3)
            dm.i = IntColumn
            dm.i = 0, 1, 5
            problem = None
            try:
                zc = ops.z(dm.i)
                vals = [float(v) for v in zc]
                m = sum(vals) / 3
                sd = (sum((v - m) ** 2 for v in vals) / 2) ** .5
                if abs(m) > 1e-9 or abs(sd - 1) > 1e-9:
                    problem = 'ops.z(IntColumn [0, 1, 5]) = %r: mean %.3f, std %.3f (scores truncated to int)' % (vals, m, sd)
            except Exception as e:      # noqa: BLE001
                problem = 'ops.z(IntColumn) raised %r' % (e,)
            out.append(_case(pid, 'finding C15 z of an IntColumn', problem, 'ops.z(IntColumn [0, 1, 5])'))
        if pid == 'C17':
            dm = DataMatrix(length=3)
            dm.a = 10 ** 17 + 1, None, 3
            problem = None
            try:
                df = cnv.to_pandas(dm)
                got = df['a'].tolist()
                if int(got[0]) != 10 ** 17 + 1:
                    problem = 'to_pandas of MixedColumn [10**17+1, None, 3] gives %r (integer rounded through float64)' % (got,)
            except Exception as e:      # noqa: BLE001
                problem = 'to_pandas raised %r' % (e,)
            out.append(_case(pid, 'finding C17 to_pandas integer beyond 2**53 next to None', problem,
                             'MixedColumn [10**17+1, None, 3] -> to_pandas'))
    return out
