"""C19 -- curry, map_, filter_, setcol (curry part: Props/C19.v)."""
import itertools
import coqlit as L


def make_f(n):
    ns = {}
    params = ', '.join('a%d' % i for i in range(n))
    exec('def f%d(%s):\n    "doc of f%d"\n    return (%s)\n' % (n, params, n, params + (',' if n else '')), ns)
    return ns['f%d' % n]


def compositions(n):
    for bits in itertools.product([0, 1], repeat=n - 1):
        parts, cur = [], 1
        for b in bits:
            if b:
                parts.append(cur)
                cur = 1
            else:
                cur += 1
        parts.append(cur)
        yield parts


def obs_lit(o):
    if o == 'fn':
        return 'OFn'
    if o == 'err':
        return 'OErr'
    return '(OVal %s)' % L.zs(o)


class C19:
    id = 'C19'
    props_file = 'theories/Props/C19.v'
    kernel_files = ['KCurry.v']
    oracle_vos = ['theories/Run/SC19.vo']
    model_vos = ['theories/Run/RC19.vo']
    oracle_imports = ['From DM Require Import Run.SC19.', 'Open Scope Z_scope.']
    model_imports = ['From DM Require Import Run.SC19 Run.RC19.', 'Open Scope Z_scope.']
    exhaustive = False
    rule = ('curry: every composition of n arguments for arities 1..6 (all 63, exhaustive) with each proper prefix '
            'observed, plus prefix-reuse trees (one prefix object continued in 2-4 different ways, in shuffled order) '
            'and out-of-quantifier calls (empty chunks, too many arguments, calling a returned value) that only the '
            'L1 model speaks about; a case is non-trivial when it contains at least one call that runs f; distinct by '
            '(arity, set of paths)')
    trusted_base = [
        'Coq 8.16.1 kernel (coqc; vm_compute for evaluating cases; no native_compute)',
        'translator /verif/translate/kernels.py:gen_curry (ast -> Gen/KCurry.v) incl. its pinned fragments',
        'harness/c19.py runner + Run/SC19.v, Run/RC19.v comparators',
        'modelled, not verified: functools.partial / inspect.getfullargspec semantics, Python call protocol',
    ]
    assumptions = [
        'the wrapped function is a plain Python function of n positional parameters that does not raise',
        'map_, filter_ and setcol are compared with a plain-Python reference on tables in six row orders (probes); their '
        'theorems are the positional take / frame theorems of the core (C01, C06), not restated here',
    ]

    def _run(self, n, paths):
        from datamatrix import functional as fnc
        f = make_f(n)
        root = fnc.curry(f)
        pyfail = None
        if getattr(root, '__name__', None) != f.__name__ or getattr(root, '__doc__', None) != f.__doc__:
            pyfail = 'curry wrapper lost __name__/__doc__: %r %r' % (getattr(root, '__name__', None),
                                                                       getattr(root, '__doc__', None))
        objs = {(): root}
        observed = []
        for path in paths:
            key = ()
            obj = root
            for chunk in path:
                key = key + (tuple(chunk),)
                if key in objs:
                    obj = objs[key]
                    continue
                if not callable(obj):
                    obj = 'err'
                elif isinstance(obj, str):
                    obj = 'err'
                else:
                    try:
                        obj = obj(*chunk)
                    except TypeError:
                        obj = 'err'
                objs[key] = obj
            if obj == 'err':
                observed.append('err')
            elif callable(obj):
                observed.append('fn')
            else:
                observed.append([int(v) for v in obj])
        return observed, pyfail

    def rerun(self, inp):
        if 'probe' in inp:
            return self.probe(inp['probe'], inp['seed'])
        n, paths = inp['n'], inp['paths']
        observed, pyfail = self._run(n, paths)
        o_parts, m_parts = [], []
        calls_f = False
        for path, o in zip(paths, observed):
            chunks = L.lst(L.zs(c) for c in path)
            o_parts.append('oracle %s %s %s' % (L.nat(n), chunks, obs_lit(o)))
            m_parts.append('model_agrees %s %s %s' % (L.nat(n), chunks, obs_lit(o)))
            calls_f = calls_f or isinstance(o, list)
        return {
            'input': inp, 'observed': observed, 'pyfail': pyfail,
            'oracle': '(' + ' && '.join(o_parts) + ')' if o_parts else 'true',
            'model': '(' + ' && '.join(m_parts) + ')' if m_parts else 'true',
            'nontrivial': calls_f,
            'sig': '%d|%s' % (n, sorted(map(str, paths))),
            'tags': inp.get('tags', []) + ['arity%d' % n],
        }

    # ---- map_, filter_, setcol: direct probes against a plain-Python reference -------------------
    def _table(self, sub):
        import warnings
        from datamatrix import DataMatrix, FloatColumn, IntColumn, operations as ops
        n = sub.randint(0, 7)
        dm = DataMatrix(length=n)
        dm.u = list(range(n))
        dm.a = [sub.choice([1, 2, 3, 2.5, 'x', 'y', None, -1]) for _ in range(n)]
        dm.f = FloatColumn
        dm.f = [sub.choice([0, 1, 2, 2.5, -1, float('nan')]) for _ in range(n)]
        dm.i = IntColumn
        dm.i = [sub.randint(-2, 3) for _ in range(n)]
        order = sub.choice(['natural', 'sorted', 'shuffled', 'selected', 'deleted', 'regrown'])
        if order == 'sorted':
            dm = ops.sort(dm, by=dm.i)
        elif order == 'shuffled':
            dm = ops.shuffle(dm)
        elif order == 'selected':
            dm = dm.i >= 0
            _ = dm.a[dm]
        elif order == 'deleted' and n:
            del dm[sub.randrange(n)]
        elif order == 'regrown':
            dm = dm.i >= 0
            dm.length = len(dm) + 2
        return dm, order

    def _snap(self, dm):
        return [(nm, type(c).__name__, [repr(v) for v in c], c.dm is dm, c.name) for nm, c in dm.columns] + [len(dm)]

    def probe(self, kind, seed):
        import random as _random
        import warnings
        from datamatrix import functional as fnc, DataMatrix
        sub = _random.Random(seed)
        _random.seed(seed)
        problem = None
        with warnings.catch_warnings():
            warnings.simplefilter('ignore')
            try:
                dm, order = self._table(sub)
                before = self._snap(dm)
                eqv = lambda a, b: [repr(x) for x in a] == [repr(x) for x in b]
                if kind == 'filter_col':
                    name = sub.choice(['a', 'f', 'i'])
                    k = sub.choice([0, 1, 2])
                    # (numeric columns hand NumPy scalars to f, so f must not test for the builtin types)
                    f = (lambda x: x >= k) if (sub.random() < 0.5 and name != 'a') else (lambda x: x == k)
                    got = list(fnc.filter_(f, dm[name]))
                    want = [v for v in dm[name] if f(v)]
                    if not eqv(got, want):
                        problem = 'filter_(f, col %s) on a %s table: %r, expected %r' % (name, order, got, want)
                elif kind == 'filter_dm':
                    k = sub.choice([0, 1, 2])
                    f = lambda **d: d['i'] >= k
                    r = fnc.filter_(f, dm)
                    want = [u for u, i in zip(dm.u, dm.i) if i >= k]
                    if list(r.u) != want or r.column_names != dm.column_names or not all(c.dm is r for _n, c in r.columns):
                        problem = 'filter_(f, dm) on a %s table: rows %r, expected %r' % (order, list(r.u), want)
                elif kind == 'map_col':
                    name = sub.choice(['a', 'f', 'i'])
                    f = lambda x: x if (x is None or isinstance(x, str)) else x * 2
                    got = list(fnc.map_(f, dm[name]))
                    want = [f(v) for v in dm[name]]
                    if not eqv(got, want) and not (name != 'a' and all((g == w) or (g != g and w != w) for g, w in zip(got, want)) and len(got) == len(want)):
                        problem = 'map_(f, col %s) on a %s table: %r, expected %r' % (name, order, got, want)
                    got2 = list(dm[name] @ f)
                    if [repr(x) for x in got2] != [repr(x) for x in got]:
                        problem = 'col @ f differs from map_(f, col)'
                elif kind == 'map_dm':
                    f = lambda **d: {'i': d['i'] + 1, 'z': d['u'] * 10}
                    r = fnc.map_(f, dm)
                    if list(r.i) != [i + 1 for i in dm.i] or (len(dm) and list(r.z) != [u * 10 for u in dm.u]) \
                            or list(r.u) != list(dm.u) or not eqv(list(r.a), list(dm.a)) or 'z' in dm:
                        problem = 'map_(f, dm) on a %s table: i=%r z=%r' % (order, list(r.i), list(r.z))
                elif kind == 'setcol':
                    which = sub.choice(['scalar', 'list', 'column', 'column_f'])
                    value = {'scalar': 5, 'list': list(range(100, 100 + len(dm))), 'column': dm.a, 'column_f': dm.f}[which]
                    tgt = sub.choice(['z', 'a', 'i'])
                    r = fnc.setcol(dm, tgt, value)
                    ref = dm[:]
                    # dm[name] = dm.col binds the name to that column; in the copy: to the copy's column
                    ref[tgt] = ref[value.name] if which.startswith('column') else value
                    gotv, wantv = [repr(v) for v in r[tgt]], [repr(v) for v in ref[tgt]]
                    others_same = all([repr(v) for v in r[nm]] == [repr(v) for v in dm[nm]] for nm in dm.column_names if nm != tgt)
                    if gotv != wantv or not others_same or len(r) != len(dm):
                        problem = 'setcol(dm, %r, %s) on a %s table: %r, expected %r' % (tgt, which, order, gotv, wantv)
                    if which.startswith('column') and (value.dm is not dm or value.name not in ('a', 'f')):
                        problem = 'the column passed to setcol no longer belongs to dm (owner %r, name %r)' % (value.dm is dm, value.name)
                    if len(r):
                        r[tgt][0] = 77
                        if which.startswith('column') and self._snap(dm) != before:
                            problem = 'writing to the setcol result changed the original'
                if problem is None and self._snap(dm) != before:
                    problem = '%s modified its argument' % kind
            except Exception as e:      # noqa: BLE001
                problem = 'probe %s raised %r' % (kind, e)
        return {'input': {'probe': kind, 'seed': seed}, 'observed': {'problem': problem}, 'pyfail': problem,
                'oracle': 'true', 'model': 'true', 'nontrivial': True, 'sig': 'probe|%s|%d' % (kind, seed),
                'tags': ['probe', 'probe:' + kind]}

    def generate(self, rng, tier):
        cases = []
        for kind in ('filter_col', 'filter_dm', 'map_col', 'map_dm', 'setcol'):
            for _ in range(40 if tier == 'quick' else 400):
                cases.append(self.probe(kind, rng.randrange(1 << 30)))
        ctr = [0]

        def args(k):
            out = list(range(ctr[0] + 1, ctr[0] + k + 1))
            ctr[0] += k
            return out

        # all compositions, with every prefix
        for n in range(1, 7):
            for comp in compositions(n):
                vals = [rng.randint(-50, 50) for _ in range(n)]
                path, i = [], 0
                for k in comp:
                    path.append(vals[i:i + k])
                    i += k
                paths = [path[:j] for j in range(1, len(path) + 1)]
                cases.append(self.rerun({'n': n, 'paths': paths, 'tags': ['composition']}))
        # prefix reuse trees
        reps = 150 if tier == 'quick' else 3000
        for _ in range(reps):
            n = rng.randint(2, 6)
            comp = rng.choice(list(compositions(n)))
            if len(comp) < 2:
                continue
            cut = rng.randint(1, len(comp) - 1)
            vals = [rng.randint(-9, 9) for _ in range(n)]
            pre, i = [], 0
            for k in comp[:cut]:
                pre.append(vals[i:i + k])
                i += k
            rest = n - i
            paths = []
            for _c in range(rng.randint(2, 4)):
                comp2 = rng.choice(list(compositions(rest)))
                cont = [[rng.randint(-9, 9) for _ in range(k)] for k in comp2]
                paths.append(pre + cont)
                if rng.random() < 0.3 and len(cont) > 1:
                    paths.append(pre + cont[:-1])
            rng.shuffle(paths)
            cases.append(self.rerun({'n': n, 'paths': paths, 'tags': ['reuse']}))
        # outside the quantifier: only the model is compared
        for _ in range(60 if tier == 'quick' else 600):
            n = rng.randint(1, 5)
            path = []
            for _k in range(rng.randint(1, 4)):
                path.append([rng.randint(-9, 9) for _ in range(rng.choice([0, 0, 1, 2, 3, n, n + 1]))])
            cases.append(self.rerun({'n': n, 'paths': [path], 'tags': ['malformed']}))
        return cases

    def shrink_candidates(self, inp):
        if 'probe' in inp:
            return
        paths = inp['paths']
        for i in range(len(paths)):
            if len(paths) > 1:
                yield {'n': inp['n'], 'paths': paths[:i] + paths[i + 1:], 'tags': inp.get('tags', [])}

    def key(self, case):
        if 'probe' in case['input']:
            return 'probe %s' % case['input']['probe']
        return 'curry n=%d paths=%s' % (case['input']['n'], json_compact(case['input']['paths']))


def json_compact(x):
    import json
    return json.dumps(x, separators=(',', ':'))


PROP = C19()
