"""C19 -- curry, map_, filter_, setcol (Props/C19.v).

curry cases: compositions / prefix-reuse trees / equal-but-distinguishable arguments, compared in Coq with
Model/Curry.v (the argument sequence f finally receives is encoded by type + repr, never by ==).
map_ / filter_ / setcol cases: a table from the zoo (fresh / sorted / shuffled / selected / sliced / indexed /
deleted / grown / shrunk / concatenated / unpickled, aliased columns created before or after the derivation,
non-default default_col_type and sorted=False, Mixed / Float / Int / Series columns), a recorded user function, the
implementation's result compared (a) in Coq with Spec/Functional.v (oracle) and Model/Functional.v (model) on the same
table and the tabulated function, (b) on the Python side with a by-value reference, and audited for purity (argument
unchanged, nothing shared between argument and result, writes to either side do not reach the other).
repeat cases: the three functions applied 2-5 times to ONE table object which is changed in place in between (rows added /
removed / added after removal / deleted, cells and slices written, columns added / deleted / renamed / re-assigned, series
depth changed, derivations thrown away), mostly tables with a SeriesColumn next to plain columns, predicates that select the
rows a resize added; every application is judged like a single case on the present value of the table.
curry shapes: wrapped functions with keyword-only settings, *rest, **options, defaults, positional-only markers, annotations,
lambdas, staticmethods, functools.partial objects (n = the positional parameters still open).
typed_* cases: the same on tables whose IntColumn / FloatColumn cells are the values on which Python numbers and NumPy
scalars behave differently (integers near 2**31, 2**31.5, 2**62; 0.0, -0.0, the largest / smallest doubles) with row and
cell functions whose result depends on the exact type and arithmetic of the cell they receive (type(x).__name__,
isinstance(x, int), x * x, x << 70, 2 ** x, 1 / x, x ** 400, 5.0 % x, repr(x), '%r' % x, json.dumps(x), (x == x) is True).
The expected result is f applied to the cells as read from the table (dm[name][i]); that reference application also
heads the function table handed to Coq.  An exception raised by f is an outcome: map_/filter_ must raise the same."""
import itertools
import math
import numbers
import pickle
import random as _random
import warnings

import coqlit as L
import pyobs as O

# Behaviour of the UNCHANGED tree that contradicts the property text and waits for the coordinator's decision (see
# the builder report).  The inputs concerned stay out of the default stream:
#  (F1) filter_(f, col) where col is known under two names in its table (dm.b = dm.a): returns a DataMatrix
#       (col.name is a list, so `(col == f)[col.name]` is a keep_only), not a column;
#  (F2) setcol(dm, 'a', 7) on such a table: the result has a = 7 and b unchanged, whereas dm['a'] = 7 writes through the
#       shared column (a and b both 7);
#  (F3) setcol(dm, new_name, scalar_or_sequence) on a table with default_col_type != MixedColumn: the new column is a
#       MixedColumn (the copy dm[:] drops default_col_type), whereas dm[new_name] = value creates the default type;
#  (F4) filter_(f, dm.a * 2) (a column that sits under no name in its table): KeyError (col.name is None);
#  (F5) filter_(functools.partial(...), col): silently returns an empty column (not a types.FunctionType).
#  (F6) map_(f, col) / filter_(f, col) / col @ f on a FloatColumn or IntColumn call f with the raw NumPy scalars of the
#       buffer (np.float64 / np.int64), not with the cells as col[i] gives them (Python float / int): a cell function
#       that depends on the exact type or arithmetic of its argument (type(x) is float, isinstance(x, int), x * x beyond
#       2**63, 1 / x on 0.0, repr(x), json.dumps(x)) gives other results than f(col[i]).  map_/filter_ on a DataMatrix
#       (Row.__iter__ -> col[i]) and on a MixedColumn pass the cells themselves; those are in the default stream.
#  (F7) curry(obj.method) / curry(Class.a_classmethod) / curry(callable_object) with n positional parameters: applied to
#       the n arguments in any grouping it returns another curried callable and never calls the function
#       (_count_unbound_arguments counts `self` / `cls`, which getfullargspec lists although it is already bound).
INCLUDE_PENDING_FINDINGS = False


# Shapes of the wrapped function.  In every shape the function has exactly n POSITIONAL parameters (what
# inspect.getfullargspec(f).args lists); the extras (keyword-only settings with a default, *rest, **options, defaults of
# positional parameters, annotations, positional-only markers) do not change what f(*args) with n arguments means.
# The function returns the tuple of its n positional arguments and raises AssertionError if an extra was filled.
SHAPES = ['plain', 'kwonly', 'kwonly2', 'kwargs', 'varargs', 'both', 'kwonly_kwargs', 'defaults', 'defaults_kwonly', 'posonly',
          'posonly_mixed', 'annotated', 'lambda', 'static', 'via_class', 'partial_in', 'partial_kw']
# (F7) curry(obj.method) / curry(Class.classmethod) / curry(callable_object): getfullargspec lists `self` / `cls`, which
#      is already bound, so the curried function waits for one argument more than the callable takes and never calls it.
PENDING_SHAPES = ['bound_method', 'class_method', 'callable_object']


def make_f(n, shape='plain'):
    """-> (f, has_name): a callable with n positional parameters that returns the tuple it received"""
    import functools
    ns = {}
    names = ['a%d' % i for i in range(n)]
    ret = '(%s)' % (', '.join(names) + (',' if n else ''))
    doc = '"doc of f%d"' % n
    check = ''
    params = list(names)
    if shape in ('plain', 'static', 'via_class', 'bound_method', 'class_method', 'callable_object'):
        pass
    elif shape == 'kwonly':
        params = names + ['*', "unit='px'"]
        check = "    assert unit == 'px', unit\n"
    elif shape == 'kwonly2':
        params = names + ['*', 'unit=None', 'scale=1.5']
        check = '    assert unit is None and scale == 1.5\n'
    elif shape == 'kwargs':
        params = names + ['**options']
        check = '    assert not options, options\n'
    elif shape == 'varargs':
        params = names + ['*rest']
        check = '    assert not rest, rest\n'
    elif shape == 'both':
        params = names + ['*rest', '**options']
        check = '    assert not rest and not options, (rest, options)\n'
    elif shape == 'kwonly_kwargs':
        params = names + ['*', 'flag=False', '**options']
        check = '    assert flag is False and not options\n'
    elif shape == 'defaults':
        params = names[:1] + ['%s=%d' % (nm, -100 - i) for i, nm in enumerate(names[1:])]
    elif shape == 'defaults_kwonly':
        params = names[:-1] + ['%s=None' % names[-1], '*', 'strict=True']
        check = '    assert strict is True\n'
    elif shape == 'posonly':
        params = names + ['/']
    elif shape == 'posonly_mixed':
        params = names[:1] + ['/'] + names[1:] + ['*', 'k=0']
        check = '    assert k == 0\n'
    elif shape == 'annotated':
        params = ['%s: int' % names[0]] + ["%s: 'anything' = None" % nm for nm in names[1:]] + ['*', 'verbose: bool = False']
        check = '    assert verbose is False\n'
    elif shape == 'lambda':
        exec('f%d = lambda %s, **kw: %s' % (n, ', '.join(names), ret), ns)
        return ns['f%d' % n], True
    elif shape == 'partial_in':
        # two more parameters in front, bound through functools.partial before currying
        exec('def g(p, q, %s):\n    assert (p, q) == (\'P\', \'Q\')\n    return %s\n' % (', '.join(names), ret), ns)
        return functools.partial(functools.partial(ns['g'], 'P'), 'Q'), False
    elif shape == 'partial_kw':
        exec('def g(%s, *, unit=None, **options):\n    assert unit == \'cm\' and not options\n    return %s\n' % (
            ', '.join(names), ret), ns)
        return functools.partial(ns['g'], unit='cm'), False
    else:
        raise ValueError(shape)
    if shape in ('static', 'via_class', 'bound_method', 'class_method', 'callable_object'):
        first = {'static': '', 'class_method': 'cls, '}.get(shape, 'self, ')
        deco = {'static': '    @staticmethod\n', 'class_method': '    @classmethod\n'}.get(shape, '')
        mname = '__call__' if shape == 'callable_object' else 'f%d' % n
        exec('class K(object):\n%s    def %s(%s%s):\n        %s\n        return %s\n' % (
            deco, mname, first, ', '.join(names), doc, ret), ns)
        K = ns['K']
        if shape == 'static':
            return getattr(K(), 'f%d' % n), True
        if shape == 'class_method':
            return getattr(K, 'f%d' % n), True
        if shape == 'bound_method':
            return getattr(K(), 'f%d' % n), True
        if shape == 'callable_object':
            return K(), False
        # via_class: the plain function taken from the class, with the instance bound through functools.partial
        return functools.partial(getattr(K, 'f%d' % n), K()), False
    exec('def f%d(%s):\n    %s\n%s    return %s\n' % (n, ', '.join(params), doc, check, ret), ns)
    return ns['f%d' % n], True


def compositions(n):
    for bits in itertools.product([0, 1], repeat=n - 1):
        parts, cur = [], 1
        for b in bits:
            if b:
                parts.append(cur)
                cur = 1
            else:
                cur += 1
        parts.append(cur)
        yield parts


def obs_lit(o):
    if o == 'fn':
        return 'OFn'
    if o == 'err':
        return 'OErr'
    return '(OVal %s)' % L.zs(o)


class StrSub(str):
    """a str subclass: equal to and hashed like the plain string, but distinguishable"""
    pass


class IntSub(int):
    pass


def rich_pool():
    """Fresh argument objects; many compare equal (and hash alike) although they differ in type / value / identity."""
    nan = float('nan')
    return [1, 1.0, True, IntSub(1), 0, 0.0, -0.0, False, 2, 2.0, 'a', StrSub('a'), 'b', None, nan, float('nan'),
            (1,), (1.0,), (True,), (), [1], [1], [1.0], {'k': 1}, {'k': 1.0}, 10 ** 20, 1e20, -1, -1.0, '', b'a', 0j,
            frozenset([1]), frozenset([1.0])]


def tok_key(v):
    return (type(v).__module__ + '.' + type(v).__qualname__, repr(v))


def rich_tokens(pool):
    """identity-faithful encoding: one integer per distinct (type, repr)"""
    table = {}
    for v in pool:
        table.setdefault(tok_key(v), 1000 + len(table))
    return table


KIND = {'MixedColumn': 'KMixed', 'FloatColumn': 'KFloat', 'IntColumn': 'KInt'}


def isnum(x):
    return isinstance(x, numbers.Number) and not isinstance(x, bool)


def truthy(x):
    try:
        return bool(x)
    except Exception:      # noqa: BLE001
        return False


def plain(x):
    """the cell as the model sees it: NumPy scalars handed to user functions are their Python values"""
    import numpy as np
    if isinstance(x, np.floating):
        return float(x)
    if isinstance(x, np.integer):
        return int(x)
    return x


def cell_ok(x, kind):
    """a cell the Coq value domain represents faithfully"""
    if x is None:
        return kind == 'KMixed'
    if type(x) is int:
        return kind in ('KMixed', 'KInt') and abs(x) < 2 ** 62
    if type(x) is float:
        if kind == 'KFloat':
            return True
        return kind == 'KMixed' and not (math.isfinite(x) and x == int(x))
    if type(x) is str and kind == 'KMixed':
        for conv in (int, float):
            try:
                conv(x)
                return False       # numeric-looking text is never stored by a type-checked write
            except ValueError:
                pass
        return True
    return False


class Recorder(object):
    """wraps a user function; records (argument, result) pairs and checks that the function is a function"""

    def __init__(self, fn, rowwise):
        self.fn, self.rowwise, self.calls, self.impure = fn, rowwise, [], None

    def note(self, arg, res):
        self.calls.append((arg, res))

    def as_row_function(self, names=None):
        """names: None = a **kwargs function; a list = a function with exactly these named parameters"""
        def call(d):
            r = self.fn(dict(d))
            self.note(dict(d), r)
            return r
        if names is None:
            def f(**d):
                return call(d)
            return f
        ns = {'call': call}
        exec('def f(%s):\n    return call(dict(%s))\n' % (', '.join(names), ', '.join('%s=%s' % (n, n) for n in names)), ns)
        return ns['f']

    def as_cell_function(self):
        def g(x):
            r = self.fn(x)
            self.note(x, r)
            return r
        return g


class RefCalls(object):
    """the user function applied by the REFERENCE (to the cells as read from the table); records (argument, result) and
    the exception the function raised, if any"""

    def __init__(self, fn):
        self.fn, self.calls, self.raised, self.at = fn, [], None, None

    def __call__(self, arg):
        try:
            r = self.fn(arg)
        except Exception as e:      # noqa: BLE001
            if self.raised is None:
                self.raised, self.at = O.exn_name(e), len(self.calls)
            raise
        self.calls.append((dict(arg) if isinstance(arg, dict) else arg, r))
        return r


def res_key(r):
    """a result as the table will store it: NumPy scalars by their Python value (a cell write converts them), everything
    else by (type, repr)"""
    if isinstance(r, dict):
        return tuple((k, res_key(v)) for k, v in r.items())
    r = plain(r)
    import numpy as np
    if isinstance(r, np.bool_):
        r = bool(r)
    return tok_key(r)


# Integers whose squares / multiples leave int64 although they are ordinary IntColumn cells, and floats on which Python
# arithmetic raises where NumPy arithmetic returns inf / nan
BIG_INT = [3037000500, -3037000500, 3037000499, 2 ** 31, 2 ** 31 - 1, -2 ** 31, 46341, 2 ** 53 + 1, 2 ** 62 - 1,
           -(2 ** 62) + 1, 2 ** 61]
EDGE_FLT = [0.0, 0.0, -0.0, 5e-324, 1.7976931348623157e308, -1e300, float(2 ** 53), 0.1, 1e-300]


def typed_cell_funs():
    """cell functions whose result depends on the exact Python type / arithmetic of the cell: name -> function of one
    cell.  Each is total up to the exceptions Python itself raises (those are outcomes)."""
    import json

    def small(x):
        return type(x) is not bool and isinstance(x, numbers.Integral) and -70 < x < 70

    return {
        'ty_name': lambda x: type(x).__name__,
        'ty_isint': lambda x: x // 2 if isinstance(x, int) else 'not an int',
        'ty_isfloat': lambda x: type(x) is float,
        'ty_square': lambda x: x * x if isnum(x) else x,
        'ty_times4': lambda x: x * 4 if isnum(x) else None,
        'ty_recip': lambda x: 1 / x,
        'ty_recip_guard': lambda x: _guarded(lambda: 1 / x),
        'ty_repr': lambda x: 'r' + repr(x),
        'ty_fmt': lambda x: '%r|%s' % (x, x),
        'ty_pow2': lambda x: 2 ** x if small(x) else 0,
        'ty_fpow': lambda x: x ** 400 if type(x) is not bool and isinstance(x, float) else 1,
        'ty_json': lambda x: json.dumps(x),
        'ty_idiv': lambda x: 7 // x if isnum(x) and x == x else -1,
        'ty_mod': lambda x: 5.0 % x if isnum(x) and x == x else -1.0,
        'ty_cmp_is': lambda x: (x == x) is True,
        'ty_shift': lambda x: x << 70 if isinstance(x, numbers.Integral) and type(x) is not bool and x >= 0 else 0,
    }


def typed_cell_preds():
    """the same for predicates (the truth value of the result is what filter_ uses)"""
    import json
    inf = float('inf')

    def small(x):
        return type(x) is not bool and isinstance(x, numbers.Integral) and -70 < x < 70

    def fin(x):
        return isnum(x) and x == x and abs(x) != inf

    return {
        'ty_name': lambda x: type(x).__name__ in ('int', 'float', 'str', 'NoneType'),
        'ty_isint': lambda x: isinstance(x, int),
        'ty_isfloat': lambda x: type(x) is float,
        'ty_square': lambda x: fin(x) and x * x >= 0,
        'ty_times4': lambda x: fin(x) and (x * 4 >= x) == (x >= 0),
        'ty_recip': lambda x: 1 / x > 0,
        'ty_recip_guard': lambda x: _guarded(lambda: 1 / x) is None,
        'ty_repr': lambda x: repr(x)[0] in '-0123456789',
        'ty_pow2': lambda x: (2 ** x if small(x) else 0) < 1,
        'ty_fpow': lambda x: (x ** 400 if type(x) is not bool and isinstance(x, float) else 1) > 1,
        'ty_json': lambda x: len(json.dumps(x)) > 1,
        'ty_idiv': lambda x: (7 // x if isnum(x) and x == x else -1) > 0,
        'ty_mod': lambda x: (5.0 % x if isnum(x) and x == x else -1.0) >= 0,
        'ty_cmp_is': lambda x: (x == x) is True,
        'ty_shift': lambda x: (x << 70 if isinstance(x, numbers.Integral) and type(x) is not bool and x > 0 else 0) > 0,
    }


def _guarded(thunk):
    try:
        return thunk()
    except ZeroDivisionError:
        return None
    except TypeError:
        return 'n/a'


class C19:
    id = 'C19'
    props_file = 'theories/Props/C19.v'
    kernel_files = ['KCurry.v', 'KFunctional.v']
    oracle_vos = ['theories/Run/SC19.vo']
    model_vos = ['theories/Run/RC19.vo']
    oracle_imports = ['From DM Require Import Run.SC19.', 'Open Scope Z_scope.']
    model_imports = ['From DM Require Import Run.SC19 Run.RC19.', 'Open Scope Z_scope.']
    exhaustive = False
    rule = ('curry: every composition of n arguments for arities 1..6 (all 63, exhaustive) with each proper prefix '
            'observed; prefix-reuse trees (one wrapper / one prefix object continued in 2-5 ways, chains advanced in a '
            'random interleaving); the same over a pool of arguments that compare equal but differ in type, value or '
            'identity (1 / 1.0 / True / int subclass, 0 / 0.0 / -0.0 / False, str / str subclass, NaN objects, tuples, '
            'unhashable lists and dicts), f returning the tuple it received, compared by (type, repr) tokens in Coq and by '
            'identity in Python; out-of-quantifier calls (empty chunks, too many arguments, calling a value, keywords); '
            'all of it also for 16 other shapes of the wrapped function (keyword-only settings, *rest, **options, defaults, '
            'positional-only, annotations, lambda, staticmethod, functools.partial objects). '
            'map_/filter_/setcol: a table from the zoo (11 derivation routes composed up to 3 deep, aliases before/after, '
            'non-default flags, Series columns), a recorded row/cell function from 6-9 families, result compared with '
            'Spec/Functional.v and Model/Functional.v on the tabulated function, with a by-value Python reference, and '
            'audited (argument unchanged, no shared column/buffer/index, writes do not cross); typed_*: the same on tables '
            'with int64-edge integers / 0.0 / extreme doubles and 16 families of row/cell functions sensitive to the exact '
            'Python type and arithmetic of the cell (type name, isinstance, products and shifts beyond 2**63, 1/x, x**400, '
            'repr, json), expected = f on the cells as read (dm[name][i]), the reference application heads the function '
            'table given to Coq, an exception of f is judged as the expected outcome; repeat: 2-5 applications to ONE table '
            'object changed in place in between (resize, row deletion, cell / slice writes, columns added / deleted / '
            'renamed / re-assigned, series depth), 65 % with a SeriesColumn, predicates selecting the added rows. non-trivial: runs f at '
            'least once / table has rows; distinct by (kind, route, family, shape)')
    trusted_base = [
        'Coq 8.16.1 kernel (coqc; vm_compute for evaluating cases; no native_compute)',
        'translators /verif/translate/gen_curry.py, gen_functional.py (ast -> Gen/KCurry.v, Gen/KFunctional.v) incl. '
        'their pinned fragments',
        'harness/c19.py runner (table zoo, recorder, literal printers, audits) + Run/SC19.v, Run/RC19.v comparators',
        'modelled, not verified: functools.partial / inspect.getfullargspec semantics, Python call protocol, dict order, '
        'sorted(), NumPy array casts of mapped values (Spec.mapped_cell)',
        'cell coercion is Spec/Nf.nf in both levels (tied to the code by C05)',
    ]
    assumptions = [
        'the wrapped / mapped / filter function is a pure total Python function (checked per case: the recorder rejects '
        'two different results for one argument)',
        'tables are by value in the Coq levels: aliasing, ownership and buffer sharing are judged by the Python-side audits',
        'numeric _getrowidkey (argsort + searchsorted) is modelled by the dict lookup; their equivalence on duplicate-free '
        'ids is a C01 theorem',
    ]

    # ================================================================== curry
    def _run(self, n, paths, rich=False, sched=None, kw=None, shape='plain'):
        """Every call into the implementation is inside a try: an exception (of any class) is the observation 'err'
        for that path; the classes other than TypeError are listed in the third component."""
        from datamatrix import functional as fnc
        f, has_name = make_f(n, shape)
        pyfail = None
        raised = []
        try:
            root = fnc.curry(f)
        except Exception as e:      # noqa: BLE001
            return ['err' for _ in paths], 'curry(f) raised %r for a function of shape %s' % (e, shape), [O.exn_name(e)]
        if has_name and (getattr(root, '__name__', None) != f.__name__ or getattr(root, '__doc__', None) != f.__doc__):
            pyfail = 'curry wrapper lost __name__/__doc__: %r %r' % (getattr(root, '__name__', None),
                                                                       getattr(root, '__doc__', None))
        pool = rich_pool() if rich else None
        toks = rich_tokens(pool) if rich else None

        def arg(a):
            return pool[a] if rich else a

        objs = {(): root}
        state = [((), root) for _ in paths]        # per path: (key so far, object so far)
        pos = [0] * len(paths)
        order = sched if sched is not None else [i for i, p in enumerate(paths) for _ in p]
        for pi in order:
            if pos[pi] >= len(paths[pi]):
                continue
            chunk = paths[pi][pos[pi]]
            pos[pi] += 1
            key, obj = state[pi]
            key = key + (tuple(chunk),)
            if key in objs:
                obj = objs[key]
            else:
                if isinstance(obj, str) or not callable(obj):
                    obj = 'err'
                else:
                    try:
                        if kw and pos[pi] == len(paths[pi]) and pi == 0:
                            obj = obj(*[arg(a) for a in chunk], **kw)
                        else:
                            obj = obj(*[arg(a) for a in chunk])
                    except TypeError:
                        obj = 'err'
                    except Exception as e:      # noqa: BLE001
                        obj = 'err'
                        raised.append(O.exn_name(e))
                objs[key] = obj
            state[pi] = (key, obj)
        observed = []
        for pi, path in enumerate(paths):
            obj = state[pi][1]
            if isinstance(obj, str) and obj == 'err':
                observed.append('err')
            elif callable(obj):
                observed.append('fn')
            elif rich:
                sent = [pool[a] for ch in path for a in ch]
                if isinstance(obj, tuple) and len(obj) == len(sent) and not all(r is s for r, s in zip(obj, sent)) \
                        and pyfail is None:
                    pyfail = 'curry called f with other objects than the ones supplied: got %r for %r' % (
                        [tok_key(r) for r in obj], [tok_key(s) for s in sent])
                observed.append([toks.get(tok_key(v), -1) for v in obj] if isinstance(obj, tuple) else [-2])
            else:
                observed.append([int(v) for v in obj] if isinstance(obj, tuple) and all(type(v) is int for v in obj)
                                else [10 ** 9])
        return observed, pyfail, raised

    def rerun(self, inp):
        if 'probe' in inp:
            return self.probe(inp['probe'], inp['seed'])
        try:
            with warnings.catch_warnings():
                warnings.simplefilter('ignore')
                return self._rerun_curry(inp)
        except Exception as e:      # noqa: BLE001  -- never a crash of the generator: the case is judged (and fails)
            import traceback
            return {'input': inp, 'observed': None, 'oracle': 'true', 'model': 'true', 'nontrivial': False,
                    'pyfail': 'curry case raised %r (%s)' % (e, traceback.format_exc(limit=3).replace('\n', ' | ')[-400:]),
                    'sig': 'crashed|%s' % json_compact(inp), 'tags': inp.get('tags', []) + ['crashed']}

    def _rerun_curry(self, inp):
        n, paths = inp['n'], inp['paths']
        rich = bool(inp.get('rich'))
        shape = inp.get('shape', 'plain')
        observed, pyfail, raised = self._run(n, paths, rich, inp.get('sched'), inp.get('kw'), shape)
        toks = rich_tokens(rich_pool()) if rich else None
        pool = rich_pool() if rich else None
        o_parts, m_parts = [], []
        calls_f = False
        for path, o in zip(paths, observed):
            if rich:
                chunks = L.lst(L.zs([toks[tok_key(pool[a])] for a in c]) for c in path)
            else:
                chunks = L.lst(L.zs(c) for c in path)
            o_parts.append('oracle %s %s %s' % (L.nat(n), chunks, obs_lit(o)))
            m_parts.append('model_agrees %s %s %s' % (L.nat(n), chunks, obs_lit(o)))
            calls_f = calls_f or isinstance(o, list)
        if inp.get('kw'):
            # keywords are refused by the curried function (documented): the first path must end in a TypeError
            if observed and observed[0] != 'err' and pyfail is None:
                pyfail = 'a curried function accepted keyword arguments'
            o_parts, m_parts = o_parts[1:], m_parts[1:]
        return {
            'input': inp, 'observed': observed if not raised else {'paths': observed, 'raised': raised}, 'pyfail': pyfail,
            'oracle': '(' + ' && '.join(o_parts) + ')' if o_parts else 'true',
            'model': '(' + ' && '.join(m_parts) + ')' if m_parts else 'true',
            'nontrivial': calls_f,
            'sig': '%d|%s|%s|%s' % (n, 'rich' if rich else 'int', shape, sorted(map(str, paths))),
            'tags': inp.get('tags', []) + ['arity%d' % n, 'shape:' + shape],
        }

    # ================================================================== tables
    ROUTES = ['sorted', 'shuffled', 'selected', 'sliced', 'indexed', 'deleted', 'grown', 'shrunk', 'concat',
              'unpickled']
    MIX = [1, 2, 3, 2.5, 'x', 'y', None, -1, '', 'é', float('nan'), float('inf'), 0, 10 ** 15 + 1, -2.75]
    FLT = [0, 1, 2, 2.5, -1, float('nan'), float('inf'), float('-inf'), 1e300, -0.5]

    def _base(self, sub, n, series, first_u=0, extreme=False):
        """extreme: the numeric columns also hold integers near 2**31 / 2**31.5 / 2**62 and floats on which Python and
        NumPy arithmetic differ (0.0, -0.0, the largest and smallest doubles)"""
        from datamatrix import DataMatrix, MixedColumn, FloatColumn, IntColumn, SeriesColumn
        if extreme:
            return self._base_extreme(sub, n, series, first_u)
        dm = DataMatrix(length=n)
        order = ['u', 'a', 'f', 'i'] + (['s'] if series else [])
        sub.shuffle(order)
        for nm in order:
            if nm == 'u':
                dm.u = MixedColumn
                dm.u = list(range(first_u, first_u + n))
            elif nm == 'a':
                dm.a = MixedColumn
                dm.a = [sub.choice(self.MIX) for _ in range(n)]
            elif nm == 'f':
                dm.f = FloatColumn
                dm.f = [sub.choice(self.FLT) for _ in range(n)]
            elif nm == 'i':
                dm.i = IntColumn
                dm.i = [sub.randint(-2, 3) for _ in range(n)]
            else:
                dm.s = SeriesColumn(depth=2)
                for r in range(n):
                    dm.s[r] = [sub.randint(0, 5), sub.choice([0.5, 1.5, float('nan')])]
        return dm

    def _base_extreme(self, sub, n, series, first_u):
        from datamatrix import DataMatrix, MixedColumn, FloatColumn, IntColumn, SeriesColumn
        dm = DataMatrix(length=n)
        order = ['u', 'a', 'f', 'i'] + (['s'] if series else [])
        sub.shuffle(order)
        for nm in order:
            if nm == 'u':
                dm.u = MixedColumn
                dm.u = list(range(first_u, first_u + n))
            elif nm == 'a':
                dm.a = MixedColumn
                dm.a = [sub.choice(self.MIX + [0.5, 3037000500, -3, 2 ** 40]) for _ in range(n)]
            elif nm == 'f':
                dm.f = FloatColumn
                dm.f = [sub.choice(EDGE_FLT if sub.random() < 0.45 else self.FLT) for _ in range(n)]
            elif nm == 'i':
                dm.i = IntColumn
                dm.i = [sub.choice(BIG_INT) if sub.random() < 0.4 else sub.randint(-2, 3) for _ in range(n)]
            else:
                dm.s = SeriesColumn(depth=2)
                for r in range(n):
                    dm.s[r] = [sub.randint(0, 5), sub.choice([0.5, 1.5, float('nan')])]
        return dm

    ALIASES = [('a', 'b'), ('a', 'A'), ('f', 'g'), ('f', 'e'), ('i', 'j'), ('u', 'v'), ('i', 'h')]

    def _zoo(self, sub, series_ok=False, extreme=False, series_p=0.2):
        """-> (dm, route tags)."""
        from datamatrix import IntColumn, FloatColumn, operations as ops
        n = sub.choice([0, 1, 2, 3, 3, 4, 4, 5, 6, 7])
        series = series_ok and sub.random() < series_p
        dm = self._base(sub, n, series, extreme=extreme)
        tags = ['extreme'] if extreme else []
        if sub.random() < 0.2:
            src, al = sub.choice(self.ALIASES)
            dm[al] = dm[src]
            tags.append('alias-before')
        steps = sub.choice([0, 1, 1, 1, 2, 2, 3])
        for _ in range(steps):
            r = sub.choice(self.ROUTES)
            m = len(dm)
            if r == 'sorted':
                dm = ops.sort(dm, by=dm[sub.choice(['i', 'a', 'f', 'u'])])
            elif r == 'shuffled':
                dm = ops.shuffle(dm)
            elif r == 'selected':
                dm = (dm.i >= 0) if sub.random() < 0.6 else (dm.a != 'x')
                _ = dm.a[dm]
            elif r == 'sliced':
                dm = dm[sub.choice([slice(1, None), slice(None, -1), slice(None, None, 2), slice(None, None, -1)])]
            elif r == 'indexed':
                if m == 0:
                    continue
                idx = list(range(m))
                sub.shuffle(idx)
                dm = dm[idx[:sub.randint(1, m)]]
            elif r == 'deleted':
                if m == 0:
                    continue
                del dm[sub.randrange(m)]
            elif r == 'grown':
                dm.length = m + sub.choice([1, 2])
            elif r == 'shrunk':
                dm.length = max(0, m - 1)
            elif r == 'concat':
                other = self._base(sub, sub.randint(0, 3), series, first_u=100, extreme=extreme)
                dm = (dm << other) if sub.random() < 0.7 else (other << dm)
            elif r == 'unpickled':
                dm = pickle.loads(pickle.dumps(dm, sub.choice([2, 4])))
            tags.append(r)
        if not steps:
            tags.append('fresh')
        # derivations whose results are thrown away: they must leave the table (and its lookup caches) usable
        if sub.random() < 0.4 and len(dm):
            for _ in range(sub.choice([1, 2, 2, 3])):
                k = sub.choice(['lookup', 'lookup', 'shuffle', 'shuffle', 'shuffle-col', 'sort', 'copy', 'select', 'filter'])
                if k == 'lookup':
                    _ = dm.a[dm]
                elif k == 'shuffle':
                    _ = ops.shuffle(dm)
                elif k == 'shuffle-col':
                    _ = ops.shuffle(dm[sub.choice(['a', 'u', 'i'])])
                elif k == 'sort':
                    _ = ops.sort(dm, by=dm.u)
                elif k == 'copy':
                    _ = dm[:]
                elif k == 'select':
                    _ = dm.i >= 1
                else:
                    from datamatrix import functional as _fnc
                    _ = _fnc.filter_(lambda **d: d['i'] > 0, dm)
            tags.append('side-derivations')
        if sub.random() < 0.35:
            src, al = sub.choice(self.ALIASES)
            if al not in dm:
                dm[al] = dm[src]
                tags.append('alias-after')
        if sub.random() < 0.15:
            dm.default_col_type = sub.choice([IntColumn, FloatColumn])
            tags.append('dflt-' + dm.default_col_type.__name__)
        if sub.random() < 0.15:
            dm.sorted = False
            tags.append('unsorted')
        if series:
            tags.append('series')
        return dm, tags

    # ---- reading a table ------------------------------------------------------------------------------------
    @staticmethod
    def _cells(col):
        if hasattr(col, 'depth'):
            return [[float(x) for x in col._seq[i]] for i in range(len(col._seq))]
        return [col[i] for i in range(len(col._seq))]

    def _snap(self, dm):
        groups = {}
        for nm, c in dm._cols.items():
            groups.setdefault(id(c), []).append(nm)
        return {
            'cols': [(nm, type(c).__name__, [repr(v) for v in self._cells(c)], c._datamatrix is dm,
                      [int(x) for x in c._rowid]) for nm, c in dm._cols.items()],
            'rowid': [int(x) for x in dm._rowid], 'shared': sorted(map(tuple, groups.values())),
            'dflt': dm.default_col_type.__name__, 'sorted': dm.sorted, 'len': len(dm),
        }

    def _lits(self, dm):
        """(tab literal, ltab literal) of a table, or None outside the Coq value domain"""
        from datamatrix import DataMatrix
        if not isinstance(dm, DataMatrix) or not self._in_model(dm):
            return None
        return self._tab_lit(dm), self._ltab_lit(dm)

    def _observe_tab(self, outcome):
        """(in model, oracle literal, model literal) of a DataMatrix result -- taken before the audits write into it"""
        if outcome[0] == 'exn':
            return True, '(Raise %s)' % outcome[1], '(Raise %s)' % outcome[1]
        lits = self._lits(outcome[1])
        if lits is None:
            return False, None, None
        return True, '(Ok %s)' % lits[0], '(Ok %s)' % lits[1]

    def _observe_col(self, outcome, ct):
        if outcome[0] == 'exn':
            return True, '(Raise %s)' % outcome[1]
        r = outcome[1]
        if type(r) is not ct or not all(O.val(v) is not None for v in self._cells(r)):
            return False, None
        return True, '(Ok (%s))' % self._col_lit('', r)

    def _in_model(self, dm):
        for nm, c in dm._cols.items():
            k = KIND.get(type(c).__name__)
            if k is None or type(nm) is not str:
                return False
            if not all(cell_ok(v, k) for v in self._cells(c)):
                return False
            if [int(x) for x in c._rowid] != [int(x) for x in dm._rowid]:
                return False
        return True

    def _col_lit(self, nm, c):
        k = KIND[type(c).__name__]
        return 'mkc %s %s %s' % (L.string(nm), k, L.lst(O.val(v) for v in self._cells(c)))

    def _tab_lit(self, dm):
        return '(mkt %s %s %s)' % (L.nat(len(dm)), KIND.get(dm.default_col_type.__name__, 'KMixed'),
                                   L.lst(self._col_lit(nm, c) for nm, c in dm._cols.items()))

    def _ltab_lit(self, dm):
        return '(mkl %s %s %s)' % (L.lst(L.N(int(x)) for x in dm._rowid), L.boolean(bool(dm.sorted)), self._tab_lit(dm))

    @staticmethod
    def _row_lit(d):
        return L.lst('(%s, %s)' % (L.string(k), O.val(plain(d[k]))) for k in sorted(d))

    @staticmethod
    def _upd_lit(u):
        return L.lst('(%s, %s)' % (L.string(k), O.pyv(v)) for k, v in u.items())

    # ---- purity audits ----------------------------------------------------------------------------------------
    def _shares(self, a, b):
        """something mutable is shared between two tables"""
        import numpy as np
        if a is b:
            return 'the result is the argument itself'
        if a._rowid is b._rowid:
            return 'the row index object is shared'
        for n1, c1 in a._cols.items():
            for n2, c2 in b._cols.items():
                if c1 is c2:
                    return 'column object %s/%s is shared' % (n1, n2)
                if c1._seq is c2._seq:
                    return 'cell storage of %s/%s is shared' % (n1, n2)
                if isinstance(c1._seq, np.ndarray) and isinstance(c2._seq, np.ndarray) and c1._seq.size and c2._seq.size \
                        and np.shares_memory(c1._seq, c2._seq):
                    return 'cell buffer of %s/%s is shared' % (n1, n2)
                if c1._rowid is c2._rowid and not isinstance(c1._rowid, np.ndarray):
                    return 'row index of columns %s/%s is shared' % (n1, n2)
        return None

    def _poke(self, victim, witness, before):
        """write into every column of `victim`; `witness` must keep its snapshot"""
        if len(victim) == 0:
            return None
        for nm, c in list(victim._cols.items()):
            try:
                if hasattr(c, 'depth'):
                    c[0] = [99] * c.depth
                else:
                    c[0] = 77
            except Exception:      # noqa: BLE001
                continue
        return None if self._snap(witness) == before else 'a write to one table showed up in the other'

    # ---- user functions ---------------------------------------------------------------------------------------
    def _value_for(self, sub, kind, allow_bad=True):
        good = {'KMixed': [7, 2.5, 'q', None, '3', 4.0, True, float('nan'), '', -0.0, 10 ** 16],
                'KFloat': [7, 2.5, '3', 4.0, True, float('nan'), None, 'q', -0.0, float('inf'), '2.5'],
                'KInt': [7, 2.5, '3', 4.0, True, -1.5, 0, '4.0']}[kind]
        bad = {'KMixed': [[1], {'a': 1}, object], 'KFloat': [[1]], 'KInt': ['q', None, float('nan'), float('inf'), [1]]}[kind]
        if allow_bad and sub.random() < 0.06:
            return sub.choice(bad)
        return sub.choice(good)

    def _rowfun(self, sub, dm):
        """a pure function dict -> dict for map_ on a DataMatrix; returns (family, fn)"""
        names = [nm for nm, c in dm._cols.items() if not hasattr(c, 'depth')]
        kinds = {nm: KIND[type(dm._cols[nm]).__name__] for nm in names}
        fam = sub.choice(['inc', 'newz', 'touch', 'touch', 'touchall', 'cond_new', 'empty', 'reads_new', 'swap',
                          'identity', 'coerce', 'new_only', 'rotating', 'rotating', 'late_new', 'new_and_old'])
        salt = sub.randrange(1000)

        def h(d, extra=0):
            """a small integer that depends on the row only"""
            acc = salt + extra
            for k in sorted(d):
                v = d[k]
                if isnum(v) and v == v and abs(v) != float('inf'):
                    acc += int(v) * 7
                elif isinstance(v, str):
                    acc += len(v) + 3
                elif v is None:
                    acc += 11
            return acc

        if fam == 'inc':
            return fam, lambda d: {'i': d['i'] + 1}
        if fam == 'newz':
            return fam, lambda d: {'i': d['i'] + 1, 'z': d['u'] * 10 if isnum(d['u']) else 'n'}
        if fam in ('touch', 'touchall'):
            tgt = list(names) if fam == 'touchall' else sub.sample(names, sub.randint(1, min(3, len(names))))
            sub.shuffle(tgt)
            pools = {nm: [self._value_for(sub, kinds[nm]) for _ in range(3)] for nm in tgt}
            return fam, lambda d: {nm: pools[nm][h(d, i) % 3] for i, nm in enumerate(tgt)}
        if fam == 'cond_new':
            return fam, lambda d: ({'w': h(d), 'z': 'p'} if h(d) % 3 == 0 else ({'z': None, 'w': 2.5} if h(d) % 3 == 1 else {}))
        if fam == 'empty':
            return fam, lambda d: {}
        if fam == 'new_only':          # the documented use: map_(lambda a: {'b': a * 2}, dm)
            return fam, lambda d: {'nb': d['i'] * 2}
        if fam == 'rotating':          # a different set of new keys per row, in a different order
            keys = ['n0', 'n1', 'n2', 'N3']
            return fam, lambda d: dict((keys[(h(d) + q) % 4], [h(d, q) % 7, 'r', None, 1.5][(h(d) + q) % 4])
                                       for q in range(h(d, 5) % 4))
        if fam == 'late_new':          # the new column appears for the first time in a later row
            return fam, lambda d: ({'late': d['i']} if isnum(d['u']) and d['u'] >= 2 else {})
        if fam == 'new_and_old':
            return fam, lambda d: {'nz': 'x%s' % d['i'], 'a': d['i'], 'i': 0, 'n2': d['f']}
        if fam == 'reads_new':
            return fam, lambda d: {'z': 1 if 'z' not in d else (2 if d['z'] == '' else 3), 'i': h(d) % 5}
        if fam == 'swap':
            return fam, lambda d: {'a': d['f'], 'f': d['i'], 'u': d['a']}
        if fam == 'identity':
            return fam, lambda d: dict((k, d[k]) for k in names if k in d)
        # coerce: values that the column type converts
        return fam, lambda d: {'i': [2.7, '3', True, -1.5, 4.0][h(d) % 5], 'f': [None, 'q', 3, '2.5', True][h(d, 1) % 5],
                               'a': ['3', 4.0, '2.5', True, ' 7 '][h(d, 2) % 5]}

    def _rowpred(self, sub, dm, extra=False):
        """extra: also the predicates that pick out rows added by a resize (blank '' / nan / 0 cells, or the values the
        harness writes into added rows: u >= 100) and predicates on the cells of a series column"""
        fams = ['i_ge', 'u_even', 'a_text', 'true', 'false', 'a_truthy', 'f_notnan', 'mixed']
        if extra:
            fams = fams + ['u_blank', 'u_blank', 'f_nan', 'u_added', 'u_added', 'i_zero', 'true'] + \
                (['s_first', 's_nan'] if 's' in dm._cols else [])
        fam = sub.choice(fams)
        k = sub.choice([-1, 0, 1, 2])
        if fam == 'u_blank':
            return fam, lambda d: isinstance(d['u'], str) and d['u'] == ''
        if fam == 'f_nan':
            return fam, lambda d: d['f'] != d['f']
        if fam == 'u_added':
            return fam, lambda d: isnum(d['u']) and d['u'] >= 100 + k
        if fam == 'i_zero':
            return fam, lambda d: d['i'] == 0
        if fam == 's_first':
            return fam, lambda d: bool(len(d['s']) and float(d['s'][0]) >= k)
        if fam == 's_nan':
            return fam, lambda d: bool(len(d['s']) and d['s'][-1] != d['s'][-1])
        if fam == 'i_ge':
            return fam, lambda d: d['i'] >= k
        if fam == 'u_even':
            return fam, lambda d: isnum(d['u']) and d['u'] % 2 == 0
        if fam == 'a_text':
            return fam, lambda d: d['a'] is None or isinstance(d['a'], str)
        if fam == 'true':
            return fam, lambda d: True
        if fam == 'false':
            return fam, lambda d: False
        if fam == 'a_truthy':
            return fam, lambda d: d['a']
        if fam == 'f_notnan':
            return fam, lambda d: d['f'] == d['f']
        return fam, lambda d: (d['i'] + (1 if isnum(d['a']) and d['a'] == d['a'] and d['a'] > 1 else 0)) % 2

    def _cellpred(self, sub):
        fam = sub.choice(['eq', 'ge', 'nan', 'none', 'self', 'text', 'true', 'false', 'odd'])
        k = sub.choice([0, 1, 2, 2.5, 'x'])
        return fam, {
            'eq': lambda x: x == k,
            'ge': lambda x: isnum(x) and not isinstance(k, str) and x >= k,
            'nan': lambda x: x != x,
            'none': lambda x: x is None,
            'self': lambda x: x,
            'text': lambda x: isinstance(x, str),
            'true': lambda x: 1,
            'false': lambda x: None,
            'odd': lambda x: isnum(x) and x == x and abs(x) != float('inf') and int(x) % 2 == 1,
        }[fam]

    def _cellmap(self, sub):
        fam = sub.choice(['double', 'text', 'none', 'self', 'half', 'gt1', 'trunc', 'const'])
        c = sub.choice([7, 2.5, -1])
        return fam, {
            'double': lambda x: x * 2 if isnum(x) else x,
            'text': lambda x: 't' + str(x),
            'none': lambda x: None,
            'self': lambda x: x,
            'half': lambda x: float(x) + 0.5 if isnum(x) else 0.25,
            'gt1': lambda x: bool(isnum(x) and x > 1),
            'trunc': lambda x: int(x) if (isnum(x) and x == x and abs(x) != float('inf')) else 0,
            'const': lambda x: c,
        }[fam]

    # ---- user functions that look at the exact type / arithmetic of the cells they receive -------------------------
    @staticmethod
    def _typed_cols(sub, dm, one=False):
        """the columns a typed row function reads: mostly the IntColumn / FloatColumn ones (and their other names)"""
        ints = [nm for nm in ('i', 'j', 'h') if nm in dm._cols]
        flts = [nm for nm in ('f', 'g', 'e') if nm in dm._cols]
        mixed = [nm for nm in ('a', 'u', 'b', 'A', 'v') if nm in dm._cols]
        if one:
            return [sub.choice(sub.choice([ints, ints, flts, flts, mixed]))]
        cols = sub.choice([['i'], ['f'], ['i', 'f'], ['f', 'i'], ['i', 'f', 'a'], ['a', 'i'], ['u', 'f']])
        if sub.random() < 0.3:
            cols = cols + [nm for nm in ints[1:] + flts[1:] if nm not in cols]
        return cols

    def _rowfun_typed(self, sub, dm):
        funs = typed_cell_funs()
        fam = sub.choice(sorted(funs))
        g = funs[fam]
        cols = self._typed_cols(sub, dm)
        return fam, lambda d: dict(('t_' + c, g(d[c])) for c in cols)

    def _rowpred_typed(self, sub, dm):
        preds = typed_cell_preds()
        fam = sub.choice(sorted(preds))
        q = preds[fam]
        c = self._typed_cols(sub, dm, one=True)[0]
        return fam, lambda d: q(d[c])

    def _cellmap_typed(self, sub):
        funs = typed_cell_funs()
        fam = sub.choice(sorted(funs))
        return fam, funs[fam]

    def _cellpred_typed(self, sub):
        preds = typed_cell_preds()
        fam = sub.choice(sorted(preds))
        return fam, preds[fam]

    # ---- by-value Python reference ------------------------------------------------------------------------------
    @staticmethod
    def _coerce(ct, v, depth=None):
        """what a column of class ct stores for v, through the library's own (C05-checked) cell write"""
        from datamatrix import DataMatrix, SeriesColumn
        s = DataMatrix(length=1)
        s.c = SeriesColumn(depth=depth) if depth is not None else ct
        s.c[0] = v
        return [float(x) for x in s.c._seq[0]] if depth is not None else s.c[0]

    def _ref_map_dm(self, dm, fn):
        from datamatrix import MixedColumn
        cols = {}
        order = []
        for nm, c in dm._cols.items():
            cols[nm] = [type(c), list(self._cells(c)), getattr(c, 'depth', None), c]
            order.append(nm)
        n = len(dm)
        source = {nm: (list(cols[nm][1]), cols[nm][2]) for nm in cols}
        for j in range(n):
            d = {}
            for nm in sorted(source):
                v = source[nm][0][j]
                if source[nm][1] is not None:
                    import numpy as np
                    v = np.array(v, dtype=float)
                d[nm] = v
            u = fn(dict(d))
            d.update(u)
            for k, v in d.items():
                if k not in cols:
                    cols[k] = [MixedColumn, [''] * n, None, None]
                    order.append(k)
                cols[k][1][j] = self._coerce(cols[k][0], v, cols[k][2])
        return [(nm, cols[nm][0].__name__, [repr(v) for v in cols[nm][1]]) for nm in order]

    def _view(self, dm):
        return [(nm, type(c).__name__, [repr(v) for v in self._cells(c)]) for nm, c in dm._cols.items()]

    def _byvalue_copy(self, dm, keep_alias, keep_flags):
        from datamatrix import DataMatrix, SeriesColumn
        import numpy as np
        r = DataMatrix(length=len(dm))
        seen = {}
        for nm, c in dm._cols.items():
            if keep_alias and id(c) in seen:
                r[nm] = r[seen[id(c)]]
                continue
            seen[id(c)] = nm
            if hasattr(c, 'depth'):
                r[nm] = SeriesColumn(depth=c.depth)
                if len(dm):
                    r[nm][:] = np.array(c._seq)
            else:
                r[nm] = type(c)
                r[nm][:] = list(self._cells(c))
        if keep_flags:
            r.default_col_type = dm.default_col_type
            r.sorted = dm.sorted
        return r

    # ---- the cases ---------------------------------------------------------------------------------------------
    def probe(self, kind, seed):
        sub = _random.Random(seed)
        _random.seed(seed)
        with warnings.catch_warnings():
            warnings.simplefilter('ignore')
            try:
                import numpy as np
                np.random.seed(seed % (2 ** 32))
                out = getattr(self, '_case_' + kind)(sub)
            except Exception as e:      # noqa: BLE001
                import traceback
                out = {'pyfail': 'case %s raised %r (%s)' % (kind, e, traceback.format_exc(limit=3).replace('\n', ' | ')[-400:]),
                       'tags': ['crashed']}
        case = {'input': {'probe': kind, 'seed': seed}, 'observed': out.get('observed'), 'pyfail': out.get('pyfail'),
                'oracle': out.get('oracle', 'true'), 'model': out.get('model', 'true'),
                'nontrivial': out.get('nontrivial', True),
                'sig': 'probe|%s|%s' % (kind, out.get('sig', seed)),
                'tags': ['probe', 'probe:' + kind] + out.get('tags', [])}
        return case

    @staticmethod
    def _first(*problems):
        for p in problems:
            if p:
                return p
        return None

    def _tabulate(self, rec, keyf):
        """-> list of (argument, result) with one entry per distinct argument; None if the function was not a function"""
        table, seen = [], {}
        for a, r in rec.calls:
            k = keyf(a)
            rk = repr(r) + type(r).__name__
            if k in seen:
                if seen[k] != rk:
                    return None
                continue
            seen[k] = rk
            table.append((a, r))
        return table

    @staticmethod
    def _rowkey(d):
        return tuple((k, tok_key(plain(d[k]))) for k in sorted(d))

    def _row_table(self, ref, rec, reskey=res_key):
        """-> (table, problem).  The function table handed to Coq: f on the source rows as the reference read them
        (dm[name][i] for every column) first, then the rows the implementation called f with.  A row of the
        implementation that reads like a source row but on which f gave another result means that f was not given the
        cells of that row (e.g. NumPy scalars instead of the Python numbers) -- a problem of the implementation; two
        results from the same side mean that the function is not a function (a problem of the harness)."""
        table, seen, problem = [], {}, None
        for side, calls in (('reference', ref.calls), ('implementation', rec.calls)):
            for a, r in calls:
                k, rk = self._rowkey(a), reskey(r)
                if k in seen:
                    if seen[k][0] != rk and problem is None:
                        if seen[k][1] == side:
                            return None, 'HARNESS: the recorded function gave two results for one row'
                        problem = ('f was not called with the cells of the source row: on the row %r f(**row) is %r, the '
                                   'call made by the implementation (cell types %r) gave %r' % (
                                       dict((n, seen[k][2][0][n]) for n in sorted(seen[k][2][0])), seen[k][2][1],
                                       dict((n, type(a[n]).__name__) for n in sorted(a)), r))
                    continue
                seen[k] = (rk, side, (a, r))
                table.append((a, r))
        return table, problem

    def _res_lit(self, outcome, lit):
        if outcome[0] == 'exn':
            return '(Raise %s)' % outcome[1]
        return '(Ok %s)' % lit(outcome[1])

    def _case_map_dm(self, sub, typed=False, given=None):
        from datamatrix import functional as fnc, DataMatrix
        dm, tags = given if given else self._zoo(sub, series_ok=True, extreme=typed)
        fam, fn = self._rowfun_typed(sub, dm) if typed else self._rowfun(sub, dm)
        before = self._snap(dm)
        lits = self._lits(dm) if 'series' not in tags else None       # (_lits is None for any table with a SeriesColumn)
        rec = Recorder(fn, True)
        ref = RefCalls(fn)
        explicit = sub.random() < 0.5
        if explicit:
            tags = tags + ['explicit-params']
        user_f = rec.as_row_function(list(dm._cols) if explicit else None)
        outcome = O.outcome(lambda: fnc.map_(user_f, dm))
        in_model, obs_o, obs_m = self._observe_tab(outcome)
        problem = None
        # the reference applies f to the cells as read from the table; an exception f raises there is the expected outcome
        try:
            want = ('ok', self._ref_map_dm(dm, ref))
        except Exception as e:      # noqa: BLE001
            want = ('exn', O.exn_name(e))
        if outcome[0] == 'ok':
            r = outcome[1]
            if not isinstance(r, DataMatrix):
                problem = 'map_(f, dm) returned a %s' % type(r).__name__
            elif want[0] == 'exn' and ref.raised:
                problem = 'map_(f, dm) [%s] on a %s table returned although f(**row) raises %s for source row %d' % (
                    fam, '+'.join(tags), want[1], ref.at)
            elif want[0] == 'exn':
                problem = 'map_(f, dm) returned although a cell write must raise %s' % want[1]
            else:
                got = self._view(r)
                if sorted(got) != sorted(want[1]):
                    problem = 'map_(f, dm) [%s] on a %s table: %r, expected the rows updated with f: %r' % (
                        fam, '+'.join(tags), sorted(got), sorted(want[1]))
                elif len(r) != len(dm) or not all(c._datamatrix is r for c in r._cols.values()):
                    problem = 'map_(f, dm): length / owners of the result'
            if isinstance(r, DataMatrix):
                problem = self._first(problem, self._shares(dm, r))
        elif want[0] == 'ok':
            problem = 'map_(f, dm) [%s] raised %s on a %s table' % (fam, outcome[1], '+'.join(tags))
        elif ref.raised and outcome[1] != want[1]:
            problem = 'map_(f, dm) [%s] raised %s on a %s table, f(**row) raises %s (source row %d)' % (
                fam, outcome[1], '+'.join(tags), want[1], ref.at)
        if self._snap(dm) != before:
            problem = self._first(problem, 'map_ modified its argument')
        if outcome[0] == 'ok' and isinstance(outcome[1], DataMatrix):
            problem = self._first(problem, self._poke(outcome[1], dm, before))
        table, tproblem = self._row_table(ref, rec)
        problem = self._first(problem, tproblem)
        res = {'pyfail': problem, 'tags': tags + ['f:' + fam] + (['f-raises'] if ref.raised else []),
               'nontrivial': len(dm) > 0,
               'sig': '%s|%s|%d|%s' % ('+'.join(tags), fam, len(dm), outcome[0]),
               'observed': {'outcome': outcome[0] if outcome[0] == 'ok' else outcome[1], 'problem': problem}}
        # Coq side: f is a total function there, so a case in which f raised is judged on the Python side only
        ok_model = lits is not None and in_model and table is not None and not ref.raised and \
            all(isinstance(u, dict) and all(type(k) is str and O.pyv(v) != 'POther' for k, v in u.items()) for _a, u in table)
        if ok_model:
            tbl = L.lst('(%s, %s)' % (self._row_lit(a), self._upd_lit(u)) for a, u in table)
            res['oracle'] = 'oracle_map_dm %s %s %s' % (tbl, lits[0], obs_o)
            res['model'] = 'model_map_dm %s %s %s' % (tbl, lits[1], obs_m)
        else:
            res['tags'] = res['tags'] + ['python-side-only']
        return res

    def _case_filter_dm(self, sub, typed=False, given=None):
        from datamatrix import functional as fnc, DataMatrix
        dm, tags = given if given else self._zoo(sub, series_ok=True, extreme=typed)
        fam, fn = self._rowpred_typed(sub, dm) if typed else self._rowpred(sub, dm, extra=bool(given))
        before = self._snap(dm)
        lits = self._lits(dm) if 'series' not in tags else None       # (_lits is None for any table with a SeriesColumn)
        rec = Recorder(fn, True)
        ref = RefCalls(fn)
        explicit = sub.random() < 0.4
        if explicit:
            tags = tags + ['explicit-params']
        user_f = rec.as_row_function(list(dm._cols) if explicit else None)
        outcome = O.outcome(lambda: fnc.filter_(user_f, dm))
        in_model, obs_o, obs_m = self._observe_tab(outcome)
        problem = None
        # the reference: f applied to the cells of every source row, as read from the table; if f raises there, that
        # exception is the expected outcome of filter_
        rows, want_exn = [], None
        try:
            for j in range(len(dm)):
                d = {nm: (c._seq[j] if hasattr(c, 'depth') else c[j]) for nm, c in dm._cols.items()}
                if truthy(ref(d)):
                    rows.append(j)
        except Exception as e:      # noqa: BLE001
            want_exn = O.exn_name(e)
        if want_exn is not None:
            if outcome[0] == 'ok':
                problem = 'filter_(f, dm) [%s] on a %s table returned although f(**row) raises %s for source row %d' % (
                    fam, '+'.join(tags), want_exn, ref.at)
            elif outcome[1] != want_exn:
                problem = 'filter_(f, dm) [%s] raised %s on a %s table, f(**row) raises %s (source row %d)' % (
                    fam, outcome[1], '+'.join(tags), want_exn, ref.at)
        elif outcome[0] == 'ok' and isinstance(outcome[1], DataMatrix):
            r = outcome[1]
            want = [(nm, type(c).__name__, [repr(self._cells(c)[j]) for j in rows]) for nm, c in dm._cols.items()]
            got = self._view(r)
            if sorted(got) != sorted(want) or len(r) != len(rows):
                problem = 'filter_(f, dm) [%s] on a %s table: %r, expected the rows %r: %r' % (
                    fam, '+'.join(tags), sorted(got), rows, sorted(want))
            elif [int(x) for x in r._rowid] != [int(dm._rowid[j]) for j in rows]:
                problem = 'filter_(f, dm): row ids %r, expected %r' % (list(r._rowid), [int(dm._rowid[j]) for j in rows])
            elif not all(c._datamatrix is r for c in r._cols.values()):
                problem = 'filter_(f, dm): a column of the result belongs to another table'
            problem = self._first(problem, self._shares(dm, r))
        elif outcome[0] == 'ok':
            problem = 'filter_(f, dm) returned a %s' % type(outcome[1]).__name__
        else:
            problem = 'filter_(f, dm) [%s] raised %s on a %s table' % (fam, outcome[1], '+'.join(tags))
        if self._snap(dm) != before:
            problem = self._first(problem, 'filter_ modified its argument')
        if outcome[0] == 'ok' and isinstance(outcome[1], DataMatrix):
            problem = self._first(problem, self._poke(outcome[1], dm, before))
        table, tproblem = self._row_table(ref, rec, truthy)
        problem = self._first(problem, tproblem)
        res = {'pyfail': problem, 'tags': tags + ['p:' + fam] + (['f-raises'] if ref.raised else []),
               'nontrivial': len(dm) > 0,
               'sig': '%s|%s|%d' % ('+'.join(tags), fam, len(dm)),
               'observed': {'outcome': outcome[0] if outcome[0] == 'ok' else outcome[1], 'problem': problem}}
        if lits is not None and in_model and table is not None and not ref.raised:
            tbl = L.lst('(%s, %s)' % (self._row_lit(a), L.boolean(truthy(b))) for a, b in table)
            res['oracle'] = 'oracle_filter_dm %s %s %s' % (tbl, lits[0], obs_o)
            res['model'] = 'model_filter_dm %s %s %s' % (tbl, lits[1], obs_m)
        else:
            res['tags'] = res['tags'] + ['python-side-only']
        return res

    def _pick_col(self, sub, dm, alias, kinds=None):
        """alias: None = any column, False = only columns known under one name, True = only aliased ones"""
        groups = {}
        for nm, c in dm._cols.items():
            groups.setdefault(id(c), []).append(nm)
        names = [nm for nm, c in dm._cols.items() if not hasattr(c, 'depth')
                 and (alias is None or (len(groups[id(c)]) > 1) == alias)
                 and (kinds is None or KIND[type(c).__name__] in kinds)]
        return sub.choice(names) if names else None

    @staticmethod
    def _np_cast(ct, w):
        """np.array([...], dtype) of a NumericColumn._map result cell"""
        import numpy as np
        return np.array([w], dtype=ct.dtype)[0].item()

    def _case_map_col(self, sub, typed=False, pending=None, given=None):
        """typed: a cell function that depends on the exact type / arithmetic of the cell, on a MixedColumn (the cells
        are handed over as they are); on a numeric column that is the pending finding F6"""
        from datamatrix import functional as fnc, MixedColumn
        dm, tags = given if given else self._zoo(sub, extreme=typed)
        name = self._pick_col(sub, dm, None, None if not typed else (['KFloat', 'KInt'] if pending else ['KMixed']))
        col = dm[name]
        fam, fn = self._cellmap_typed(sub) if typed else self._cellmap(sub)
        before = self._snap(dm)
        lits = self._lits(dm)
        col_lit = self._col_lit(name, col) if lits else None
        rec = Recorder(fn, False)
        ref = RefCalls(fn)
        ct = type(col)
        outcome = O.outcome(lambda: fnc.map_(rec.as_cell_function(), col))
        in_model, obs = self._observe_col(outcome, ct)
        problem = None
        # the reference applies f to the cells as read from the column (col[i]); an exception of f is the expected outcome
        try:
            want = [ref(v) if ct is MixedColumn else self._np_cast(ct, ref(v)) for v in self._cells(col)]
            want = ('ok', [repr(w) for w in want])
        except Exception as e:      # noqa: BLE001
            want = ('exn', O.exn_name(e))
        if outcome[0] == 'exn' and want[0] == 'exn' and ref.raised and outcome[1] != want[1]:
            problem = 'map_(f, col %s) [%s] raised %s on a %s table, f(cell) raises %s (cell %d)' % (
                name, fam, outcome[1], '+'.join(tags), want[1], ref.at)
        if outcome[0] == 'ok':
            r = outcome[1]
            if want[0] == 'exn' and ref.raised:
                problem = 'map_(f, col %s) [%s] on a %s table returned although f(cell) raises %s for cell %d' % (
                    name, fam, '+'.join(tags), want[1], ref.at)
            elif want[0] == 'exn':
                problem = 'map_(f, col) returned although the conversion must raise %s' % want[1]
            elif type(r) is not ct or [repr(v) for v in self._cells(r)] != want[1]:
                problem = 'map_(f, col %s) [%s] on a %s table: %s %r, expected %s %r' % (
                    name, fam, '+'.join(tags), type(r).__name__,
                    [repr(v) for v in self._cells(r)] if hasattr(r, '_seq') else r, ct.__name__, want[1])
            elif r._seq is col._seq or any(c is r for c in dm._cols.values()):
                problem = 'map_(f, col) returned (storage of) a column of the table'
            elif [repr(v) for v in self._cells(col @ fn)] != want[1]:
                problem = 'col @ f differs from map_(f, col)'
        elif want[0] == 'ok':
            problem = 'map_(f, col %s) [%s] raised %s' % (name, fam, outcome[1])
        if self._snap(dm) != before:
            problem = self._first(problem, 'map_ modified the table of its argument')
        if outcome[0] == 'ok' and problem is None and len(outcome[1]):
            try:
                outcome[1][0] = 5
            except Exception:      # noqa: BLE001
                pass
            if self._snap(dm) != before:
                problem = 'a write to the mapped column changed the source table'
        res = {'pyfail': problem, 'tags': tags + ['g:' + fam, 'col:' + ct.__name__] + (['f-raises'] if ref.raised else [])
               + (['pending:' + pending] if pending else []), 'nontrivial': len(dm) > 0,
               'sig': '%s|%s|%s|%d|%s' % ('+'.join(tags), fam, ct.__name__, len(dm), pending),
               'observed': {'outcome': outcome[0] if outcome[0] == 'ok' else outcome[1], 'problem': problem}}
        table = self._tabulate(rec, lambda a: tok_key(plain(a)))
        if table is None:
            res['pyfail'] = self._first(problem, 'HARNESS: the recorded function gave two results for one cell')
        if lits is not None and in_model and table is not None and not ref.raised and not pending:
            tbl = L.lst('(%s, %s)' % (O.val(plain(a)), O.pyv(r)) for a, r in table)
            res['oracle'] = 'oracle_map_col %s (%s) %s' % (tbl, col_lit, obs)
            res['model'] = 'model_map_col %s %s (Some %s) (%s) %s' % (tbl, lits[1], L.string(name), col_lit, obs)
        else:
            res['tags'] = res['tags'] + ['python-side-only']
        return res

    def _case_filter_col(self, sub, pending=None, typed=False, given=None):
        import functools
        from datamatrix import functional as fnc
        dm, tags = given if given else self._zoo(sub, extreme=typed)
        if pending == 'F1' and not any(t.startswith('alias') for t in tags):
            dm.b = dm.a
            tags = tags + ['alias-after']
        name = self._pick_col(sub, dm, True if pending == 'F1' else False,
                              None if not typed else (['KFloat', 'KInt'] if pending == 'F6' else ['KMixed']))
        if name is None:
            return {'tags': tags + ['no-such-column'], 'nontrivial': False}
        col = dm[name]
        detached = False
        if pending == 'F4':
            col = col * 1 if KIND[type(col).__name__] != 'KMixed' else col + ''
            detached = True
        fam, fn = self._cellpred_typed(sub) if typed else self._cellpred(sub)
        before = self._snap(dm)
        lits = self._lits(dm)
        col_lit = self._col_lit(name, col) if lits else None
        rec = Recorder(fn, False)
        ref = RefCalls(fn)
        g = rec.as_cell_function()
        if pending == 'F5':
            g = functools.partial(lambda k, x, _g=g: _g(x), 0)
        ct = type(col)
        outcome = O.outcome(lambda: fnc.filter_(g, col))
        in_model, obs = self._observe_col(outcome, ct)
        problem = None
        # the reference applies f to the cells as read from the column (col[i]); an exception of f is the expected outcome
        want_exn = None
        try:
            want = [repr(v) for v in self._cells(col) if truthy(ref(v))]
        except Exception as e:      # noqa: BLE001
            want, want_exn = None, O.exn_name(e)
        if want_exn is not None:
            if outcome[0] == 'ok':
                problem = 'filter_(f, col %s) [%s] on a %s table returned although f(cell) raises %s for cell %d' % (
                    name, fam, '+'.join(tags), want_exn, ref.at)
            elif outcome[1] != want_exn:
                problem = 'filter_(f, col %s) [%s] raised %s on a %s table, f(cell) raises %s (cell %d)' % (
                    name, fam, outcome[1], '+'.join(tags), want_exn, ref.at)
        elif outcome[0] == 'ok':
            r = outcome[1]
            if type(r) is not ct:
                problem = 'filter_(f, col %s) on a %s table returned a %s, not a %s' % (
                    name, '+'.join(tags), type(r).__name__, ct.__name__)
            else:
                got = [repr(v) for v in self._cells(r)]
                if got != want:
                    problem = 'filter_(f, col %s) [%s] on a %s table: %r, expected %r' % (name, fam, '+'.join(tags), got, want)
                elif r is col or r._seq is col._seq:
                    problem = 'filter_(f, col) returned (storage of) its argument'
        else:
            problem = 'filter_(f, col %s) [%s] raised %s on a %s table' % (name, fam, outcome[1], '+'.join(tags))
        if self._snap(dm) != before:
            problem = self._first(problem, 'filter_ modified the table of its argument')
        if outcome[0] == 'ok' and problem is None and len(outcome[1]):
            try:
                outcome[1][0] = 5
            except Exception:      # noqa: BLE001
                pass
            if self._snap(dm) != before:
                problem = 'a write to the filtered column changed the source table'
        res = {'pyfail': problem, 'tags': tags + ['q:' + fam, 'col:' + ct.__name__] + (['pending:' + pending] if pending else [])
               + (['f-raises'] if ref.raised else []),
               'nontrivial': len(dm) > 0, 'sig': '%s|%s|%s|%d|%s' % ('+'.join(tags), fam, ct.__name__, len(dm), pending),
               'observed': {'outcome': outcome[0] if outcome[0] == 'ok' else outcome[1], 'problem': problem}}
        table = self._tabulate(rec, lambda a: tok_key(plain(a)))
        if table is None:
            res['pyfail'] = self._first(problem, 'HARNESS: the recorded predicate gave two results for one cell')
        if lits is not None and in_model and table is not None and pending in (None, 'F4') and not ref.raised:
            tbl = L.lst('(%s, %s)' % (O.val(plain(a)), L.boolean(truthy(b))) for a, b in table)
            res['oracle'] = 'oracle_filter_col %s (%s) %s' % (tbl, col_lit, obs)
            res['model'] = 'model_filter_col true 1 %s %s %s (%s) %s' % (
                tbl, lits[1], 'None' if detached else '(Some %s)' % L.string(name), col_lit, obs)
        else:
            res['tags'] = res['tags'] + ['python-side-only']
        return res

    def _case_setcol(self, sub, pending=None, given=None):
        import numpy as np
        from datamatrix import functional as fnc, DataMatrix, MixedColumn, FloatColumn, IntColumn
        dm, tags = given if given else self._zoo(sub, series_ok=True)
        if pending == 'F2' and not any(t == 'alias-after' for t in tags) and 'b' not in dm:
            dm.b = dm.a
            tags = tags + ['alias-after']
        n = len(dm)
        groups = {}
        for nm, c in dm._cols.items():
            groups.setdefault(id(c), []).append(nm)
        aliased = sorted(nm for g in groups.values() if len(g) > 1 for nm in g)
        plain_names = [nm for nm, c in dm._cols.items() if not hasattr(c, 'depth')]
        single = [nm for nm in plain_names if nm not in aliased]
        which = sub.choice(['scalar', 'scalar', 'list', 'list', 'badlen', 'range', 'tuple', 'nparray', 'column', 'column',
                            'coltype', 'foreign', 'detached', 'badname'])
        tgt = sub.choice(plain_names) if sub.random() < 0.5 else sub.choice(['z', 'B', 'k9'])
        by_value = which not in ('column', 'coltype', 'foreign', 'detached')
        if pending in ('F2', 'F3'):
            which, by_value = sub.choice(['scalar', 'list']), True
        if pending == 'F2':
            if not aliased:
                return {'tags': tags + ['pending:F2', 'no-alias'], 'nontrivial': False}
            tgt = sub.choice(aliased)
        elif pending == 'F3':
            if dm.default_col_type is MixedColumn:
                dm.default_col_type = sub.choice([IntColumn, FloatColumn])
                tags = tags + ['dflt-' + dm.default_col_type.__name__]
            tgt = 'z'
        else:
            if tgt in aliased and by_value:
                tgt = 'z'                                # (F2) stays out of the default stream
            if dm.default_col_type is not MixedColumn and tgt not in dm and by_value:
                tgt = sub.choice(single)                 # (F3) stays out of the default stream
        tk = KIND[type(dm._cols[tgt]).__name__] if tgt in dm else KIND[dm.default_col_type.__name__]
        name_arg, owner_ok, cv, src = tgt, True, None, None
        if which == 'scalar':
            value = self._value_for(sub, tk)
            cv = '(CVScalar %s)' % O.pyv(value) if (value is None or isinstance(value, (str, numbers.Number))) else None
        elif which in ('list', 'tuple', 'nparray'):
            value = [self._value_for(sub, tk, allow_bad=(which == 'list')) for _ in range(n)]
            if which == 'tuple':
                value = tuple(value)
            if which == 'nparray':
                value = np.array([sub.choice([1, 2.5, -3]) for _ in range(n)])
            cv = '(CVSeq %s)' % L.lst(O.pyv(v) for v in value)
        elif which == 'badlen':
            value = [1] * ((n + sub.choice([-1, 1, 2])) if n else 1)
            cv = '(CVSeq %s)' % L.lst(O.pyv(v) for v in value)
        elif which == 'range':
            value = range(100, 100 + n)
            cv = '(CVSeq %s)' % L.lst(O.pyv(v) for v in value)
        elif which == 'column':
            src = sub.choice(plain_names)
            value = dm[src]
        elif which == 'coltype':
            value = sub.choice([MixedColumn, FloatColumn, IntColumn])
            cv = '(CVType %s)' % KIND[value.__name__]
        elif which == 'foreign':
            other = DataMatrix(length=n)
            other.q = list(range(n))
            value, owner_ok = other.q, False
        elif which == 'detached':
            src = sub.choice([nm for nm in plain_names if KIND[type(dm._cols[nm]).__name__] != 'KMixed'] or ['f'])
            value = dm[src] * 1
        else:
            which, value, name_arg = 'badname', 5, sub.choice([3, None, ('a',)])
            cv = '(CVScalar (PInt 5))'
        is_col = which in ('column', 'foreign', 'detached')
        if is_col:
            vcells = self._cells(value)
            vk = KIND[type(value).__name__]
            if all(cell_ok(v, vk) for v in vcells):
                cv = '(CVCol %s %s)' % (vk, L.lst(O.val(v) for v in vcells))
            value_before = ([repr(v) for v in vcells], value._datamatrix, value.name if which != 'detached' else None)
        before = self._snap(dm)
        lits = self._lits(dm) if 'series' not in tags else None       # (_lits is None for any table with a SeriesColumn)
        outcome = O.outcome(lambda: fnc.setcol(dm, name_arg, value))
        in_model, obs_o, obs_m = self._observe_tab(outcome)
        problem = None
        # the reference: an independent copy (by value; for the pending findings: one that keeps shared columns), then
        # the plain assignment dm[name] = value
        ref = self._byvalue_copy(dm, keep_alias=bool(pending), keep_flags=True)
        if which == 'badname':
            want = ('exn', 'TypeError')
        elif which == 'foreign':
            want = ('exn', 'PlainException')
        else:
            def assign():
                if which == 'column':
                    ref[tgt] = ref[src]
                elif which == 'detached':
                    ref[tgt] = self._byvalue_copy(dm, False, False)[src] * 1
                else:
                    ref[tgt] = value
                return ref
            want = O.outcome(assign)
        if outcome[0] == 'ok' and isinstance(outcome[1], DataMatrix):
            r = outcome[1]
            if want[0] == 'exn':
                problem = 'setcol(dm, %r, <%s>) returned although dm[name] = value raises %s' % (name_arg, which, want[1])
            else:
                got, exp = sorted(self._view(r)), sorted(self._view(want[1]))
                if got != exp or len(r) != n:
                    problem = 'setcol(dm, %r, <%s>) on a %s table: %r, but dm[name] = value gives %r' % (
                        tgt, which, '+'.join(tags), got, exp)
                elif not all(c._datamatrix is r for c in r._cols.values()):
                    problem = 'setcol: a column of the result belongs to another table'
            problem = self._first(problem, self._shares(dm, r))
        elif outcome[0] == 'ok':
            problem = 'setcol returned a %s' % type(outcome[1]).__name__
        elif want[0] == 'ok':
            problem = 'setcol(dm, %r, <%s>) raised %s on a %s table' % (tgt, which, outcome[1], '+'.join(tags))
        elif which in ('badname', 'foreign') and outcome[1] != want[1]:
            problem = 'setcol(dm, %r, <%s>) raised %s, expected %s' % (name_arg, which, outcome[1], want[1])
        if self._snap(dm) != before:
            problem = self._first(problem, 'setcol modified its argument')
        if is_col:
            now = ([repr(v) for v in self._cells(value)], value._datamatrix, value.name if which != 'detached' else None)
            if now[0] != value_before[0] or now[1] is not value_before[1] or now[2] != value_before[2]:
                problem = self._first(problem, 'the column passed to setcol changed (cells / owner / name): %r -> %r' % (
                    value_before[2], now[2]))
        if outcome[0] == 'ok' and isinstance(outcome[1], DataMatrix):
            problem = self._first(problem, self._poke(outcome[1], dm, before))
            if is_col and problem is None and n:
                # ... and a write to the passed column must not reach the result
                view = self._view(outcome[1])
                try:
                    value[0] = 55
                except Exception:      # noqa: BLE001
                    pass
                if self._view(outcome[1]) != view:
                    problem = 'a write to the column passed to setcol changed the result'
        tgt_new = all(tgt != c[0] for c in before['cols'])
        res = {'pyfail': problem, 'tags': tags + ['v:' + which, 'tgt:' + ('new' if tgt_new else 'old')]
               + (['pending:' + pending] if pending else []),
               'nontrivial': True, 'sig': '%s|%s|%s|%d|%s|%s' % ('+'.join(tags), which, tgt, n, outcome[0], pending),
               'observed': {'outcome': outcome[0] if outcome[0] == 'ok' else outcome[1], 'problem': problem}}
        if lits is not None and in_model and cv is not None:
            nm_lit = L.string(tgt)
            if which not in ('badname', 'foreign'):
                res['oracle'] = 'oracle_setcol %s %s %s %s' % (lits[0], nm_lit, cv, obs_o)
            if not pending:
                res['model'] = 'model_setcol %s %s %s %s %s %s' % (
                    L.boolean(which != 'badname'), L.boolean(owner_ok), lits[1], nm_lit, cv, obs_m)
        else:
            res['tags'] = res['tags'] + ['python-side-only']
        return res

    # ---- the SAME table object used again and again, changed in place in between ---------------------------------
    ADDED = ['c1', 'c2', 'c3', 'sx']

    def _fill_rows(self, sub, dm, lo):
        """write cells into the rows lo.. (the ones a resize added)"""
        n = len(dm)
        for nm, c in list(dm._cols.items()):
            if sub.random() < 0.25:
                continue                    # this column keeps its blank cells
            for j in range(lo, n):
                if hasattr(c, 'depth'):
                    c[j] = [sub.randint(0, 5) if q == 0 else sub.choice([0.5, 1.5, float('nan')]) for q in range(c.depth)]
                elif nm in ('u', 'v'):
                    c[j] = 100 + j
                else:
                    k = KIND[type(c).__name__]
                    c[j] = {'KMixed': lambda: sub.choice(self.MIX), 'KFloat': lambda: sub.choice(self.FLT),
                            'KInt': lambda: sub.randint(-2, 3)}[k]()

    def _inplace(self, sub, dm):
        """one in-place change of the table object -> label.  The columns u, a, f, i (and s) the user functions read
        are never removed or renamed; added columns are c1, c2, c3, sx."""
        from datamatrix import MixedColumn, FloatColumn, IntColumn, SeriesColumn, operations as ops
        m = len(dm)
        what = sub.choice(['grow', 'grow', 'grow-fill', 'grow-fill', 'grow-fill', 'shrink-grow', 'shrink-grow', 'shrink',
                           'delrow', 'delrow', 'cells', 'cells', 'slicewrite', 'newcol', 'newcol', 'delcol', 'assign',
                           'depth', 'rename', 'side', 'nothing'])
        if what in ('grow', 'grow-fill'):
            dm.length = m + sub.choice([1, 1, 2, 3])
            if what == 'grow-fill':
                self._fill_rows(sub, dm, m)
        elif what == 'shrink-grow':
            keep = max(0, m - sub.choice([1, 1, 2, m]))
            dm.length = keep
            if sub.random() < 0.3:
                _ = dm.i >= 0                      # a selection between the two resizes
            dm.length = keep + sub.choice([1, 2, 3])
            if sub.random() < 0.6:
                self._fill_rows(sub, dm, keep)
        elif what == 'shrink':
            dm.length = max(0, m - sub.choice([1, 2]))
        elif what == 'delrow':
            if not m:
                return 'nothing'
            if sub.random() < 0.7:
                del dm[sub.randrange(m)]
            else:
                del dm[sub.randrange(m):]          # a slice of rows
        elif what == 'cells':
            if not m:
                return 'nothing'
            for _ in range(sub.randint(1, 4)):
                nm = sub.choice(list(dm._cols))
                c, j = dm._cols[nm], sub.randrange(m)
                if hasattr(c, 'depth'):
                    if c.depth and sub.random() < 0.5:
                        c[j, sub.randrange(c.depth)] = sub.choice([7, 2.5, float('nan')])
                    else:
                        c[j] = [sub.randint(0, 5)] * c.depth
                elif nm in ('u', 'v'):
                    c[j] = 200 + sub.randrange(50)
                else:
                    c[j] = self._value_for(sub, KIND[type(c).__name__], allow_bad=False)
        elif what == 'slicewrite':
            nm = sub.choice(['a', 'f', 'i'])
            dm[nm][sub.choice([slice(1, None), slice(None, 2), slice(None, None, 2), slice(None)])] = sub.choice([0, 1, 2])
        elif what == 'newcol':
            free = [nm for nm in self.ADDED if nm not in dm._cols]
            if not free:
                return 'nothing'
            nm = sub.choice(free)
            if nm == 'sx':
                dm[nm] = SeriesColumn(depth=sub.choice([1, 2, 3]))
                for j in range(m):
                    dm[nm][j] = [j] * dm[nm].depth
                what = 'newcol-series'
            else:
                k = sub.choice(['type', 'type', 'list', 'scalar', 'copy'])
                if k == 'type':
                    dm[nm] = sub.choice([MixedColumn, FloatColumn, IntColumn])
                elif k == 'list':
                    dm[nm] = [sub.choice([1, 2.5, 'x', None]) for _ in range(m)]
                elif k == 'scalar':
                    dm[nm] = sub.choice([0, 'k', 1.5])
                else:
                    dm[nm] = dm[sub.choice(['f', 'i', 'a'])] * 1 if sub.random() < 0.5 else dm[sub.choice(['f', 'i'])] + 1
        elif what == 'delcol':
            have = [nm for nm in self.ADDED if nm in dm._cols]
            if not have:
                return 'nothing'
            nm = sub.choice(have)
            if sub.random() < 0.5:
                del dm[nm]
            else:
                del dm[dm._cols[nm]]
        elif what == 'assign':
            nm = sub.choice(['i', 'f', 'a'])
            k = KIND[type(dm._cols[nm]).__name__]
            dm[nm] = [self._value_for(sub, k, allow_bad=False) for _ in range(m)]
        elif what == 'depth':
            ser = [nm for nm, c in dm._cols.items() if hasattr(c, 'depth')]
            if not ser:
                return 'nothing'
            dm._cols[sub.choice(ser)].depth = sub.choice([1, 2, 3, 4])
        elif what == 'rename':
            have = [nm for nm in self.ADDED if nm in dm._cols]
            free = [nm for nm in self.ADDED[:3] if nm not in dm._cols]
            if not have or not free or have[0] == 'sx':
                return 'nothing'
            dm.rename(have[0], free[0])
        elif what == 'side':
            k = sub.choice(['select', 'sort', 'shuffle', 'copy', 'lookup'])
            if k == 'select':
                _ = dm.i >= 1
            elif k == 'sort':
                _ = ops.sort(dm, by=dm.u)
            elif k == 'shuffle':
                _ = ops.shuffle(dm)
            elif k == 'copy':
                _ = dm[:]
            elif m:
                _ = dm.a[dm]
            what = 'side-' + k
        return what

    def _case_repeat(self, sub):
        """map_ / filter_ / setcol applied to ONE table object 2-5 times; between two applications the object is changed
        in place (rows added / removed / added after removal, rows deleted, cells written, columns added / deleted /
        renamed / re-assigned, series depth changed, derivations thrown away).  Every application is judged like a
        single case (by-value reference, audits, Coq oracle and model on the table as it is at that moment): the result
        must be a function of the table's present value, not of what was done with the object before."""
        dm, tags = self._zoo(sub, series_ok=True, series_p=0.65)
        tags = list(tags)
        trail, problem = [], None
        o_parts, m_parts, outcomes = [], [], []
        steps = sub.choice([2, 3, 3, 4, 4, 5])
        all_tags = set(tags)
        python_only = False
        for step in range(steps):
            kind = sub.choice(['filter_dm'] * 5 + ['map_dm'] * 2 + ['setcol'] * 2 + ['filter_col', 'map_col'])
            here = list(tags) + (['series'] if any(hasattr(c, 'depth') for c in dm._cols.values()) and 'series' not in tags
                                 else [])
            try:
                res = getattr(self, '_case_' + kind)(sub, given=(dm, here))
            except Exception as e:      # noqa: BLE001
                import traceback
                res = {'pyfail': 'HARNESS: step raised %r (%s)' % (e, traceback.format_exc(limit=3).replace('\n', ' | ')[-300:])}
            trail.append(kind)
            outcomes.append((res.get('observed') or {}).get('outcome'))
            if res.get('pyfail') and problem is None:
                problem = 'application %d (%s) on the same table object after [%s]: %s' % (
                    step + 1, kind, ', '.join(trail[:-1]), res['pyfail'])
            if 'oracle' in res:
                o_parts.append('(%s)' % res['oracle'])
            if 'model' in res:
                m_parts.append('(%s)' % res['model'])
            if 'python-side-only' in res.get('tags', []):
                python_only = True
            all_tags.update(t for t in res.get('tags', []) if t.startswith(('p:', 'f:', 'v:', 'g:', 'q:')))
            if step + 1 < steps:
                for _ in range(sub.choice([1, 1, 1, 2])):
                    try:
                        ch = self._inplace(sub, dm)
                    except Exception as e:      # noqa: BLE001
                        # the in-place operations belong to other properties; here they only prepare the state
                        ch = 'change-raised-' + O.exn_name(e)
                    trail.append('<' + ch + '>')
                    all_tags.add('chg:' + ch)
        has_series = any(hasattr(c, 'depth') for c in dm._cols.values())
        return {'pyfail': problem,
                'tags': sorted(all_tags) + ['steps%d' % steps] + (['series-now'] if has_series else [])
                + (['python-side-only'] if python_only and not o_parts else []),
                'nontrivial': len(dm) > 0 or any(outcomes),
                'sig': '%s|%s|%d' % ('+'.join(tags), '>'.join(trail), len(dm)),
                'observed': {'trail': trail, 'outcomes': outcomes, 'problem': problem},
                'oracle': ' && '.join(o_parts) if o_parts else 'true',
                'model': ' && '.join(m_parts) if m_parts else 'true'}

    def _case_pending_F1(self, sub):
        return self._case_filter_col(sub, 'F1')

    def _case_pending_F2(self, sub):
        return self._case_setcol(sub, 'F2')

    def _case_pending_F3(self, sub):
        return self._case_setcol(sub, 'F3')

    def _case_pending_F4(self, sub):
        return self._case_filter_col(sub, 'F4')

    def _case_pending_F5(self, sub):
        return self._case_filter_col(sub, 'F5')

    def _case_pending_F6(self, sub):
        if sub.random() < 0.5:
            return self._case_filter_col(sub, 'F6', typed=True)
        return self._case_map_col(sub, typed=True, pending='F6')

    # functions that depend on the exact Python type / arithmetic of the cells they receive, on tables whose numeric
    # columns hold the values on which Python numbers and NumPy scalars behave differently
    def _case_typed_map_dm(self, sub):
        return self._case_map_dm(sub, typed=True)

    def _case_typed_filter_dm(self, sub):
        return self._case_filter_dm(sub, typed=True)

    def _case_typed_map_col(self, sub):
        return self._case_map_col(sub, typed=True)

    def _case_typed_filter_col(self, sub):
        return self._case_filter_col(sub, typed=True)

    def _case_guards(self, sub):
        """non-callable function / an object that is neither a column nor a DataMatrix: TypeError, nothing touched"""
        from datamatrix import functional as fnc
        dm, tags = self._zoo(sub)
        before = self._snap(dm)
        problem = None
        o_parts = []
        for what, call, lit in (
                ('map_(3, dm)', lambda: fnc.map_(3, dm), 'model_guard_map false'),
                ('map_(3, col)', lambda: fnc.map_(3, dm.a), 'model_guard_map false'),
                ('map_(f, 3)', lambda: fnc.map_(lambda x: x, 3), 'model_guard_map true'),
                ('filter_(None, dm)', lambda: fnc.filter_(None, dm), 'model_guard_filter false'),
                ('filter_(f, [1])', lambda: fnc.filter_(lambda x: x, [1, 2]), 'model_guard_filter true'),
                ('filter_("f", col)', lambda: fnc.filter_('f', dm.a), 'model_guard_filter false')):
            out = O.outcome(call)
            if out[0] == 'ok':
                problem = self._first(problem, '%s returned %r' % (what, out[1]))
            else:
                if out[1] != 'TypeError':
                    problem = self._first(problem, '%s raised %s, expected TypeError' % (what, out[1]))
                o_parts.append('%s %s' % (lit, out[1]))
        if self._snap(dm) != before:
            problem = self._first(problem, 'a refused call modified its argument')
        return {'pyfail': problem, 'tags': ['guards'], 'model': '(' + ' && '.join(o_parts) + ')' if o_parts else 'true',
                'sig': 'guards'}

    def generate(self, rng, tier):
        cases = []
        per = 64 if tier == 'quick' else 700
        for kind in ('filter_col', 'filter_dm', 'map_col', 'map_dm', 'setcol'):
            for _ in range(per):
                cases.append(self.probe(kind, rng.randrange(1 << 30)))
        # the same table object used repeatedly, changed in place in between
        for _ in range(per + per // 2):
            cases.append(self.probe('repeat', rng.randrange(1 << 30)))
        for kind, k in (('typed_map_dm', per // 2), ('typed_filter_dm', per // 2), ('typed_map_col', per // 4),
                        ('typed_filter_col', per // 4)):
            for _ in range(k):
                cases.append(self.probe(kind, rng.randrange(1 << 30)))
        if INCLUDE_PENDING_FINDINGS:
            for kind in ('pending_F1', 'pending_F2', 'pending_F3', 'pending_F4', 'pending_F5', 'pending_F6'):
                for _ in range(per // 4):
                    cases.append(self.probe(kind, rng.randrange(1 << 30)))
        # guards of map_ / filter_ (Python-side outcome, model in Coq)
        cases.append(self.probe('guards', 0))

        # ---------------- curry: all compositions, with every prefix
        for n in range(1, 7):
            for comp in compositions(n):
                vals = [rng.randint(-50, 50) for _ in range(n)]
                path, i = [], 0
                for k in comp:
                    path.append(vals[i:i + k])
                    i += k
                paths = [path[:j] for j in range(1, len(path) + 1)]
                cases.append(self.rerun({'n': n, 'paths': paths, 'tags': ['composition']}))
        # the same for every other shape of the wrapped function (keyword-only settings, *rest, **options, defaults,
        # positional-only, annotations, lambda, staticmethod, functools.partial objects): n is the number of positional
        # parameters that are still open; quick: all compositions for arities 1..3 and one of each arity 4..6
        shapes = SHAPES[1:] + (PENDING_SHAPES if INCLUDE_PENDING_FINDINGS else [])
        for shape in shapes:
            for n in range(1, 7):
                comps = list(compositions(n))
                if tier == 'quick' and n > 3:
                    comps = [rng.choice(comps)]
                for comp in comps:
                    vals = [rng.randint(-50, 50) for _ in range(n)]
                    path, i = [], 0
                    for k in comp:
                        path.append(vals[i:i + k])
                        i += k
                    paths = [path[:j] for j in range(1, len(path) + 1)]
                    cases.append(self.rerun({'n': n, 'paths': paths, 'shape': shape, 'tags': ['composition-shaped']}))

        def shaped(inp):
            if rng.random() < 0.35:
                inp['shape'] = rng.choice(SHAPES[1:])
            return inp

        # prefix reuse trees (plain integers; chains advanced in a random interleaving)
        reps = 150 if tier == 'quick' else 3000
        for _ in range(reps):
            inp = self._reuse_tree(rng, lambda: rng.randint(-9, 9), False)
            if inp:
                cases.append(self.rerun(shaped(inp)))
        # the same with arguments that are equal but distinguishable
        npool = len(rich_pool())
        for _ in range(reps):
            inp = self._reuse_tree(rng, None, True, npool)
            if inp:
                cases.append(self.rerun(shaped(inp)))
        # outside the quantifier: only the model is compared
        for _ in range(60 if tier == 'quick' else 600):
            n = rng.randint(1, 5)
            path = []
            for _k in range(rng.randint(1, 4)):
                path.append([rng.randint(-9, 9) for _ in range(rng.choice([0, 0, 1, 2, 3, n, n + 1]))])
            cases.append(self.rerun(shaped({'n': n, 'paths': [path], 'tags': ['malformed']})))
        for _ in range(10 if tier == 'quick' else 60):
            n = rng.randint(1, 4)
            k = rng.randint(0, n - 1)
            cases.append(self.rerun({'n': n, 'paths': [[[rng.randint(-9, 9) for _ in range(k)]] if k else [[]]],
                                     'kw': {'a%d' % (n - 1): 3}, 'tags': ['keywords']}))
        # a keyword-only setting of the wrapped function cannot be given to the curried one either (documented)
        for _ in range(6 if tier == 'quick' else 40):
            n = rng.randint(1, 4)
            k = rng.randint(0, n)
            shape, kw = rng.choice([('kwonly', {'unit': 'cm'}), ('kwargs', {'anything': 1}), ('kwonly2', {'scale': 2})])
            cases.append(self.rerun({'n': n, 'paths': [[[rng.randint(-9, 9) for _ in range(k)]] if k else [[]]],
                                     'kw': kw, 'shape': shape, 'tags': ['keywords']}))
        return cases

    # groups of pool indices whose members compare equal (or are indistinguishable by ==/hash) but are different objects
    CONFUSABLE = [[0, 1, 2, 3], [4, 5, 6, 7], [8, 9], [10, 11], [14, 15], [16, 17, 18], [20, 21, 22], [23, 24],
                  [25, 26], [27, 28], [32, 33]]

    def _reuse_tree(self, rng, draw, rich, npool=0):
        n = rng.randint(2, 6)
        comp = rng.choice(list(compositions(n)))
        if len(comp) < 2:
            return None

        def arg():
            if not rich:
                return draw()
            if rng.random() < 0.7:
                return rng.choice(rng.choice(self.CONFUSABLE))
            return rng.randrange(npool)

        def twin(a):
            """an argument that compares equal to a but is another object, if there is one"""
            for g in self.CONFUSABLE:
                if a in g and len(g) > 1:
                    return rng.choice([x for x in g if x != a])
            return a

        cut = rng.randint(1, len(comp) - 1)
        vals = [arg() for _ in range(n)]
        pre, i = [], 0
        for k in comp[:cut]:
            pre.append(vals[i:i + k])
            i += k
        rest = n - i
        paths = []
        for _c in range(rng.randint(2, 5)):
            comp2 = rng.choice(list(compositions(rest)))
            cont = [[arg() for _ in range(k)] for k in comp2]
            p = pre
            if rich and rng.random() < 0.6:
                # a prefix that is ==-equal to the shared one, chunk by chunk, but made of other objects
                p = [[twin(a) if rng.random() < 0.7 else a for a in ch] for ch in pre]
            paths.append(p + cont)
            if rng.random() < 0.3 and len(cont) > 1:
                paths.append(p + cont[:-1])
        rng.shuffle(paths)
        sched = [i for i, p in enumerate(paths) for _ in p]
        if rng.random() < 0.6:
            rng.shuffle(sched)
        inp = {'n': n, 'paths': paths, 'sched': sched, 'tags': ['reuse-rich' if rich else 'reuse']}
        if rich:
            inp['rich'] = True
        return inp

    def shrink_candidates(self, inp):
        if 'probe' in inp:
            return
        paths = inp['paths']
        for i in range(len(paths)):
            if len(paths) > 1:
                c = dict(inp)
                c['paths'] = paths[:i] + paths[i + 1:]
                c.pop('sched', None)
                yield c

    def key(self, case):
        if 'probe' in case['input']:
            return 'probe %s' % case['input']['probe']
        shape = case['input'].get('shape', 'plain')
        return 'curry n=%d %s%spaths=%s' % (case['input']['n'], 'rich ' if case['input'].get('rich') else '',
                                            '' if shape == 'plain' else 'shape=%s ' % shape,
                                            json_compact(case['input']['paths']))


def json_compact(x):
    import json
    return json.dumps(x, separators=(',', ':'))


PROP = C19()
