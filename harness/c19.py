"""C19 -- curry, map_, filter_, setcol (curry part: Props/C19.v)."""
import itertools
import coqlit as L


def make_f(n):
    ns = {}
    params = ', '.join('a%d' % i for i in range(n))
    exec('def f%d(%s):\n    "doc of f%d"\n    return (%s)\n' % (n, params, n, params + (',' if n else '')), ns)
    return ns['f%d' % n]


def compositions(n):
    for bits in itertools.product([0, 1], repeat=n - 1):
        parts, cur = [], 1
        for b in bits:
            if b:
                parts.append(cur)
                cur = 1
            else:
                cur += 1
        parts.append(cur)
        yield parts


def obs_lit(o):
    if o == 'fn':
        return 'OFn'
    if o == 'err':
        return 'OErr'
    return '(OVal %s)' % L.zs(o)


class C19:
    id = 'C19'
    props_file = 'theories/Props/C19.v'
    kernel_files = ['KCurry.v']
    oracle_vos = ['theories/Run/SC19.vo']
    model_vos = ['theories/Run/RC19.vo']
    oracle_imports = ['From DM Require Import Run.SC19.', 'Open Scope Z_scope.']
    model_imports = ['From DM Require Import Run.SC19 Run.RC19.', 'Open Scope Z_scope.']
    exhaustive = False
    rule = ('curry: every composition of n arguments for arities 1..6 (all 63, exhaustive) with each proper prefix '
            'observed, plus prefix-reuse trees (one prefix object continued in 2-4 different ways, in shuffled order) '
            'and out-of-quantifier calls (empty chunks, too many arguments, calling a returned value) that only the '
            'L1 model speaks about; a case is non-trivial when it contains at least one call that runs f; distinct by '
            '(arity, set of paths)')
    trusted_base = [
        'Coq 8.16.1 kernel (coqc; vm_compute for evaluating cases; no native_compute)',
        'translator /verif/translate/kernels.py:gen_curry (ast -> Gen/KCurry.v) incl. its pinned fragments',
        'harness/c19.py runner + Run/SC19.v, Run/RC19.v comparators',
        'modelled, not verified: functools.partial / inspect.getfullargspec semantics, Python call protocol',
    ]
    assumptions = [
        'the wrapped function is a plain Python function of n positional parameters that does not raise',
        'map_/filter_/setcol parts of C19 are covered by the DataMatrix core checks (see level_note)',
    ]

    def _run(self, n, paths):
        from datamatrix import functional as fnc
        f = make_f(n)
        root = fnc.curry(f)
        pyfail = None
        if getattr(root, '__name__', None) != f.__name__ or getattr(root, '__doc__', None) != f.__doc__:
            pyfail = 'curry wrapper lost __name__/__doc__: %r %r' % (getattr(root, '__name__', None),
                                                                       getattr(root, '__doc__', None))
        objs = {(): root}
        observed = []
        for path in paths:
            key = ()
            obj = root
            for chunk in path:
                key = key + (tuple(chunk),)
                if key in objs:
                    obj = objs[key]
                    continue
                if not callable(obj):
                    obj = 'err'
                elif isinstance(obj, str):
                    obj = 'err'
                else:
                    try:
                        obj = obj(*chunk)
                    except TypeError:
                        obj = 'err'
                objs[key] = obj
            if obj == 'err':
                observed.append('err')
            elif callable(obj):
                observed.append('fn')
            else:
                observed.append([int(v) for v in obj])
        return observed, pyfail

    def rerun(self, inp):
        n, paths = inp['n'], inp['paths']
        observed, pyfail = self._run(n, paths)
        o_parts, m_parts = [], []
        calls_f = False
        for path, o in zip(paths, observed):
            chunks = L.lst(L.zs(c) for c in path)
            o_parts.append('oracle %s %s %s' % (L.nat(n), chunks, obs_lit(o)))
            m_parts.append('model_agrees %s %s %s' % (L.nat(n), chunks, obs_lit(o)))
            calls_f = calls_f or isinstance(o, list)
        return {
            'input': inp, 'observed': observed, 'pyfail': pyfail,
            'oracle': '(' + ' && '.join(o_parts) + ')' if o_parts else 'true',
            'model': '(' + ' && '.join(m_parts) + ')' if m_parts else 'true',
            'nontrivial': calls_f,
            'sig': '%d|%s' % (n, sorted(map(str, paths))),
            'tags': inp.get('tags', []) + ['arity%d' % n],
        }

    def generate(self, rng, tier):
        cases = []
        ctr = [0]

        def args(k):
            out = list(range(ctr[0] + 1, ctr[0] + k + 1))
            ctr[0] += k
            return out

        # all compositions, with every prefix
        for n in range(1, 7):
            for comp in compositions(n):
                vals = [rng.randint(-50, 50) for _ in range(n)]
                path, i = [], 0
                for k in comp:
                    path.append(vals[i:i + k])
                    i += k
                paths = [path[:j] for j in range(1, len(path) + 1)]
                cases.append(self.rerun({'n': n, 'paths': paths, 'tags': ['composition']}))
        # prefix reuse trees
        reps = 150 if tier == 'quick' else 3000
        for _ in range(reps):
            n = rng.randint(2, 6)
            comp = rng.choice(list(compositions(n)))
            if len(comp) < 2:
                continue
            cut = rng.randint(1, len(comp) - 1)
            vals = [rng.randint(-9, 9) for _ in range(n)]
            pre, i = [], 0
            for k in comp[:cut]:
                pre.append(vals[i:i + k])
                i += k
            rest = n - i
            paths = []
            for _c in range(rng.randint(2, 4)):
                comp2 = rng.choice(list(compositions(rest)))
                cont = [[rng.randint(-9, 9) for _ in range(k)] for k in comp2]
                paths.append(pre + cont)
                if rng.random() < 0.3 and len(cont) > 1:
                    paths.append(pre + cont[:-1])
            rng.shuffle(paths)
            cases.append(self.rerun({'n': n, 'paths': paths, 'tags': ['reuse']}))
        # outside the quantifier: only the model is compared
        for _ in range(60 if tier == 'quick' else 600):
            n = rng.randint(1, 5)
            path = []
            for _k in range(rng.randint(1, 4)):
                path.append([rng.randint(-9, 9) for _ in range(rng.choice([0, 0, 1, 2, 3, n, n + 1]))])
            cases.append(self.rerun({'n': n, 'paths': [path], 'tags': ['malformed']}))
        return cases

    def shrink_candidates(self, inp):
        paths = inp['paths']
        for i in range(len(paths)):
            if len(paths) > 1:
                yield {'n': inp['n'], 'paths': paths[:i] + paths[i + 1:], 'tags': inp.get('tags', [])}

    def key(self, case):
        return 'curry n=%d paths=%s' % (case['input']['n'], json_compact(case['input']['paths']))


def json_compact(x):
    import json
    return json.dumps(x, separators=(',', ':'))


PROP = C19()
