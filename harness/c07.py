from core_props import C07

PROP = C07()
