"""C16 -- CSV write then read preserves names, length and cell values.

Four kinds of cases (inp['kind']):
  rt      a table is built, observed cell by cell (independently of writetxt), written by io.writetxt and read back by
          io.readtxt; L0: roundtrip_ok; L1: byte equality of the written file + table equality of the read
  file    a hand-made file (rendered with Python's own csv.writer: LF / CRLF / CR line ends, optional BOM, QUOTE_ALL or
          QUOTE_MINIMAL, short / long / blank records, last line end stripped) with a known logical content is read
  raw     arbitrary text (stray quotes, CR, BOMs, duplicate names, empty file): model correspondence only
  series  a table is built by a small program of steps (plain columns, SeriesColumn(depth, defaultnan), depth setter,
          sample slices, the same column under a second name, rename, delete, series functions, ops.group, selections,
          row reordering / stacking / length changes, ...); as long as one of its columns is a series column -- of any
          depth, 0 included, at any position -- io.writetxt must raise TypeError (nothing is read from the file); once
          the program has removed / reduced every series column the whole round trip applies again
  hist    a table of plain columns with a history: between looks at the table that may leave something cached (reads of
          dm.column_names, iteration over the cells of a row / of all rows, an earlier io.writetxt to the same path)
          columns are created by type, by (type, kwargs), by value, under a second name for an existing column, renamed,
          deleted (by name, by attribute, by object), cells are assigned, rows reordered / stacked / resized; then the
          round trip: the file must list the table's CURRENT columns (the written table is observed through dm.columns,
          not through dm.column_names, which is what writetxt itself consults)
"""
import csv
import hashlib
import io as _io
import json
import math
import os
import shutil
import tempfile
import unicodedata
import warnings

import numpy as np

import coqlit as L
import pyobs

VERIF = os.path.dirname(os.path.dirname(os.path.abspath(__file__)))
WORK = os.environ.get('VERIF_WORK') or os.path.join(VERIF, '.work')

BOM = '\ufeff'
DIALECTS = [(',', '"'), (';', '"'), ('\t', "'"), ('|', '"'), (',', "'")]
DELIM_NAME = {',': 'comma', ';': 'semicolon', '\t': 'tab', '|': 'pipe'}
QUOTE_NAME = {'"': 'dquote', "'": 'squote'}
# identifier-like names (str.isidentifier()) that differ only by Unicode normal form: (not NFKC / not NFC, its NFKC form).
# Python normalises identifiers in SOURCE text (PEP 3131); a column name is a dict key and must come back as written.
NF_PAIRS = [p for p in [
    ('\xb5V', '\u03bcV'),                  # MICRO SIGN / GREEK SMALL LETTER MU
    ('dure\u0301e', 'dur\xe9e'),            # NFD / NFC
    ('n\u0303o', '\xf1o'),                  # NFD / NFC
    ('\u1100\u1161', '\uac00'),             # conjoining jamo / precomposed syllable
    ('\ufb01t', 'fit'),                     # LATIN SMALL LIGATURE FI
    ('\uff41\uff42', 'ab'),                 # fullwidth letters
    ('\uff58\uff11', 'x1'),                 # fullwidth letter + fullwidth digit
    ('\u212bng', '\xc5ng'),                 # ANGSTROM SIGN (a canonical singleton: changed by NFC as well)
    ('\u212a', 'K'),                        # KELVIN SIGN
    ('\u2126m', '\u03a9m'),                 # OHM SIGN
    ('x\u207f', 'xn'),                      # SUPERSCRIPT LATIN SMALL LETTER N (a modifier letter, hence an identifier)
    ('\u1d43b', 'ab'),                      # MODIFIER LETTER SMALL A
    ('x\xaa', 'xa'),                        # FEMININE ORDINAL INDICATOR
    ('\u017ft', 'st'),                      # LATIN SMALL LETTER LONG S
    ('\u2167', 'VIII'),                     # ROMAN NUMERAL EIGHT
    ('\u01c6', 'd\u017e'),                  # digraph
    ('\u210c', 'H'),                        # BLACK-LETTER CAPITAL H
    ('\u1e9b\u0323', '\u1e69'),             # NFC, NFD, NFKC and NFKD of this one are four different strings
] if all(x.isidentifier() and '\r' not in x for x in p) and p[0] != p[1]]
NF_NAMES = [p[0] for p in NF_PAIRS]
NAMES = ['a', 'b', 'c', 'x1', 'col_2', '_u', 'B', 'Zed', 'naïve', 'λ', '名前'] + NF_NAMES[:9] + ['\u03bcV', 'dur\xe9e', 'fit']
assert len(set(NAMES)) == len(NAMES)
INTS = [0, 1, -1, 7, -13, 2**31, 2**53 - 1, 2**53, 2**53 + 1, -(2**53) - 1, 2**62 + 3]
FLOATS = [0.0, -0.0, 1.0, -3.0, 2.5, -0.75, 0.1, 1e22, 1e23, 1.5e300, 5e-324, 2.2250738585072014e-308, 123456789.0,
          9007199254740992.0, 4294967296.5, float('nan'), float('inf'), float('-inf')]
STRS = ['', ' ', 'None', 'a"b', '""', '"', ',', 'x,y', 'line\nfeed', '\n', 'nan x', 'é', '日本', "it's",
        ' lead', 'trail ', 'a\tb',
        # characters at which str.splitlines() breaks but neither csv nor universal newlines do
        'a\x0bb', 'x\x0cy', 'u\x85v', 'p\u2028q', 'r\u2029s', '\x1c', 'k\x1d', '\x1el', '7\x0b', '\u2028']
LINESEPS = ['\x0b', '\x0c', '\x1c', '\x1d', '\x1e', '\x85', '\u2028', '\u2029']
NUMTEXTS = ['1', '-2', '2.5', '1e3', ' 7 ', 'nan', 'inf', '1_000', '007', '٣', '0', '-0.0', '1e400',
            '9007199254740993', '4.0', '+5', '.5']
NL_NAME = {'\n': 'lf', '\r\n': 'crlf', '\r': 'cr'}


def _coltype(t):
    from datamatrix import MixedColumn, FloatColumn, IntColumn
    return {'mixed': MixedColumn, 'float': FloatColumn, 'int': IntColumn}[t]


def _plain(x):
    """numpy scalars -> Python scalars by value; anything else is returned unchanged."""
    if isinstance(x, np.bool_):
        return x
    if isinstance(x, np.integer):
        return int(x)
    if isinstance(x, np.floating):
        return float(x)
    return x


def _is_plain(v):
    return v is None or type(v) in (int, float, str)


def _lit_ok(names, rows):
    """the table read back can be written as a Coq literal"""
    return all(type(n) is str for n in names) and all(_is_plain(v) for r in rows for v in r)


def _table(dm):
    """(names, rows) of a DataMatrix read cell by cell through dm[name][i]."""
    names = list(dm.column_names)
    rows = [[_plain(dm[nm][i]) for nm in names] for i in range(len(dm))]
    return names, rows


def _table_cols(dm):
    """(names, rows) of a table that is about to be written: the names are those of dm.columns (the (name, column) pairs
    of the table as it is now), NOT dm.column_names, which is what writetxt and Row.__iter__ consult themselves."""
    names = [nm for nm, _ in dm.columns]
    rows = [[_plain(dm[nm][i]) for nm in names] for i in range(len(dm))]
    return names, rows


def _colobjs(dm):
    """[(name, depth)] of the column objects of dm, depth = None unless the object is a series column (decided by its
    class, not by the attribute test DataMatrix.is_2d makes); in the order of dm.columns."""
    from datamatrix._datamatrix._seriescolumn import _SeriesColumn
    out = []
    for nm, col in dm.columns:
        out.append((nm, int(col._seq.shape[1]) if isinstance(col, _SeriesColumn) else None))
    return out


def _iter_table(dm):
    """The same table read through row iteration."""
    names = None
    rows = []
    for row in dm:
        pairs = [(n, _plain(v)) for n, v in row]
        rows.append([v for _, v in pairs])
        if names is None:
            names = [n for n, _ in pairs]
    return names, rows


def _same(a, b):
    return type(a) is type(b) and pyobs.val(a) == pyobs.val(b)


# ---- literals: coqlit / pyobs, with two cheaper spellings of the same terms (elaboration time of the case files) ----
def _printable(c):
    return (0x20 <= c <= 0x7e) or c >= 0x80 or c == 0x0a


def _string(s):
    """L.string(s); a text with control bytes (tab, CR, ...) is spelled as the concatenation of string literals and
    sb [..] chunks for the control bytes only (sb [n%nat; ...] over a whole text costs ~10x a literal to elaborate)."""
    b = s.encode('utf-8')
    if all(_printable(c) for c in b):
        return L.string(s)
    parts = []
    k = 0
    while k < len(b):
        j = k
        pr = _printable(b[k])
        while j < len(b) and _printable(b[j]) == pr:
            j += 1
        chunk = b[k:j]          # control bytes are ASCII: a chunk never splits a UTF-8 sequence
        parts.append(L.string(chunk.decode('utf-8')))
        k = j
    return '(String.concat "" %s)' % L.lst(parts)


def _z(n):
    """L.z(n); hexadecimal spelling for very large integers (decimal literals of hundreds of digits are slow to parse)."""
    if abs(n) < 2 ** 80:
        return L.z(n)
    return '(-0x%x)' % -n if n < 0 else '0x%x' % n


def _val(v):
    if type(v) is int:
        return '(VInt %s)' % _z(v)
    return pyobs.val(v)


def _names_lit(names):
    return L.lst([_string(n) for n in names])


def _rows_lit(rows):
    return L.lst([L.lst([_val(v) for v in r]) for r in rows])


def _recs_lit(recs):
    return L.lst([L.lst([_string(f) for f in r]) for r in recs])


def _cols_lit(cols):
    """[(name, depth or None)] -> list (string * colobj)"""
    return L.lst(['(%s, %s)' % (_string(n), L.opt(k, _z)) for n, k in cols])


def _ascii(ch):
    b = ch.encode('utf-8')
    assert len(b) == 1
    return '(Ascii.ascii_of_nat %d)' % b[0]


def _sh_lit(rows):
    """repr (CPython's, the builtin) of every finite non-integral float cell."""
    seen = {}
    for r in rows:
        for x in r:
            if type(x) is float and math.isfinite(x) and x != int(x):
                seen.setdefault(x.hex(), '(%s, %s)' % (L.fl(x), _string(repr(float(x)))))
    return L.lst(list(seen.values()))


def _cl_lit(texts):
    """int(s) / float(s) (CPython's builtins) for every distinct text for which one of them succeeds."""
    out = []
    seen = set()
    for s in texts:
        if s in seen:
            continue
        seen.add(s)
        try:
            ai = int(s)
        except ValueError:
            ai = None
        try:
            af = float(s)
        except ValueError:
            af = None
        if ai is None and af is None:
            continue
        out.append('(%s, (%s, %s))' % (_string(s), L.opt(ai, _z), L.opt(af, L.fl)))
    return L.lst(out)


def _file_fields(path, delim, quote):
    """All field texts of the file according to Python's own csv.reader (text mode, utf-8)."""
    fields = []
    try:
        with open(path, encoding='utf-8') as f:
            for rec in csv.reader(f, delimiter=delim, quotechar=quote):
                fields.extend(rec)
    except csv.Error:
        pass
    return fields


def _jrows(rows):
    return [[pyobs.jsonable(v) for v in r] for r in rows]


def _cell_classes(v, delim, quote):
    if v is None:
        return ['none']
    if type(v) is int:
        return ['bigint' if abs(v) > 2**53 else 'int']
    if type(v) is float:
        if math.isnan(v):
            return ['nan']
        if math.isinf(v):
            return ['inf']
        return ['float-integral' if v == int(v) else 'float']
    if type(v) is str:
        if v == '':
            return ['empty-str']
        out = []
        if delim in v:
            out.append('str-delim')
        if quote in v:
            out.append('str-quote')
        if '\n' in v:
            out.append('str-lf')
        if any(ord(c) > 127 for c in v):
            out.append('str-nonascii')
        if any(c in v for c in LINESEPS):
            out.append('str-linesep')
        if '\t' in v or ' ' in v:
            out.append('str-blank')
        return out or ['str']
    return ['other']


def _name_classes(names):
    out = set()
    for x in names:
        if any(ord(c) > 127 for c in x):
            out.add('name:nonascii')
        for form in ('NFC', 'NFD', 'NFKC', 'NFKD'):
            if unicodedata.normalize(form, x) != x:
                out.add('name:not-' + form.lower())
    for form in ('NFC', 'NFKC'):
        if len({unicodedata.normalize(form, x) for x in names}) < len(set(names)):
            out.add('name:pair-equal-under-' + form.lower())
    return sorted(out)


def _sig(inp):
    return hashlib.sha1(json.dumps(inp, sort_keys=True).encode('utf-8')).hexdigest()


class C16:
    id = 'C16'
    props_file = 'theories/Props/C16.v'
    kernel_files = ['KCsv.v', 'KCheck.v']
    oracle_vos = ['theories/Run/SC16.vo']
    model_vos = ['theories/Run/RC16.vo']
    oracle_imports = ['From DM Require Import Run.SC16.']
    model_imports = ['From DM Require Import Run.SC16 Run.RC16.']
    exhaustive = False
    rule = ('random cases of five kinds. rt (~60%): a table of 0..6 (thorough 0..12) rows x 1..4 columns (Mixed/Float/Int '
            'columns, identifier-like distinct names incl. non-ASCII ones in every Unicode normal form -- NFC, NFD, names changed '
            'by NFKC such as MICRO SIGN, ligatures, fullwidth letters and digits, ANGSTROM / KELVIN / OHM SIGN, modifier-letter '
            'superscripts, long s, Roman numerals -- and in ~12% two names that differ only by normal form; cells: ints around 0, 2^31, +-2^53(+-1), 2^62; '
            'floats incl. -0.0, nan, +-inf, subnormal, 1e22/1e23, integral and non-integral, random ones; strings with the '
            'delimiter, the quote character, LF, tab, spaces, non-ASCII, VT/FF/FS/GS/RS/NEL/U+2028/U+2029 (str.splitlines '
            'separators that are not line ends for csv), "None", ""; None), optionally row-reordered by '
            'dm[list] and with sorted=False, 5 delimiter/quote pairs; the table is observed through dm[name][i] after '
            'assignment, written with io.writetxt, the file bytes are kept, read back with io.readtxt and observed again '
            '(dm[name][i] and row iteration must agree and be plain int/float/str/None). file (~20%): a file rendered by '
            'Python\'s csv.writer from a header and records of text fields (LF/CRLF/CR, BOM, QUOTE_MINIMAL/QUOTE_ALL, '
            'short, long and blank records, numeric-looking texts, last line end stripped) is read by io.readtxt and '
            'compared with its logical content. raw (~8%): random text over {a,b,space,delimiter,quote,LF,CR,e-acute,BOM,'
            '1,.} of length 0..30, model correspondence only (the property says nothing). series (~14%, ~90 fixed + random): '
            'a table of 0..5 rows built by a program of steps: 0..3 plain columns (Mixed/Float/Int; names sorting before, '
            'between and after the series names) and 1..2 SeriesColumn(depth in {0,1,2,3,5,6}, defaultnan True/False) in '
            'any creation order, or ops.group() of a table / of an empty selection; then 0..3 history steps (depth setter '
            'to 0 / to k / to 0 and back, scalar fill, per-row assignment, cell assignment, sample slice s[:, lo:hi] incl. '
            'lo = hi stored as a new column, the same column object under a second name, rename, delete, series functions '
            'z / smooth / downsample / window / interpolate / concatenate / baseline / threshold / lock / endlock / '
            'arithmetic), 0..2 table-state steps (rows reversed / sliced / all removed / duplicated, dm << dm, sorted = '
            'False, length setter, ops.sort, copy, selection, keep_only), possibly one more history step, and in ~18% a '
            'final step that deletes or srs.reduce()s every series column; 5 delimiter/quote pairs. While a series '
            'column is present (decided by the class of the column object) writetxt must raise TypeError and the file is '
            'not looked at; after the final step the table is two-dimensional and the rt check applies. A building step '
            'that raises is counted (tag build-raised) and not judged. Fixed families in every run: zero-row tables '
            '(declared empty, emptied by a selection, emptied by the length setter), header-only files and files none of '
            'whose records reaches the last column(s), for every delimiter/quote pair x LF/CRLF/CR x BOM. '
            'hist (~8% + ~150 fixed): a table of 0..4 rows and 1..3 plain columns with a history: 1..4 rounds of 0..2 looks '
            '(dm.column_names, iteration over the cells of the first row / of all rows, an earlier writetxt to the same '
            'path, writetxt + readtxt, dm.columns, name in dm) followed by a column-level change that no assignment follows '
            '(a second name for an existing column via dm[n] / setattr, a column by type, by (type, {}), by value, rename, '
            'del dm[name] / del dm.name / del dm[column]) or a cell write, row reordering / duplication, sorted = False, '
            'length setter, dm << dm, copy; then the rt check, the written table being observed through dm.columns (not '
            'through dm.column_names, which writetxt itself uses). Fixed: every look x every change; every normal-form pair as '
            'two columns of one table, as an alias + a by-type column, as a rename, and as the header of a hand-made file. '
            'non-trivial = rt with >= 1 row / file with >= 1 record or a BOM / series / hist; distinct by the sha1 of the '
            'generating input')
    trusted_base = [
        'Coq 8.16.1 kernel (coqc; vm_compute for evaluating cases; no native_compute)',
        'translator /verif/translate (gen_csv.py, pystmt.py): safe_decode chain, dialect arguments of csv.reader / '
        'csv.writer, line terminator, BOM rule, missing-cell fill, is_2d guard of datamatrix/io/_text.py and '
        'py3compat.py, DataMatrix.is_2d (loop over self.columns testing hasattr(col, "depth"); a column object is '
        'abstracted to the value of its depth attribute, if any) -> Gen/KCsv.v (and gen_checktype.py -> Gen/KCheck.v for the cells stored by readtxt)',
        'hand-written model of CPython\'s _csv.c reader automaton and writer (QUOTE_MINIMAL, doublequote), of text-mode '
        'universal newlines, of the line iterator and of UTF-8 strings as byte strings in Model/Csv.v and Base/CsvPy.v: '
        'tied to the implementation by the correspondence cases only',
        'CPython\'s builtins repr(float), int(str), float(str) used as oracles (the SH / CL lists passed with every case); '
        'Python\'s own csv.reader is used only to enumerate the field texts whose classification is passed',
        'harness/c16.py (table observation through dm.columns + dm[name][i] before writing, dm.column_names + dm[name][i] and row iteration after reading, file rendering of the hand-made files '
        'with csv.writer; which columns are series columns is read from the class of the column objects in dm.columns), '
        'harness/pyobs.py, harness/coqlit.py',
    ]
    assumptions = [
        'cells and column names contain no CR and no NUL character (a CR inside a written cell is not preserved by '
        'text-mode reading; outside the claim)',
        'delimiter and quote character are distinct one-byte ASCII characters other than CR / LF',
        'fields are shorter than csv.field_size_limit (131072)',
        'column names are distinct, non-empty str objects that do not start with a byte-order mark',
        'the float repr round trip float(repr(x)) == x and int(str(z)) == z are CPython\'s (Section hypotheses of the '
        'theorems; in the cases the actual repr / int / float results are passed as SH / CL)',
        'Int columns hold |z| < 2^63; byte strings and other objects in cells are outside the claim',
        'the file system returns the bytes that were written; encoding is UTF-8 (safe_open)',
    ]

    def __init__(self):
        self._dir = None

    # ---- temp files --------------------------------------------------------
    def _enter(self):
        """Returns (path, owns): owns = this call created the temp dir and must remove it."""
        if self._dir is not None and os.path.isdir(self._dir):
            return os.path.join(self._dir, 'f.csv'), False
        os.makedirs(WORK, exist_ok=True)
        self._dir = tempfile.mkdtemp(prefix='c16-', dir=WORK)
        return os.path.join(self._dir, 'f.csv'), True

    def _leave(self, path, owns):
        try:
            os.unlink(path)
        except OSError:
            pass
        if owns:
            shutil.rmtree(self._dir, ignore_errors=True)
            self._dir = None

    # ---- runner ------------------------------------------------------------
    def rerun(self, inp):
        path, owns = self._enter()
        try:
            with warnings.catch_warnings():
                warnings.simplefilter('ignore')
                kind = inp['kind']
                if kind == 'rt':
                    return self._rt(inp, path)
                if kind == 'file':
                    return self._file(inp, path)
                if kind == 'raw':
                    return self._raw(inp, path)
                if kind == 'series':
                    return self._series(inp, path)
                if kind == 'hist':
                    return self._series(inp, path, 'hist')
                raise AssertionError(kind)
        finally:
            self._leave(path, owns)

    def _read_back(self, path, delim, quote):
        """io.readtxt + observation. Returns (status, names2, rows2, pyfail, exc)."""
        from datamatrix import io as dmio
        try:
            dm2 = dmio.readtxt(path, delimiter=delim, quotechar=quote)
        except KeyboardInterrupt:
            raise
        except BaseException as e:      # noqa: BLE001  (StopIteration on an empty file)
            return 'exn', None, None, 'readtxt raised %s: %s' % (type(e).__name__, str(e)[:200]), e
        pyfail = None
        names2, rows2 = _table(dm2)
        if not all(type(n) is str for n in names2):
            pyfail = 'column names read back are not str: %r' % (names2,)
        elif not all(_is_plain(v) for r in rows2 for v in r):
            pyfail = 'cells read back are not plain int/float/str/None: %r' % (
                sorted({type(v).__name__ for r in rows2 for v in r}),)
        else:
            inames, irows = _iter_table(dm2)
            if len(irows) != len(rows2) or (inames is not None and inames != names2) or \
                    any(len(a) != len(b) or not all(_same(x, y) for x, y in zip(a, b)) for a, b in zip(irows, rows2)):
                pyfail = 'row iteration and dm[name][i] disagree on the table read back'
            elif len(dm2) != len(rows2):
                pyfail = 'len(dm2) disagrees with the rows read'
        return 'ok', names2, rows2, pyfail, dm2

    # -- kind rt
    def _rt(self, inp, path):
        from datamatrix import DataMatrix
        cols = inp['cols']
        n = len(cols[0]['cells'])
        assert all(len(c['cells']) == n for c in cols)
        dm = DataMatrix(length=n)
        for c in cols:
            dm[c['name']] = _coltype(c['type'])
            if n:
                dm[c['name']] = [pyobs.dec(x) for x in c['cells']]
        order = inp.get('order', 'asis')
        if n and order == 'reversed':
            dm = dm[list(range(n - 1, -1, -1))]
        elif n and order == 'perm':
            perm = [int(i) for i in inp['perm']]
            assert sorted(perm) == list(range(n))
            dm = dm[perm]
        if not inp.get('sorted', True):
            dm.sorted = False
        names, rows = _table_cols(dm)
        assert len(rows) == n and all(type(x) is str for x in names), (names, rows)
        assert all(_is_plain(v) for r in rows for v in r), rows
        tags = ['rt', 'rows%d' % n, 'cols%d' % len(cols), 'order:' + order] + sorted({'col:' + c['type'] for c in cols})
        if not inp.get('sorted', True):
            tags.append('unsorted')
        return self._write_read(dm, inp, path, names, rows, tags, n >= 1)

    def _write_read(self, dm, inp, path, names, rows, tags, nontrivial):
        """writetxt + readtxt of a table of plain columns whose observed content is (names, rows)."""
        from datamatrix import io as dmio
        delim, quote = inp['delim'], inp['quote']
        classes = sorted({k for r in rows for v in r for k in _cell_classes(v, delim, quote)})
        tags = tags + ['delim:' + DELIM_NAME.get(delim, repr(delim)), 'quote:' + QUOTE_NAME.get(quote, repr(quote))] + \
            ['cell:' + k for k in classes] + _name_classes(names)
        D, Q = _ascii(delim), _ascii(quote)
        NAMES_, ROWS_ = _names_lit(names), _rows_lit(rows)
        # the column objects as DataMatrix.is_2d sees them: none of them is a series column
        COLS = _cols_lit(_colobjs(dm))
        observed = {'names': names, 'rows': _jrows(rows)}
        base = {'input': inp, 'observed': observed, 'nontrivial': nontrivial, 'sig': _sig(inp), 'tags': tags}
        # write
        try:
            dmio.writetxt(dm, path, delimiter=delim, quotechar=quote)
        except Exception as e:      # noqa: BLE001
            observed['writetxt_raises'] = type(e).__name__
            base.update(pyfail='writetxt raised %s: %s' % (type(e).__name__, str(e)[:200]), oracle='false',
                        model='(write_agrees_cols %s %s %s %s %s %s (Raise %s))' % (
                            _sh_lit(rows), D, Q, COLS, NAMES_, ROWS_, pyobs.exn_name(e)))
            return base
        with open(path, 'rb') as f:
            data = f.read()
        text = data.decode('utf-8')
        observed['text'] = text
        TEXT = _string(text)
        m_write = '(write_agrees_cols %s %s %s %s %s %s (Ok %s))' % (_sh_lit(rows), D, Q, COLS, NAMES_, ROWS_, TEXT)
        CL = _cl_lit(_file_fields(path, delim, quote))
        # read back
        st, names2, rows2, pyfail, exc = self._read_back(path, delim, quote)
        if st == 'exn':
            observed['readtxt_raises'] = type(exc).__name__
            base.update(pyfail=pyfail, oracle='false',
                        model='%s && (read_agrees %s %s %s %s (Raise %s))' % (m_write, CL, D, Q, TEXT, pyobs.exn_name(exc)))
            return base
        observed['names2'] = names2
        observed['rows2'] = _jrows(rows2)
        if pyfail is None and len(exc) != len(dm):
            pyfail = 'len(readtxt(writetxt(dm))) = %d, len(dm) = %d' % (len(exc), len(dm))
        if not _lit_ok(names2, rows2):
            base.update(pyfail=pyfail, oracle='false', model=m_write)
            return base
        NAMES2, ROWS2 = _names_lit(names2), _rows_lit(rows2)
        base.update(pyfail=pyfail,
                    oracle='(oracle_rt %s %s %s %s)' % (NAMES_, ROWS_, NAMES2, ROWS2),
                    model='%s && (read_agrees %s %s %s %s (Ok (%s, %s)))' % (m_write, CL, D, Q, TEXT, NAMES2, ROWS2))
        return base

    # -- kind file
    @staticmethod
    def render_file(inp):
        """The text of the hand-made file, or None when the input does not denote its logical content."""
        delim, quote, nl = inp['delim'], inp['quote'], inp['nl']
        hdr, recs = inp['hdr'], inp['recs']
        if not hdr or len(set(hdr)) != len(hdr) or any(h == '' or h.startswith(BOM) for h in hdr):
            return None
        if any('\r' in f or '\x00' in f for r in [hdr] + recs for f in r):
            return None
        quoting = csv.QUOTE_ALL if inp['quoting'] == 'all' else csv.QUOTE_MINIMAL
        lines = []
        for k, rec in enumerate([hdr] + recs):
            buf = _io.StringIO(newline='')
            # a BOM followed by a quote character does not open a quoted field: the header after a BOM is never quoted
            qk = csv.QUOTE_MINIMAL if (k == 0 and inp['bom']) else quoting
            csv.writer(buf, delimiter=delim, quotechar=quote, lineterminator=nl, quoting=qk).writerow(rec)
            lines.append(buf.getvalue())
        if inp['strip_last'] and lines[-1] != nl and lines[-1].endswith(nl):
            lines[-1] = lines[-1][:-len(nl)]
        text = (BOM if inp['bom'] else '') + ''.join(lines)
        # self-check with Python's own reader (universal newlines): the file must mean hdr :: recs
        back = list(csv.reader(_io.StringIO(text, newline=None), delimiter=delim, quotechar=quote))
        if back and back[0] and back[0][0].startswith(BOM):
            back[0][0] = back[0][0][1:]
        if back != [list(hdr)] + [list(r) for r in recs]:
            return None
        return text

    def _file(self, inp, path):
        delim, quote = inp['delim'], inp['quote']
        hdr, recs = inp['hdr'], inp['recs']
        text = self.render_file(inp)
        if text is None:
            return None
        with open(path, 'wb') as f:
            f.write(text.encode('utf-8'))
        tags = ['file', 'nl:' + NL_NAME[inp['nl']], 'quoting:' + inp['quoting'],
                'delim:' + DELIM_NAME.get(delim, repr(delim)), 'hdr%d' % len(hdr), 'recs%d' % len(recs)]
        if inp['bom']:
            tags.append('bom')
        if any(0 < len(r) < len(hdr) for r in recs):
            tags.append('short-row')
        if any(len(r) > len(hdr) for r in recs):
            tags.append('long-row')
        if any(len(r) == 0 for r in recs):
            tags.append('blank-line')
        if inp['strip_last']:
            tags.append('strip-last')
        if not recs:
            tags.append('no-records')
        elif max(len(r) for r in recs) < len(hdr):
            tags.append('all-short')
        if any('\n' in f for r in recs for f in r):
            tags.append('lf-in-field')
        texts = [''] + [f for r in [hdr] + recs for f in r]
        if any(t for t in texts if _cl_lit([t]) != '[]'):
            tags.append('numeric-text')
        D, Q, TEXT = _ascii(delim), _ascii(quote), _string(text)
        CL = _cl_lit(texts + _file_fields(path, delim, quote))
        HDR, RECS = _names_lit(hdr), _recs_lit(recs)
        # records_agree looks at the records as the csv reader yields them, i.e. before readtxt strips the BOM
        raw_hdr = [BOM + hdr[0]] + list(hdr[1:]) if inp['bom'] else list(hdr)
        m_recs = '(records_agree %s %s %s %s)' % (D, Q, TEXT, _recs_lit([raw_hdr] + recs))
        observed = {'text': text}
        base = {'input': inp, 'observed': observed, 'nontrivial': bool(recs) or bool(inp['bom']), 'sig': _sig(inp),
                'tags': tags}
        st, names2, rows2, pyfail, exc = self._read_back(path, delim, quote)
        if st == 'exn':
            observed['readtxt_raises'] = type(exc).__name__
            base.update(pyfail=pyfail, oracle='false',
                        model='(read_agrees %s %s %s %s (Raise %s)) && %s' % (CL, D, Q, TEXT, pyobs.exn_name(exc), m_recs))
            return base
        observed['names2'] = names2
        observed['rows2'] = _jrows(rows2)
        if not _lit_ok(names2, rows2):
            base.update(pyfail=pyfail, oracle='false', model=m_recs)
            return base
        NAMES2, ROWS2 = _names_lit(names2), _rows_lit(rows2)
        base.update(pyfail=pyfail,
                    oracle='(oracle_read %s %s %s %s %s)' % (_cl_lit(texts), HDR, RECS, NAMES2, ROWS2),
                    model='(read_agrees %s %s %s %s (Ok (%s, %s))) && %s' % (CL, D, Q, TEXT, NAMES2, ROWS2, m_recs))
        return base

    # -- kind raw
    def _raw(self, inp, path):
        delim, quote, text = inp['delim'], inp['quote'], inp['text']
        with open(path, 'wb') as f:
            f.write(text.encode('utf-8'))
        D, Q, TEXT = _ascii(delim), _ascii(quote), _string(text)
        CL = _cl_lit(_file_fields(path, delim, quote))
        st, names2, rows2, pyfail, exc = self._read_back(path, delim, quote)
        observed = {}
        if st == 'exn':
            observed['readtxt_raises'] = type(exc).__name__
            obs = '(Raise %s)' % pyobs.exn_name(exc)
            pyfail = None                   # the property says nothing about malformed text
        else:
            observed['names2'] = names2
            observed['rows2'] = _jrows(rows2)
            if not _lit_ok(names2, rows2):
                obs = '(Raise OtherError)'
            else:
                obs = '(Ok (%s, %s))' % (_names_lit(names2), _rows_lit(rows2))
        return {'input': inp, 'observed': observed, 'pyfail': pyfail, 'oracle': 'true',
                'model': '(read_agrees %s %s %s %s %s)' % (CL, D, Q, TEXT, obs),
                'nontrivial': False, 'sig': _sig(inp), 'tags': ['raw', 'raises' if st == 'exn' else 'ok']}

    # -- kind series
    # cells of the plain columns of a series case, by row index
    STYLES = {
        'int': lambda i: 3 * i - 2,
        'key': lambda i: ['a', 'b', 'a', 'c'][i % 4],
        'str': lambda i: ['x', 'a,b', 'q"r', '', 'é', "it's;|", 'l\nf'][i % 7],
        'float': lambda i: [0.5, float('nan'), -2.0, 1e22, float('inf'), 0.1][i % 6],
        'mix': lambda i: [1, 'a\tb', 2.5, None, -7][i % 5],
    }

    @staticmethod
    def _series_names(dm):
        return [nm for nm, k in _colobjs(dm) if k is not None]

    def _step(self, dm, st):
        """One building step of a series case; returns the (possibly new) DataMatrix."""
        from datamatrix import SeriesColumn, operations as ops, series as srs, io as dmio
        op = st[0]
        if op == 'plain':
            _, name, style, typ = st
            dm[name] = _coltype(typ)
            if len(dm):
                dm[name] = [self.STYLES[style](i) for i in range(len(dm))]
        elif op == 'series':
            dm[st[1]] = SeriesColumn(depth=int(st[2]), defaultnan=bool(st[3]))
        elif op == 'fill':
            dm[st[1]] = st[2]
        elif op == 'ramp':
            col = dm[st[1]]
            for i in range(len(dm)):
                col[i] = [i + 0.5 * j for j in range(col.depth)]
        elif op == 'setcell':
            dm[st[1]][int(st[2]), int(st[3])] = st[4]
        elif op == 'setdepth':
            dm[st[1]].depth = int(st[2])
        elif op == 'sslice':
            dm[st[1]] = dm[st[2]][:, int(st[3]):int(st[4])]
        elif op == 'alias':
            dm[st[1]] = dm[st[2]]
        elif op == 'aliasattr':
            setattr(dm, st[1], dm[st[2]])
        elif op == 'bytype':                    # a column created by type and not assigned to
            dm[st[1]] = _coltype(st[2])
        elif op == 'bykw':                      # ... by (type, kwargs)
            dm[st[1]] = (_coltype(st[2]), {})
        elif op == 'byvalue':                   # ... by value (of the table's default column type)
            dm[st[1]] = [self.STYLES[st[2]](i) for i in range(len(dm))] if len(dm) else st[3]
        elif op == 'cell':
            dm[st[1]][int(st[2]) % len(dm)] = st[3]
        elif op == 'delattr':
            delattr(dm, st[1])
        elif op == 'delobj':
            del dm[dm[st[1]]]
        elif op == 'peek':
            # a look at the table that changes nothing (but may leave something cached inside it)
            how = st[1]
            if how == 'names':
                list(dm.column_names)
            elif how == 'iter':
                for row in dm:
                    for _nm, _v in row:
                        pass
                    break
            elif how == 'iterall':
                [[v for _nm, v in row] for row in dm]
            elif how == 'cols':
                [nm for nm, _c in dm.columns]
            elif how == 'write':                # an earlier writetxt to the same path (the final one must replace it)
                path, delim, quote = self._cur
                dmio.writetxt(dm, path, delimiter=delim, quotechar=quote)
            elif how == 'writeread':
                path, delim, quote = self._cur
                dmio.writetxt(dm, path, delimiter=delim, quotechar=quote)
                dmio.readtxt(path, delimiter=delim, quotechar=quote)
            elif how == 'contains':
                [nm in dm for nm, _c in dm.columns]
            else:
                raise AssertionError(how)
        elif op == 'rename':
            dm.rename(st[1], st[2])
        elif op == 'del':
            del dm[st[1]]
        elif op == 'fn':
            _, fname, new, src = st
            c = dm[src]
            if fname == 'z':
                r = srs.z(c)
            elif fname == 'smooth':
                r = srs.smooth(c, winlen=3)
            elif fname == 'downsample':
                r = srs.downsample(c, by=2)
            elif fname == 'window':
                r = srs.window(c, start=0, end=1)
            elif fname == 'window0':
                r = srs.window(c, start=1, end=1)
            elif fname == 'interpolate':
                r = srs.interpolate(c)
            elif fname == 'concatenate':
                r = srs.concatenate(c, c)
            elif fname == 'baseline':
                r = srs.baseline(c, c, 0, 1)
            elif fname == 'threshold':
                r = srs.threshold(c, lambda v: v > 1)
            elif fname == 'endlock':
                r = srs.endlock(c)
            elif fname == 'lock':
                r = srs.lock(c, [0] * len(c))[0]
            elif fname == 'arith':
                r = c * 2 + 1
            elif fname == 'reduce':
                r = srs.reduce(c)
            else:
                raise AssertionError(fname)
            dm[new] = r
        elif op == 'group':
            dm = ops.group(dm, by=[dm[nm] for nm in st[1]])
        elif op == 'select':
            _, name, rel, val = st
            dm = (dm[name] == val) if rel == 'eq' else (dm[name] != val) if rel == 'ne' else (dm[name] > val)
        elif op == 'rows':
            how, n = st[1], len(dm)
            if how == 'rev':
                dm = dm[list(range(n - 1, -1, -1))] if n else dm      # dm[[]] would select no COLUMNS
            elif how == 'tail':
                dm = dm[1:]
            elif how == 'empty':
                dm = dm[0:0]
            elif how == 'dup':
                dm = dm[[i // 2 for i in range(2 * n)]] if n else dm
            else:
                raise AssertionError(how)
        elif op == 'stack':
            dm = dm << dm
        elif op == 'unsorted':
            dm.sorted = False
        elif op == 'length':
            dm.length = max(0, len(dm) + int(st[1]))
        elif op == 'sort':
            dm = ops.sort(dm, by=dm[st[1]])
        elif op == 'copy':
            dm = dm[:]
        elif op == 'keep':
            dm = ops.keep_only(dm, *list(st[1]))
        elif op == 'resolve':
            # make the table two-dimensional again: every series column is deleted / replaced by its reduction
            for nm in self._series_names(dm):
                if nm not in dm:
                    continue
                if st[1] == 'reduce':
                    dm[nm] = srs.reduce(dm[nm])
                else:
                    del dm[nm]
        else:
            raise AssertionError(op)
        return dm

    def _series(self, inp, path, kind='series'):
        from datamatrix import DataMatrix, io as dmio
        if 'steps' not in inp:      # the first form of these inputs: extra_cols plain columns, then one series column
            steps = [['plain', 'c%d' % j, 'int', 'mixed'] for j in range(int(inp['extra_cols']))] + \
                [['series', 's', int(inp['depth']), True]]
            inp2 = dict(inp, steps=steps, delim=',', quote='"')
        else:
            inp2 = inp
        delim, quote = inp2['delim'], inp2['quote']
        tags = [kind, 'rows0:%d' % int(inp2['rows'])]
        self._cur = (path, delim, quote)
        neutral = {'input': inp, 'observed': {}, 'pyfail': None, 'oracle': 'true', 'model': 'true', 'nontrivial': False,
                   'sig': _sig(inp), 'tags': tags + ['build-raised']}
        # ---- build (an exception here is not a verdict on writetxt: the case is counted and left aside)
        try:
            dm = DataMatrix(length=int(inp2['rows']))
            for st in inp2['steps']:
                dm = self._step(dm, st)
                tags.append('op:' + (st[0] if st[0] not in ('fn', 'peek') else st[0] + '-' + st[1]))
            cols = _colobjs(dm)
            nrows = len(dm)
        except KeyboardInterrupt:
            raise
        except BaseException as e:      # noqa: BLE001
            neutral['observed'] = {'build_raises': '%s: %s' % (type(e).__name__, str(e)[:120])}
            return neutral
        depths = [k for _, k in cols if k is not None]
        if not cols:
            neutral['tags'] = tags + ['no-columns']
            return neutral
        tags = sorted(set(tags)) + ['rows%d' % min(nrows, 6), 'ncols%d' % len(cols), 'nseries%d' % min(len(depths), 3)] + \
            sorted({'depth%d' % min(k, 6) for k in depths})
        if depths:
            pos = [i for i, (_, k) in enumerate(cols) if k is not None]
            if 0 in pos:
                tags.append('series-first')
            if len(cols) - 1 in pos:
                tags.append('series-last')
            if any(0 < i < len(cols) - 1 for i in pos):
                tags.append('series-middle')
            if len(depths) == len(cols):
                tags.append('series-only')
            ids = [id(dm[nm]) for nm, k in cols if k is not None]
            if len(set(ids)) < len(ids):
                tags.append('series-two-names')
        if not depths:
            # two-dimensional again: the whole round trip applies
            try:
                names, rows = _table_cols(dm)
                ok = all(type(x) is str for x in names) and all(_is_plain(v) for r in rows for v in r)
            except KeyboardInterrupt:
                raise
            except BaseException as e:      # noqa: BLE001
                neutral['observed'] = {'observe_raises': '%s: %s' % (type(e).__name__, str(e)[:120])}
                return neutral
            if not ok:
                neutral['tags'] = tags + ['non-plain-cells']
                return neutral
            if kind == 'hist':
                return self._write_read(dm, inp, path, names, rows, tags, True)
            return self._write_read(dm, inp, path, names, rows, tags + ['series-resolved'], True)
        # ---- write: must raise TypeError; nothing is read from the file
        raised = None
        try:
            dmio.writetxt(dm, path, delimiter=delim, quotechar=quote)
        except KeyboardInterrupt:
            raise
        except BaseException as e:      # noqa: BLE001
            raised = e
        D, Q = _ascii(delim), _ascii(quote)
        if raised is None:
            obs, mobs = 'None', '(Ok "")'
        else:
            obs, mobs = '(Some %s)' % pyobs.exn_name(raised), '(Raise %s)' % pyobs.exn_name(raised)
        SER = L.lst(['true' if k is not None else 'false' for _, k in cols])
        return {'input': inp,
                'observed': {'columns': [[nm, k] for nm, k in cols], 'rows': nrows,
                             'raises': type(raised).__name__ if raised is not None else None,
                             'file_created': os.path.exists(path)},
                'pyfail': None if raised is not None else
                'writetxt of a DataMatrix with a series column (depths %r) did not raise' % (depths,),
                'oracle': '(oracle_write_guard %s %s)' % (SER, obs),
                'model': '(write_agrees_cols [] %s %s %s [] [] %s)' % (D, Q, _cols_lit(cols), mobs),
                'nontrivial': True, 'sig': _sig(inp), 'tags': tags}

    # ---- generators ----------------------------------------------------------
    @staticmethod
    def _rand_float(rng):
        c = rng.randrange(4)
        if c == 0:
            return rng.uniform(-1e6, 1e6)
        if c == 1:
            return rng.uniform(-1, 1) * 10.0 ** rng.randint(-300, 300)
        if c == 2:
            return rng.randint(-10**6, 10**6) / 8.0
        return float(rng.randint(-2**60, 2**60))

    @staticmethod
    def _rand_str(rng, delim, quote, maxlen=6, lf=True):
        alpha = ['a', 'b', 'X', 'z', ' ', delim, quote, "'", ';', '\t', '|', 'é', '日', '"', ',', '1', '.']
        if lf:
            alpha.append('\n')
        if rng.random() < 0.25:
            alpha = alpha + LINESEPS
        return ''.join(rng.choice(alpha) for _ in range(rng.randint(0, maxlen)))

    def _cell(self, rng, typ, delim, quote):
        if typ == 'int':
            return rng.choice(INTS) if rng.random() < 0.7 else rng.randint(-2**63 + 1, 2**63 - 1)
        if typ == 'float':
            c = rng.random()
            if c < 0.5:
                return rng.choice(FLOATS)
            if c < 0.82:
                return self._rand_float(rng)
            if c < 0.92:
                return rng.choice([0, 1, -13, 7, 2**31])
            if c < 0.96:
                return None
            return rng.choice(['x', '', 'None'])
        c = rng.random()
        if c < 0.25:
            return rng.choice(INTS) if rng.random() < 0.8 else rng.randint(-2**70, 2**70)
        if c < 0.5:
            return rng.choice(FLOATS) if rng.random() < 0.6 else self._rand_float(rng)
        if c < 0.7:
            return rng.choice(STRS)
        if c < 0.9:
            return self._rand_str(rng, delim, quote)
        return None

    @staticmethod
    def _names(rng, k):
        """k distinct identifier-like names; in ~12% two of them differ only by Unicode normal form"""
        if k >= 2 and rng.random() < 0.12:
            pair = list(rng.choice(NF_PAIRS))
            names = pair + rng.sample([x for x in NAMES if x not in pair], k - 2)
            rng.shuffle(names)
            return names
        return rng.sample(NAMES, k)

    def gen_hist(self, rng):
        """A table of plain columns with a history of looks and column-level changes (see the module docstring)."""
        delim, quote = rng.choice(DIALECTS)
        n = rng.choice([0, 1, 2, 2, 3, 4])
        pool = self._names(rng, 8)
        steps = []
        have = {}               # name -> style

        def style_typ():
            style = rng.choice(['int', 'str', 'float', 'mix', 'key'])
            typ = {'int': rng.choice(['int', 'mixed', 'float']), 'float': rng.choice(['float', 'mixed'])}.get(style, 'mixed')
            return style, typ

        def peek():
            hows = ['names', 'names', 'iter', 'iter', 'iterall', 'write', 'write', 'writeread', 'cols', 'contains']
            steps.append(['peek', rng.choice(hows)])

        def insert():
            """a new name that no assignment follows"""
            new = pool.pop()
            c = rng.random()
            if have and c < 0.4:
                src = rng.choice(sorted(have))
                steps.append([rng.choice(['alias', 'alias', 'aliasattr']), new, src])
                have[new] = have[src]
            elif c < 0.65:
                steps.append(['bytype', new, rng.choice(['mixed', 'float', 'int'])])
                have[new] = 'int'
            elif c < 0.85:
                steps.append(['bykw', new, rng.choice(['mixed', 'float', 'int'])])
                have[new] = 'int'
            else:
                style = rng.choice(['int', 'str', 'mix', 'key'])
                steps.append(['byvalue', new, style, rng.choice([0, 'x', 1.5])])
                have[new] = style

        def change():
            c = rng.random()
            if c < 0.42 and pool:
                insert()
            elif c < 0.52 and pool and have:
                old = rng.choice(sorted(have))
                new = pool.pop()
                steps.append(['rename', old, new])
                have[new] = have.pop(old)
            elif c < 0.64 and len(have) >= 2:
                x = rng.choice(sorted(have))
                steps.append([rng.choice(['del', 'delattr', 'delobj']), x])
                if steps[-1][0] == 'delobj':
                    # deletes the FIRST name under which the column object is found: not tracked further
                    have.clear()
                else:
                    del have[x]
            elif c < 0.72 and have and n:
                steps.append(['cell', rng.choice(sorted(have)), rng.randrange(8), rng.choice([3, 'q', 2.5])])
            elif c < 0.8:
                steps.append(['rows', rng.choice(['rev', 'tail', 'dup'])])
            elif c < 0.85:
                steps.append(['unsorted'])
            elif c < 0.9:
                steps.append(['length', rng.choice([-1, 1, 2])])
            elif c < 0.94:
                steps.append(['stack'])
            else:
                steps.append(['copy'])

        for _ in range(rng.choice([1, 1, 2, 2, 3])):
            nm = pool.pop()
            style, typ = style_typ()
            steps.append(['plain', nm, style, typ])
            have[nm] = style
        if rng.random() < 0.12:
            steps.append(['unsorted'])
        for _ in range(rng.choice([1, 1, 2, 2, 3, 4])):
            if not pool:
                break
            for _ in range(rng.choice([0, 1, 1, 1, 2])):
                peek()
            if rng.random() < 0.5 and pool:
                insert()
            else:
                change()
            if steps[-1][0] == 'delobj':
                break
        return {'kind': 'hist', 'rows': n, 'steps': steps, 'delim': delim, 'quote': quote}

    def _fixed_hist(self):
        """look, then a column-level change that nothing follows, then the round trip: every look x every change; the
        normal-form name pairs and every not-normalised name as written tables and as hand-made files"""
        out = []
        k = 0

        def case(rows, steps, kind='hist'):
            nonlocal k
            delim, quote = DIALECTS[k % len(DIALECTS)]
            k += 1
            out.append({'kind': kind, 'rows': rows, 'steps': steps, 'delim': delim, 'quote': quote})
        P = lambda nm, style='int', typ='mixed': ['plain', nm, style, typ]      # noqa: E731
        changes = [[['alias', 'lat', 'rt']], [['aliasattr', 'A', 'cond']], [['bytype', 'n', 'int']], [['bytype', 'z', 'mixed']],
                   [['bykw', 'f', 'float']], [['byvalue', 'v', 'key', 0]], [['rename', 'rt', 'RT']], [['del', 'cond']],
                   [['delattr', 'rt']], [['delobj', 'rt']], [['alias', 'lat', 'rt'], ['del', 'rt']],
                   [['bytype', 'n', 'float'], ['rename', 'n', 'm']], [['alias', 'x', 'rt'], ['bykw', 'y', 'mixed']]]
        looks = ['names', 'iter', 'iterall', 'write', 'writeread', 'cols', 'contains']
        j = 0
        for ch in changes:
            for look in looks:
                j += 1
                rows = [3, 1, 0, 2][j % 4]
                if rows == 0 and look == 'iter':
                    rows = 1
                steps = [P('rt', 'int', ['int', 'mixed', 'float'][j % 3]), P('cond', 'key')]
                if j % 5 == 0:
                    steps.append(['unsorted'])
                case(rows, steps + [['peek', look]] + ch)
        # the same change between two looks / twice / after a row-level step
        case(2, [P('a'), ['peek', 'write'], ['bytype', 'b', 'int'], ['peek', 'write'], ['alias', 'c', 'a']])
        case(2, [P('a'), ['peek', 'names'], ['rows', 'rev'], ['peek', 'iter'], ['alias', 'c', 'a']])
        case(3, [P('a'), P('b', 'str'), ['peek', 'iterall'], ['length', 1], ['peek', 'names'], ['bykw', 'c', 'int']])
        case(1, [P('a'), ['peek', 'names'], ['alias', 'b', 'a'], ['alias', 'c', 'b'], ['del', 'a']])
        case(2, [P('a'), P('b', 'str'), ['peek', 'write'], ['del', 'b'], ['peek', 'write'], ['bytype', 'b', 'float']])
        # names that are not in normal form, pairs that differ only by normal form
        for a, b in NF_PAIRS:
            j += 1
            case([2, 1, 3][j % 3], [P(a, 'int', ['int', 'mixed', 'float'][j % 3]), P('plain', 'str'), P(b, 'key')])
            case(2, [P('plain'), ['peek', 'names'], ['alias', a, 'plain'], ['bytype', b, 'int']])
            case(1, [P(b, 'str'), ['rename', b, a]])
            delim, quote = DIALECTS[j % len(DIALECTS)]
            out.append({'kind': 'file', 'delim': delim, 'quote': quote, 'hdr': [a, 'plain', b] if j % 2 else [b, a],
                        'recs': [['1', 'x', '2.5'], ['u'], ['3', a, b, b]], 'nl': ['\n', '\r\n', '\r'][j % 3],
                        'bom': j % 4 == 0, 'quoting': ['minimal', 'all'][j % 2], 'strip_last': j % 3 == 0})
        for i in range(0, len(NF_NAMES), 6):
            case(2, [P(x, ['int', 'str', 'float', 'mix'][q % 4], ['mixed', 'mixed', 'float', 'mixed'][q % 4])
                     for q, x in enumerate(NF_NAMES[i:i + 6])])
        return out

    def gen_rt(self, rng, maxrows):
        delim, quote = rng.choice(DIALECTS)
        n = 0 if rng.random() < 0.04 else rng.randint(1, maxrows)
        ncols = rng.choice([1, 1, 2, 2, 3, 3, 4])
        names = self._names(rng, ncols)
        cols = []
        for nm in names:
            typ = rng.choice(['mixed', 'mixed', 'mixed', 'float', 'int'])
            cols.append({'name': nm, 'type': typ,
                         'cells': [pyobs.enc(self._cell(rng, typ, delim, quote)) for _ in range(n)]})
        c = rng.random()
        order, perm = 'asis', []
        if n >= 2 and c < 0.15:
            order = 'reversed'
        elif n >= 2 and c < 0.4:
            order = 'perm'
            perm = list(range(n))
            rng.shuffle(perm)
        return {'kind': 'rt', 'delim': delim, 'quote': quote, 'cols': cols, 'order': order, 'perm': perm,
                'sorted': rng.random() >= 0.15}

    def gen_file(self, rng, maxrecs):
        delim, quote = rng.choice(DIALECTS)
        hdr = self._names(rng, rng.randint(1, 4))
        nl = rng.choice(['\n', '\n', '\r\n', '\r\n', '\r'])
        quoting = 'all' if rng.random() < 0.3 else 'minimal'
        recs = []
        # shape of the records: any / no record at all / every record too short to reach the last column(s)
        c = rng.random()
        shape = 'norecs' if c < 0.06 else 'allshort' if c < 0.16 and len(hdr) >= 2 else 'any'
        reach = rng.randint(0, len(hdr) - 1)        # allshort: no record has more than `reach` fields
        for _ in range(0 if shape == 'norecs' else rng.randint(1 if shape == 'allshort' else 0, maxrecs)):
            if shape == 'allshort':
                ln = rng.randint(0, reach)
            else:
                ln = len(hdr) if rng.random() < 0.65 else rng.randint(0, len(hdr) + 2)
            rec = []
            for _ in range(ln):
                c = rng.random()
                if c < 0.35:
                    f = rng.choice(NUMTEXTS)
                elif c < 0.5:
                    f = rng.choice([s for s in STRS if s])
                elif c < 0.8:
                    f = self._rand_str(rng, delim, quote)
                else:
                    f = ''
                if '\n' in f and nl == '\r' and quoting == 'minimal' and delim not in f and quote not in f:
                    f += delim          # csv.writer would not quote it: a bare LF would split the record
                rec.append(f)
            recs.append(rec)
        return {'kind': 'file', 'delim': delim, 'quote': quote, 'hdr': hdr, 'recs': recs, 'nl': nl,
                'bom': rng.random() < 0.25, 'quoting': quoting, 'strip_last': rng.random() < 0.3}

    def gen_raw(self, rng):
        delim, quote = rng.choice(DIALECTS)
        alpha = ['a', 'b', ' ', delim, delim, quote, quote, '\n', '\n', '\r', 'é', BOM, '1', '.']
        if rng.random() < 0.2:
            alpha = alpha + ['\x0b', '\x85', '\u2028']
        return {'kind': 'raw', 'delim': delim, 'quote': quote,
                'text': ''.join(rng.choice(alpha) for _ in range(rng.randint(0, 30)))}

    # names whose sort position differs relative to each other: upper case < lower case < non-ASCII
    SER_NAMES = ['A', 'S0', 'd', 'mm', 'zz', 'é', '_s', 'q1']
    PLAIN_NAMES = ['B', 'b', 'k0', 'n', 'y', 'λ', 'Zed']
    FN_ANY = ['window', 'window0', 'concatenate', 'baseline', 'threshold', 'endlock', 'arith']   # any row count
    FN_ROWS = ['z', 'downsample', 'interpolate', 'lock']                                        # >= 1 row

    @staticmethod
    def _fn_depth(f, d):
        if d is None:
            return 0 if f == 'window0' else None
        return {'downsample': d // 2, 'window': min(d, 1), 'window0': 0, 'concatenate': 2 * d}.get(f, d)

    def gen_series(self, rng):
        """A table with series columns of some shape and history, in some state (see `rule`)."""
        delim, quote = rng.choice(DIALECTS)
        n = rng.choice([0, 1, 1, 2, 3, 3, 5])
        steps = []
        ser = {}            # series column name -> depth (None = not tracked)
        plain = {}          # plain column name -> style
        free_s = list(self.SER_NAMES)
        free_p = list(self.PLAIN_NAMES)
        rng.shuffle(free_s)
        rng.shuffle(free_p)

        def add_plain(style=None):
            nm = free_p.pop()
            style = style or rng.choice(['int', 'str', 'float', 'mix', 'key'])
            typ = {'int': rng.choice(['int', 'mixed', 'float']), 'float': rng.choice(['float', 'mixed'])}.get(style, 'mixed')
            steps.append(['plain', nm, style, typ])
            plain[nm] = style
            return nm

        def history(rows_known):
            """one step of the life of a series column; rows_known: the number of rows is still n"""
            x = rng.choice(sorted(ser))
            d = ser[x]
            c = rng.random()
            if c < 0.22:
                k = rng.choice([0, 0, 0, 1, 2, 4])
                steps.append(['setdepth', x, k])
                ser[x] = k
                if rng.random() < 0.3:          # ... and back
                    k2 = rng.choice([0, 1, 3])
                    steps.append(['setdepth', x, k2])
                    ser[x] = k2
            elif c < 0.32:
                steps.append(['fill', x, rng.choice([1, 1.5, -2])] if rng.random() < 0.5 else ['ramp', x])
            elif c < 0.38 and rows_known and n >= 1 and d:
                steps.append(['setcell', x, rng.randrange(n), rng.randrange(d), 7])
            elif c < 0.56 and free_s:
                new = free_s.pop()
                if d is None or rng.random() < 0.45:
                    lo = rng.randint(0, 2)
                    hi = lo
                else:
                    lo = rng.randint(0, d)
                    hi = rng.randint(lo, d)
                steps.append(['sslice', new, x, lo, hi])
                ser[new] = hi - lo
                if rng.random() < 0.5:
                    steps.append(['del', x])
                    del ser[x]
            elif c < 0.66 and free_s:
                new = free_s.pop()
                steps.append(['alias', new, x])
                ser[new] = d
            elif c < 0.74 and free_s:
                new = free_s.pop()
                steps.append(['rename', x, new])
                ser[new] = ser.pop(x)
            elif free_s:
                fns = list(self.FN_ANY)
                if rows_known and n >= 1:
                    fns += self.FN_ROWS
                    if d is not None and d >= 5:
                        fns.append('smooth')
                f = rng.choice(fns)
                new = x if rng.random() < 0.25 else free_s.pop()
                steps.append(['fn', f, new, x])
                ser[new] = self._fn_depth(f, d)
                if new != x and rng.random() < 0.4:
                    steps.append(['del', x])
                    del ser[x]

        grouped = rng.random() < 0.2
        if grouped:
            key = add_plain('key')
            for _ in range(rng.randint(1, 2)):
                add_plain(rng.choice(['int', 'float']))
            if rng.random() < 0.3:
                add_plain('str')
            c = rng.random()
            if c < 0.45:
                steps.append(['select', key, 'eq', 'zzz'])          # an empty selection
            elif c < 0.6:
                steps.append(['select', key, 'ne', 'a'])
            elif c < 0.7:
                steps.append(['rows', 'empty'])
            steps.append(['group', [key]])
            for nm in list(plain):
                if nm != key:
                    ser[nm] = None
                    del plain[nm]
        else:
            todo = ['p'] * rng.choice([0, 1, 1, 2, 2, 3]) + ['s'] * rng.choice([1, 1, 1, 1, 2])
            rng.shuffle(todo)
            for t in todo:
                if t == 'p':
                    add_plain()
                else:
                    nm = free_s.pop()
                    d = rng.choice([0, 0, 0, 1, 1, 2, 3, 5, 6])
                    steps.append(['series', nm, d, rng.random() < 0.7])
                    ser[nm] = d
                    if d and rng.random() < 0.5:
                        steps.append(['ramp', nm])
        for _ in range(rng.choice([0, 0, 1, 1, 2, 3])):
            if ser:
                history(not grouped)
        for _ in range(rng.choice([0, 0, 1, 1, 2])):
            c = rng.random()
            if c < 0.3:
                steps.append(['rows', rng.choice(['rev', 'tail', 'empty', 'dup'])])
            elif c < 0.4:
                steps.append(['stack'])
            elif c < 0.55:
                steps.append(['unsorted'])
            elif c < 0.68:
                steps.append(['length', rng.choice([-1, 1, 2, -9])])
            elif c < 0.78 and plain:
                steps.append(['sort', rng.choice(sorted(plain))])
            elif c < 0.88:
                steps.append(['copy'])
            elif plain:
                nm = rng.choice(sorted(plain))
                steps.append(['select', nm, rng.choice(['eq', 'ne']), self.STYLES[plain[nm]](rng.randrange(3))])
            elif ser:
                steps.append(['keep', sorted(ser)[:1]])
        if ser and rng.random() < 0.35:
            history(False)
        if rng.random() < 0.18:
            steps.append(['resolve', rng.choice(['del', 'reduce'])])
        return {'kind': 'series', 'rows': n, 'steps': steps, 'delim': delim, 'quote': quote}

    def _fixed_series(self):
        """Series columns of every shape next to plain columns in every position; every dialect at least once."""
        out = []
        k = 0

        def case(rows, steps):
            nonlocal k
            delim, quote = DIALECTS[k % len(DIALECTS)]
            k += 1
            out.append({'kind': 'series', 'rows': rows, 'steps': steps, 'delim': delim, 'quote': quote})
        P = lambda nm, style='int', typ='mixed': ['plain', nm, style, typ]      # noqa: E731
        for depth in (0, 1, 3):
            for rows in (0, 2):
                for dn in (True, False):
                    case(rows, [['series', 's', depth, dn]])                                     # alone
                case(rows, [P('a'), ['series', 's', depth, True]])                             # last
                case(rows, [['series', 'S', depth, True], P('a'), P('t', 'str')])                # first
                case(rows, [P('a'), ['series', 'm', depth, False], P('t', 'str'), P('z', 'float', 'float')])   # middle
        for rows in (0, 1, 3):
            case(rows, [P('a'), ['series', 's', 3, True], ['ramp', 's'], ['setdepth', 's', 0]])
            case(rows, [P('a'), ['series', 's', 3, True], ['setdepth', 's', 0], ['setdepth', 's', 2]])
            case(rows, [P('a'), ['series', 's', 0, True], ['setdepth', 's', 2], ['setdepth', 's', 0]])
            case(rows, [P('a'), ['series', 's', 4, True], ['fill', 's', 1], ['sslice', 'e', 's', 0, 0], ['del', 's']])
            case(rows, [['series', 's', 4, True], ['sslice', 'e', 's', 1, 3], ['del', 's'], P('a', 'str')])
            case(rows, [P('a'), ['series', 's', 0, True], ['alias', 't', 's']])
            case(rows, [P('a'), ['series', 's', 2, True], ['alias', 'A', 's'], ['del', 's']])
            case(rows, [P('a'), ['series', 's', 0, True], ['rename', 's', 'A']])
            case(rows, [P('k', 'key'), P('v'), ['group', ['k']]])
            case(rows, [P('k', 'key'), P('v'), P('w', 'float', 'float'), ['select', 'k', 'eq', 'zzz'], ['group', ['k']]])
            case(rows, [P('a'), ['series', 's', 2, True], ['fn', 'window0', 'w', 's'], ['del', 's']])
            case(rows, [P('a'), ['series', 's', 1, True], ['fn', 'downsample', 'w', 's'], ['del', 's']] if rows else
                 [P('a'), ['series', 's', 1, True], ['fn', 'arith', 'w', 's'], ['del', 's']])
            case(rows, [P('a'), ['series', 's', 0, True], ['resolve', 'del']])
            case(rows, [P('a'), ['series', 's', 0, True], ['series', 'u', 2, True], ['resolve', 'reduce']])
            case(rows, [P('a'), ['series', 's', 0, True], ['unsorted'], ['rows', 'rev']])
            case(rows, [P('a'), ['series', 's', 2, True], ['stack'], ['setdepth', 's', 0]])
            case(rows, [P('a'), ['series', 's', 0, True], ['length', 2], ['copy']])
        return out

    def _fixed_empty(self):
        """Tables without data rows and files none of whose records reaches the last column(s), for EVERY
        delimiter / quote pair x line ending x BOM (QUOTE_MINIMAL and QUOTE_ALL alternating; the header-only file also
        with its last line end stripped)."""
        out = []
        nq = 0
        for delim, quote in DIALECTS:
            nq += 1
            # written tables of zero rows (one and several columns, sorted or not)
            for k, nm in enumerate((['a'], ['b', 'a'], ['λ', '名前', 'B'])):
                for srt in (True, False):
                    out.append({'kind': 'rt', 'delim': delim, 'quote': quote, 'order': 'asis', 'perm': [], 'sorted': srt,
                                'cols': [{'name': x, 'type': ['mixed', 'float', 'int'][(k + j) % 3], 'cells': []}
                                         for j, x in enumerate(nm)]})
            # ... reached through an empty selection / deletion of the rows of a table that had some
            out.append({'kind': 'series', 'rows': 3, 'delim': delim, 'quote': quote,
                        'steps': [['plain', 'k', 'key', 'mixed'], ['plain', 'v', 'float', 'float'],
                                  ['select', 'k', 'eq', 'zzz']]})
            out.append({'kind': 'series', 'rows': 2, 'delim': delim, 'quote': quote,
                        'steps': [['plain', 'x', 'str', 'mixed'], ['plain', 'B', 'int', 'int'], ['length', -9]]})
            for nl in ['\n', '\r\n', '\r']:
                for bom in [False, True]:
                    nq += 1
                    for quoting in [['minimal', 'all'][nq % 2]]:
                        base = {'kind': 'file', 'delim': delim, 'quote': quote, 'nl': nl, 'bom': bom, 'quoting': quoting}
                        # header only
                        for strip in (False, True):
                            out.append(dict(base, hdr=['a', 'b', 'c'] if quoting == 'all' else ['x1'], recs=[],
                                            strip_last=strip))
                        # every record short: the last column / the last two columns exist only in the header
                        out.append(dict(base, hdr=['a', 'b', 'c'], recs=[['1', 'x' + delim], ['2'], [], ['', quote]],
                                        strip_last=bom))
                        out.append(dict(base, hdr=['b', 'a', 'λ'], recs=[['7']], strip_last=not bom))
                        out.append(dict(base, hdr=['a', 'b'], recs=[[], []], strip_last=False))
        return out

    def _fixed(self):
        """A few deterministic cases that every run contains."""
        out = []
        enc = pyobs.enc
        for delim, quote in DIALECTS:
            strs = STRS + [delim, quote, quote + quote, 'a' + delim + 'b', quote + 'q' + quote, 'x' + quote]
            out.append({'kind': 'rt', 'delim': delim, 'quote': quote, 'order': 'asis', 'perm': [], 'sorted': True,
                        'cols': [{'name': 's', 'type': 'mixed', 'cells': [enc(s) for s in strs]}]})
            out.append({'kind': 'rt', 'delim': delim, 'quote': quote, 'order': 'reversed', 'perm': [], 'sorted': False,
                        'cols': [{'name': 'z', 'type': 'mixed', 'cells': [enc(f) for f in FLOATS]},
                                 {'name': 'f', 'type': 'float', 'cells': [enc(f) for f in FLOATS]},
                                 {'name': 'i', 'type': 'int', 'cells': [enc(INTS[k % len(INTS)]) for k in range(len(FLOATS))]},
                                 {'name': 'm', 'type': 'mixed',
                                  'cells': [enc((INTS + [None])[k % (len(INTS) + 1)]) for k in range(len(FLOATS))]}]})
        for nm in (['a'], ['b', 'a'], ['λ', '名前', 'B']):
            out.append({'kind': 'rt', 'delim': ',', 'quote': '"', 'order': 'asis', 'perm': [], 'sorted': True,
                        'cols': [{'name': x, 'type': 'mixed', 'cells': []} for x in nm]})
        for nl in ['\n', '\r\n', '\r']:
            for bom in [False, True]:
                for quoting in ['minimal', 'all']:
                    out.append({'kind': 'file', 'delim': ',', 'quote': '"', 'hdr': ['a', 'b'],
                                'recs': [['1', 'x'], [], ['2'], ['3', 'y', 'z'], [''], ['q"r', 'u,v'], [' 7 ', '1e3']],
                                'nl': nl, 'bom': bom, 'quoting': quoting, 'strip_last': bom})
        for text in ['', '\n', BOM, 'a', 'a,a\n1,2\n', ',\n1,2\n', '"a\nb', 'a\r\rb', 'a"b"\n"c"d,"e""f"g\n', '"', '\r',
                     BOM + '"a",b\n1,2', 'a,b\r\n1,2\r\n']:
            out.append({'kind': 'raw', 'delim': ',', 'quote': '"', 'text': text})
        return out

    def generate(self, rng, tier):
        thorough = tier == 'thorough'
        total = 9000 if thorough else 1600
        maxrows = 12 if thorough else 6
        os.makedirs(WORK, exist_ok=True)
        self._dir = tempfile.mkdtemp(prefix='c16-', dir=WORK)
        cases = []
        try:
            inputs = self._fixed() + self._fixed_series() + self._fixed_empty() + self._fixed_hist()
            for k in range(8 if thorough else 6):
                inputs.append({'kind': 'series', 'depth': rng.randint(0, 5), 'rows': k % 4, 'extra_cols': k % 3})
            while len(inputs) < total:
                c = rng.random()
                if c < 0.57:
                    inputs.append(self.gen_rt(rng, maxrows))
                elif c < 0.65:
                    inputs.append(self.gen_hist(rng))
                elif c < 0.83:
                    inp = self.gen_file(rng, maxrows)
                    if self.render_file(inp) is not None:
                        inputs.append(inp)
                elif c < 0.92:
                    inputs.append(self.gen_series(rng))
                else:
                    inputs.append(self.gen_raw(rng))
            for inp in inputs:
                c = self.rerun(inp)
                if c is not None:
                    cases.append(c)
        finally:
            shutil.rmtree(self._dir, ignore_errors=True)
            self._dir = None
        return cases

    # ---- shrinking -------------------------------------------------------------
    def shrink_candidates(self, inp):
        kind = inp.get('kind')
        out = []

        def clone():
            return json.loads(json.dumps(inp))
        if kind == 'rt':
            n = len(inp['cols'][0]['cells'])
            if inp.get('order', 'asis') != 'asis' or not inp.get('sorted', True):
                c = clone()
                c.update(order='asis', perm=[], sorted=True)
                out.append(c)
            for i in range(n):
                c = clone()
                c.update(order='asis', perm=[])
                for col in c['cols']:
                    del col['cells'][i]
                out.append(c)
            if len(inp['cols']) > 1:
                for j in range(len(inp['cols'])):
                    c = clone()
                    del c['cols'][j]
                    out.append(c)
            for j, col in enumerate(inp['cols']):
                for i, cell in enumerate(col['cells']):
                    for repl in ([pyobs.enc(0)] + ([pyobs.enc('a')] if col['type'] == 'mixed' else [])):
                        if cell != repl and cell != pyobs.enc('a'):
                            c = clone()
                            c['cols'][j]['cells'][i] = repl
                            out.append(c)
            if (inp['delim'], inp['quote']) != (',', '"'):
                c = clone()
                c.update(delim=',', quote='"')
                out.append(c)
        elif kind == 'file':
            for i in range(len(inp['recs'])):
                c = clone()
                del c['recs'][i]
                out.append(c)
            for i, r in enumerate(inp['recs']):
                for j in range(len(r)):
                    c = clone()
                    del c['recs'][i][j]
                    out.append(c)
            if len(inp['hdr']) > 1:
                c = clone()
                del c['hdr'][-1]
                out.append(c)
            for k, v in (('bom', False), ('strip_last', False), ('quoting', 'minimal'), ('nl', '\n')):
                if inp[k] != v:
                    c = clone()
                    c[k] = v
                    out.append(c)
            for i, r in enumerate(inp['recs']):
                for j, f in enumerate(r):
                    if f not in ('a', ''):
                        c = clone()
                        c['recs'][i][j] = 'a'
                        out.append(c)
        elif kind in ('series', 'hist') and 'steps' in inp:
            for i in range(len(inp['steps']) - 1, -1, -1):      # an ill-formed candidate is judged neutral, not failing
                c = clone()
                del c['steps'][i]
                out.append(c)
            for r in (0, 1):
                if inp['rows'] > r:
                    c = clone()
                    c['rows'] = r
                    out.append(c)
            if (inp['delim'], inp['quote']) != (',', '"'):
                c = clone()
                c.update(delim=',', quote='"')
                out.append(c)
        elif kind == 'raw':
            t = inp['text']
            for i in range(len(t)):
                c = clone()
                c['text'] = t[:i] + t[i + 1:]
                out.append(c)
        return out

    def key(self, case):
        i = case['input']
        tags = case.get('tags', [])
        kind = i.get('kind')
        if kind == 'rt':
            return 'rt delim=%r quote=%r types=%s cell-classes=%s names=%s' % (
                i['delim'], i['quote'], ','.join(sorted({c['type'] for c in i['cols']})),
                ','.join(t[5:] for t in tags if t.startswith('cell:')),
                ','.join(t[5:] for t in tags if t.startswith('name:')))
        if kind == 'file':
            return 'file delim=%r quote=%r nl=%s bom=%s quoting=%s shape=%s' % (
                i['delim'], i['quote'], NL_NAME.get(i['nl']), i['bom'], i['quoting'],
                ','.join(t for t in tags if t in ('short-row', 'long-row', 'blank-line', 'strip-last', 'lf-in-field',
                                                   'numeric-text', 'no-records', 'all-short')))
        if kind == 'raw':
            return 'raw delim=%r quote=%r outcome=%s' % (i['delim'], i['quote'], tags[-1] if tags else '?')
        if kind == 'hist':
            return 'hist delim=%r quote=%r ops=%s shape=%s names=%s' % (
                i['delim'], i['quote'], ','.join(sorted(t[3:] for t in tags if t.startswith('op:'))),
                ','.join(t for t in tags if t.startswith(('rows', 'ncols', 'build-', 'no-', 'non-'))
                         and not t.startswith('rows0:')),
                ','.join(t[5:] for t in tags if t.startswith('name:')))
        if kind == 'series':
            if 'steps' not in i:
                return 'series depth=%s rows=%s extra_cols=%s' % (i['depth'], i['rows'], i['extra_cols'])
            return 'series delim=%r quote=%r ops=%s shape=%s' % (
                i['delim'], i['quote'], ','.join(sorted(t[3:] for t in tags if t.startswith('op:'))),
                ','.join(t for t in tags if t.startswith(('depth', 'series-', 'rows', 'nseries', 'build-', 'no-', 'non-'))
                         and not t.startswith('rows0:')))
        return 'corpus ' + json.dumps(i, sort_keys=True, default=str)[:200]


PROP = C16()
