"""Profiles of the state-machine properties that share the history machinery (HistProp)."""
import random
import warnings

import coqlit as L
import histgen
import pyobs
import world
from histprop import HistProp

CORE_TRUST = [
    'Coq 8.16.1 kernel (coqc; vm_compute for evaluating cases; no native_compute)',
    'harness/world.py + harness/sworld.py (runners, object-graph dumpers, audits A1-A2, probes), harness/histgen.py, '
    'Run/SCore.v, Run/SSeries.v',
    'Spec/Table.v, Spec/Ops.v: hand-written positional reference model; Model/LTable.v: inv_b and abs evaluated on dumps',
    'Spec/SeriesEnc.v: a SeriesColumn of depth d is read as d FloatColumn pseudo-columns name#j; the series operations '
    'are finite sequences of alphabet operations (expand); tables with series columns are compared up to name order',
]
CORE_ASSUME = [
    'a share of the histories runs on tables with SeriesColumns (creation, row / slice / index-list / selection / Row '
    'writes of scalars, series, per-row numbers and matrices, (row, sample) writes, depth changes, rename, delete, '
    'copy / alias) through the pseudo-column encoding; values there are numbers (malformed shapes must be refused, '
    'exception class not judged); relatives whose series depths differ are not merged (NumPy refuses; out of model)',
    'random operations take the permutation the implementation produced as an oracle argument, validated in Coq',
    'the theorems are about the L0 model; the implementation is tied to it by the per-step correspondence '
    '(inv_b on every dumped object graph, abs(dump) = Spec.step) on the explored histories only',
]


def W(**kw):
    w = {k: 0 for k in histgen.DEFAULT_WEIGHTS}
    w.update(kw)
    return w


def series_payload_probes(rng, n, prop_kind):
    """Series payload columns are outside the Coq alphabet; these Python-side probes keep a SeriesColumn whose row i
    holds the unique payload of row i next to Mixed/Float/Int columns and check that every deriving / mutating
    operation keeps the series cells with their rows (C01), writes exactly the addressed samples (C04) and resizes
    them with the table (C07)."""
    world._imports()
    from datamatrix import DataMatrix, FloatColumn, IntColumn, SeriesColumn, operations as ops
    import numpy as np
    out = []
    for k in range(n):
        sub = random.Random(rng.randrange(1 << 30))
        random.seed(sub.randrange(1 << 30))
        problem = None
        trail = []
        with warnings.catch_warnings():
            warnings.simplefilter('ignore')
            try:
                m = sub.randint(3, 9)
                dm = DataMatrix(length=m)
                dm.u = IntColumn
                dm.u = list(range(1, m + 1))
                dm.a = [sub.choice(['x', 'y', 1, 2.5, None]) for _ in range(m)]
                dm.s = SeriesColumn(depth=3)
                for i in range(m):
                    dm.s[i] = [i + 1, (i + 1) * 10, np.nan]

                def consistent(t):
                    for i in range(len(t)):
                        u = t.u[i]
                        row = t.s[i]
                        if u == 0:      # a row appended by a resize / a concatenation default
                            if not all((x == 0) or (x != x) for x in row):
                                return 'default row %d holds series %r' % (i, list(row))
                        elif not (row[0] == u and row[1] == u * 10 and row[2] != row[2]):
                            return 'row with payload %r holds series %r' % (u, list(row))
                    if t.s.dm is not t or len(t.s) != len(t):
                        return 'series column detached or of wrong length'
                    return None
                cur = dm
                for _step in range(sub.randint(2, 6)):
                    op = sub.choice(['select', 'sort', 'shuffle', 'slice', 'rows', 'merge', 'delrow', 'grow', 'shrink',
                                     'concat', 'sample'] if prop_kind != 'C04' else ['select', 'sort', 'shuffle', 'slice'])
                    trail.append(op)
                    n_ = len(cur)
                    if op == 'select':
                        cur = cur.u >= sub.randint(0, 4)
                    elif op == 'sort':
                        cur = ops.sort(cur, by=cur.a)
                    elif op == 'shuffle':
                        cur = ops.shuffle(cur)
                    elif op == 'sample':
                        cur = ops.random_sample(cur, sub.randint(0, n_))
                    elif op == 'slice':
                        cur = cur[sub.randint(0, 2):]
                    elif op == 'rows' and n_:
                        cur = cur[sub.sample(range(n_), sub.randint(1, n_))]
                    elif op == 'merge':
                        other = cur.u != sub.randint(1, 5)
                        cur = sub.choice([lambda: cur & other, lambda: cur | other, lambda: other | cur, lambda: cur ^ other])()
                    elif op == 'delrow' and n_:
                        del cur[sub.randrange(n_)]
                    elif op == 'grow':
                        cur.length = n_ + sub.randint(1, 2)
                    elif op == 'shrink' and n_:
                        cur.length = sub.randint(0, n_ - 1)
                    elif op == 'concat':
                        cur = cur << cur[:2]
                    problem = consistent(cur)
                    if problem:
                        break
                if problem is None and prop_kind == 'C04' and len(cur):
                    before = np.array(cur.s._seq, copy=True)
                    ubefore = list(cur.u)
                    i = sub.randrange(len(cur))
                    form = sub.choice(['sample', 'row', 'slice', 'sel', 'list_series', 'sel_series'])
                    trail.append('write:' + form)
                    want = before.copy()
                    if form == 'sample':
                        j = sub.randrange(3)
                        cur.s[i, j] = 7.5
                        want[i, j] = 7.5
                    elif form == 'row':
                        cur.s[i] = [4, 5, 6]
                        want[i] = [4, 5, 6]
                    elif form == 'slice':
                        cur.s[i:] = 9
                        want[i:] = 9
                    elif form == 'list_series':
                        # one depth-long series for several rows: every addressed row receives the whole series
                        rows_ = sorted(set([i, sub.randrange(len(cur))]))
                        cur.s[rows_] = [1.5, 2.5, 3.5]
                        want[rows_] = [1.5, 2.5, 3.5]
                    elif form == 'sel_series':
                        sel = cur.u >= cur.u[i]
                        hit = [r for r in range(len(cur)) if cur.u[r] >= cur.u[i]]
                        if len(hit) == 3:
                            # as many rows as samples: the value is documented to mean one number per row
                            sel = cur.u == cur.u[i]
                            hit = [r for r in range(len(cur)) if cur.u[r] == cur.u[i]]
                        if len(hit) != 3:
                            cur.s[sel] = [1.5, 2.5, 3.5]
                            want[hit] = [1.5, 2.5, 3.5]
                    else:
                        sel = cur.u == cur.u[i]
                        cur.s[sel] = 8
                        want[[r for r in range(len(cur)) if cur.u[r] == cur.u[i]]] = 8
                    got = np.array(cur.s._seq)
                    same = (got == want) | (np.isnan(got) & np.isnan(want))
                    if not same.all() or list(cur.u) != ubefore:
                        problem = 'series write (%s at row %d) changed %r, expected %r' % (form, i, got.tolist(), want.tolist())
                if problem is None and consistent(dm):
                    problem = 'the source table changed: ' + consistent(dm)
            except Exception as e:      # noqa: BLE001
                problem = 'raised %r' % (e,)
        if problem:
            problem = 'series payload after %s: %s' % ('/'.join(trail), problem)
        out.append({'input': {'probe': 'series_payload', 'seed': k}, 'observed': {'problem': problem, 'ops': trail},
                    'pyfail': problem, 'oracle': 'true', 'model': 'true', 'nontrivial': True,
                    'sig': 'probe|series|%d' % k, 'tags': ['probe', 'probe:series_payload']})
    return out


def series_default_probes(rng, n):
    """C07 for series columns of either default: rows appended by a resize hold the column's own empty value in every
    sample (NaN, or 0 for defaultnan=False), the first rows stay, also after the depth was changed and on derived tables."""
    world._imports()
    from datamatrix import DataMatrix, SeriesColumn, operations as ops
    import numpy as np
    out = []
    for k in range(n):
        sub = random.Random(rng.randrange(1 << 30))
        random.seed(sub.randrange(1 << 30))
        problem = None
        trail = []
        with warnings.catch_warnings():
            warnings.simplefilter('ignore')
            try:
                m = sub.randint(2, 6)
                dnan = sub.random() < 0.5
                d0 = sub.randint(1, 4)
                dm = DataMatrix(length=m)
                dm.u = list(range(1, m + 1))
                dm.s = SeriesColumn(depth=d0, defaultnan=dnan)
                for i in range(m):
                    dm.s[i] = [float(i + 1)] * d0
                cur = dm
                for _ in range(sub.randint(0, 3)):
                    op = sub.choice(['select', 'sort', 'shuffle', 'depth', 'slice'])
                    trail.append(op)
                    if op == 'select':
                        cur = cur.u >= sub.randint(0, 2)
                    elif op == 'sort':
                        cur = ops.sort(cur, by=cur.u)
                    elif op == 'shuffle':
                        cur = ops.shuffle(cur)
                    elif op == 'slice':
                        cur = cur[sub.randint(0, 1):]
                    else:
                        cur.s.depth = sub.randint(1, 5)
                n0 = len(cur)
                before = np.array(cur.s._seq, copy=True)
                extra = sub.randint(1, 3)
                cur.length = n0 + extra
                trail.append('grow')
                got = np.array(cur.s._seq)
                if got.shape != (n0 + extra, before.shape[1]):
                    problem = 'shape %r after growing %r by %d rows' % (got.shape, before.shape, extra)
                elif not np.array_equal(got[:n0], before, equal_nan=True):
                    problem = 'the first rows changed: %r -> %r' % (before.tolist(), got[:n0].tolist())
                elif dnan and not np.isnan(got[n0:]).all():
                    problem = 'appended rows of a NaN-default series hold %r' % (got[n0:].tolist(),)
                elif not dnan and not (got[n0:] == 0).all():
                    problem = 'appended rows of a zero-default series hold %r' % (got[n0:].tolist(),)
                elif cur.s.dm is not cur or len(cur.s) != len(cur):
                    problem = 'series column detached or of wrong length after the resize'
            except Exception as e:      # noqa: BLE001
                problem = 'raised %r' % (e,)
        if problem:
            problem = 'series column (defaultnan=%s) after %s: %s' % (dnan, '/'.join(trail), problem)
        out.append({'input': {'probe': 'series_default', 'seed': k}, 'observed': {'problem': problem, 'ops': trail},
                    'pyfail': problem, 'oracle': 'true', 'model': 'true', 'nontrivial': True,
                    'sig': 'probe|series_default|%d' % k, 'tags': ['probe', 'probe:series_default']})
    return out


def getitem_dispatch_probe():
    """One key of every class: the isinstance facts of the running interpreter and the operation dm[key] performed,
    judged in Coq against Model/Core.key_facts and the regenerated k_getitem_dispatch."""
    world._imports()
    from datamatrix import DataMatrix
    from datamatrix._datamatrix._basecolumn import BaseColumn
    from datamatrix._datamatrix._row import Row
    try:
        from collections.abc import Sequence
    except ImportError:
        from collections import Sequence
    obs = []
    problem = None
    with warnings.catch_warnings():
        warnings.simplefilter('ignore')
        dm = DataMatrix(length=3)
        dm.a = 1, 2, 3
        dm.b = 'x', 'y', 'z'
        keys = [('KeyColumn', dm.a), ('KeyStr', 'a'), ('KeyInt', 1), ('KeyBool', True), ('KeySlice', slice(0, 2)),
                ('KeyNames', ['a', dm.b]), ('KeyEmptySeq', []), ('KeyInts', [0, 2]), ('KeyOther', 2.5), ('KeyOther', None)]
        for cls, key in keys:
            facts = (isinstance(key, BaseColumn), isinstance(key, str), isinstance(key, int), isinstance(key, slice),
                     isinstance(key, Sequence),
                     bool(isinstance(key, Sequence) and all(isinstance(v, (str, BaseColumn)) for v in key)))
            try:
                r = dm[key]
                if isinstance(r, BaseColumn):
                    d = 0 if cls == 'KeyColumn' else 1
                    if r is not dm._cols['a']:
                        problem = 'dm[%s key] returned another column' % cls
                elif isinstance(r, Row):
                    d = 2
                elif isinstance(r, DataMatrix):
                    if list(r.column_names) != ['a', 'b']:
                        d = 4 if len(r) == 3 else -1
                    else:
                        d = 3 if isinstance(key, slice) else (4 if (len(r) == 3 and cls == 'KeyNames') else 5)
                else:
                    d = -1
            except KeyError:
                d = 6
            except Exception as e:      # noqa: BLE001
                d = -2
                problem = 'dm[%s key] raised %r' % (cls, e)
            obs.append('(%s, (%s), %s)' % (cls, ', '.join(L.boolean(f) for f in facts), L.z(d)))
    import coqlit as L2
    return {'input': {'probe': 'getitem_dispatch', 'seed': 0}, 'observed': {'problem': problem, 'obs': obs},
            'pyfail': problem, 'oracle': 'true', 'model': '(getitem_ok %s)' % L2.lst(obs), 'nontrivial': True,
            'sig': 'probe|getitem_dispatch', 'tags': ['probe', 'probe:getitem_dispatch']}


class ProbeMixin:
    """Direct Python-side probes next to the histories: cases whose input has a 'probe' key."""

    def rerun(self, inp):
        if 'probe' in inp:
            cases = [c for c in self.direct_probes(random.Random(inp.get('seed', 0)), 80) if c['input']['probe'] == inp['probe']]
            bad = [c for c in cases if c['pyfail']]
            return (bad or cases or [None])[0]
        return HistProp.rerun(self, inp)

    def key(self, case):
        if 'probe' in case['input']:
            return 'probe ' + case['input']['probe']
        return HistProp.key(self, case)

    def shrink_candidates(self, inp):
        if 'probe' in inp:
            return []
        return HistProp.shrink_candidates(self, inp)


class C03(ProbeMixin, HistProp):
    id = 'C03'
    props_file = 'theories/Props/C03.v'
    series_share = 0.1
    weights = W(select=10, slice=6, getrows=3, sort=6, shuffle=6, sample=2, setcell=8, merge=24, new=1, setcol=2,
                setcolkind=1, setlength=1, concat=1, setcolfromcol=3, setcolfromslice=1)
    gen_kw = {'max_pool': 10, 'max_rows': 30, 'bad_rate': 0.06}
    big_first = True
    n_quick = 300
    steps_quick = (14, 26)
    rule = ('relatives histories: one source of 9-30 rows (well above 8, where set iteration order of row ids stops '
            'coinciding with numeric order) with Mixed/Float/Int columns, chains of selections, slices, sorts, shuffles '
            'and cell assignments produce relatives holding different values for the same rows; & | ^ on pairs '
            '(~40% of the steps), unrelated operands and unrelated col[dm] for the exception clause; every result is '
            'dumped and compared in Coq with Spec.step (ids ascending, left-biased cells, all columns), operands via '
            'the frame check; non-trivial = at least two state-changing steps; distinct by (ops, seed)')
    trusted_base = CORE_TRUST
    assumptions = CORE_ASSUME + ['operands that name a row twice (index lists with a repeated index) are outside the Coq '
                                 'model (duplicate row ids); the each-row-once / commutative-membership clauses are '
                                 'probed for them on the Python side']

    def generate(self, rng, tier):
        return super().generate(rng, tier) + self.direct_probes(rng, 40 if tier == 'quick' else 400)

    def direct_probes(self, rng, n):
        """Relatives that name a row twice (dm[[9, 2, 5, 5, 12]]): the merged table still holds each row once, in
        row-creation order, and membership is commutative; empty relatives are neutral / absorbing."""
        world._imports()
        from datamatrix import DataMatrix, FloatColumn
        out = []
        for k in range(n):
            sub = random.Random(rng.randrange(1 << 30))
            problem = None
            with warnings.catch_warnings():
                warnings.simplefilter('ignore')
                try:
                    m = sub.randint(9, 16)
                    dm = DataMatrix(length=m)
                    dm.a = ['r%d' % i for i in range(m)]
                    dm.f = FloatColumn
                    dm.f = list(range(m))
                    la = [sub.randrange(m) for _ in range(sub.randint(2, 6))]
                    la.insert(sub.randrange(len(la) + 1), sub.choice(la))          # one index twice
                    lb = sub.sample(range(m), sub.randint(0, 6))
                    a, b = dm[la], (dm[lb] if lb else dm[:0])      # dm[[]] is a column selection (see DESIGN I.5)
                    if sub.random() < 0.3:
                        b = dm.f < 0                                                # an empty relative (a comparison)
                        lb = []
                    ops_ = {'|': (lambda x, y: x | y, set(la) | set(lb)), '&': (lambda x, y: x & y, set(la) & set(lb)),
                            '^': (lambda x, y: x ^ y, set(la) ^ set(lb))}
                    for sym, (f, want) in sorted(ops_.items()):
                        for x, y, nm in ((a, b, 'a %s b' % sym), (b, a, 'b %s a' % sym)):
                            r = f(x, y)
                            got = [int(v) for v in r.f]
                            if got != sorted(want) or list(r.a) != ['r%d' % i for i in sorted(want)]:
                                problem = problem or ('%s with a = dm[%r], b = dm[%r]: rows %r, expected each of %r once, '
                                                      'in row-creation order' % (nm, la, lb, got, sorted(want)))
                except Exception as e:      # noqa: BLE001
                    problem = 'probe raised %r' % (e,)
            out.append({'input': {'probe': 'repeated_row_operand', 'seed': k}, 'observed': {'problem': problem},
                        'pyfail': problem, 'oracle': 'true', 'model': 'true', 'nontrivial': True,
                        'sig': 'probe|repeated_row_operand|%d' % k, 'tags': ['probe', 'probe:repeated_row_operand']})
        # col[selection] as a READ: a related selection gives exactly the cells of the rows it names, in its order,
        # for every column type and row order; a relative that holds a row the column lacks raises (never the cells of
        # other rows); an unrelated table raises
        from datamatrix import IntColumn, SeriesColumn, operations as ops
        for k in range(n):
            sub = random.Random(rng.randrange(1 << 30))
            problem = None
            with warnings.catch_warnings():
                warnings.simplefilter('ignore')
                try:
                    m = sub.randint(6, 12)
                    dm = DataMatrix(length=m)
                    dm.a = ['r%d' % i for i in range(m)]
                    dm.f = FloatColumn
                    dm.f = list(range(m))
                    dm.i = IntColumn
                    dm.i = list(range(m))
                    dm.s = SeriesColumn(depth=2)
                    dm.s[:, 0] = list(range(m))
                    random.seed(sub.randrange(1 << 30))
                    base = sub.choice([dm, ops.shuffle(dm), ops.sort(dm, by=dm.a)[::-1], dm[sub.sample(range(m), m - 2)]])
                    have = [int(v) for v in base.i]
                    inside = sub.sample(have, sub.randint(0, len(have)))
                    sel = dm[inside] if inside else dm[:0]
                    other = DataMatrix(length=m)
                    other.a = 0
                    for cn in ('a', 'f', 'i', 's'):
                        col = base[cn]
                        got = col[sel]
                        vals = [int(v[0]) for v in got._seq] if cn == 's' else [int(float(str(v).lstrip('r'))) for v in got]
                        if vals != inside:
                            problem = problem or 'col %s [selection of rows %r] read rows %r (table order %r)' % (cn, inside, vals, have)
                        lack = [i for i in range(m) if i not in have]
                        if lack:
                            bad = dm[[lack[0]] + inside[:2]]
                            try:
                                r = col[bad]
                                problem = problem or ('col %s [relative holding row %d, which the column lacks] returned %r instead of raising'
                                                      % (cn, lack[0], list(r) if cn != 's' else r._seq.tolist()))
                            except (KeyError, IndexError, ValueError):
                                pass
                        try:
                            col[other]
                            problem = problem or 'col %s [unrelated table] did not raise' % cn
                        except Exception:       # noqa: BLE001
                            pass
                except Exception as e:      # noqa: BLE001
                    problem = 'probe raised %r' % (e,)
            out.append({'input': {'probe': 'selection_read', 'seed': k}, 'observed': {'problem': problem},
                        'pyfail': problem, 'oracle': 'true', 'model': 'true', 'nontrivial': True,
                        'sig': 'probe|selection_read|%d' % k, 'tags': ['probe', 'probe:selection_read']})
        return out


class C04(ProbeMixin, HistProp):
    id = 'C04'
    props_file = 'theories/Props/C04.v'
    series_share = 0.3
    p_series = 0.5
    weights = W(setcell=30, select=7, merge=3, slice=3, getrows=2, sort=4, shuffle=4, setlength=4, concat=3, setcol=4,
                setcolkind=3, new=1, delrows=2, setcolfromslice=4, setcolfromcol=2)
    gen_kw = {'bad_rate': 0.12}
    rule = ('assignment-heavy histories (~40% cell assignments through int / slice / index list / selection / Row '
            'addressing, scalar and sequence values, 12% malformed: wrong lengths, out-of-range indices, unrelated '
            'selections, unconvertible values) on tables reached by prior selections, merges, sorts, shuffles, resizes '
            'and concatenations; full table diff against Spec.step after every write and all other pool members via '
            'the frame check; distinct by (ops, seed)')
    trusted_base = CORE_TRUST
    assumptions = CORE_ASSUME + ['Series payloads: (row, sample) / row / slice / selection writes are probed on the Python side']

    def generate(self, rng, tier):
        return super().generate(rng, tier) + self.direct_probes(rng, 60 if tier == 'quick' else 600)

    def direct_probes(self, rng, n):
        return series_payload_probes(rng, n, 'C04')


class C06(ProbeMixin, HistProp):
    id = 'C06'
    props_file = 'theories/Props/C06.v'
    series_share = 0.25
    weights = W(select=6, merge=5, slice=6, getrows=3, sort=5, shuffle=5, sample=3, concat=5, setcolfromcol=6,
                setcell=14, setcol=6, setlength=6, rename=4, delcol=3, delrows=4, setcolkind=3, new=1, setcolfromslice=4)
    rule = ('derive-then-mutate histories: every deriving operator of the alphabet (slice, selection, merge, sort, '
            'shuffle, sample, concatenation, column copy / deliberate alias) followed by mutations (cell and column '
            'assignment, resize, rename, delete) of either the source or the derived object; after every step every '
            'pool member whose dump changed is compared with Spec.step (so a change leaking into a non-target shows), '
            'plus audits on the implementation: A1 no pre-existing row-id object is mutated in place, A2 no column '
            'object, cell storage or buffer is shared between two DataMatrix objects / columns; the owner pointer and '
            'name of every column are probed after every step. keep_only/setcol/map_/filter_/arithmetic/replace/'
            'unpickling are covered by the extra direct probes of this module')
    trusted_base = CORE_TRUST
    assumptions = CORE_ASSUME + ['cross-object sharing is outside a by-value model: theorem = frame property of the '
                                 'model; implementation side = audits A1-A2 and mutation probes']

    def generate(self, rng, tier):
        cases = super().generate(rng, tier)
        cases.extend(self.direct_probes(rng, 200 if tier == 'quick' else 1500))
        return cases

    def direct_probes(self, rng, n):
        """Deriving functions that are not in the Coq alphabet: derive, mutate either side, compare snapshots."""
        world._imports()
        from datamatrix import DataMatrix, FloatColumn, IntColumn, SeriesColumn, operations as ops, functional as fnc
        import pickle
        import numpy as np
        out = []
        derivers = {
            'keep_only': lambda dm: ops.keep_only(dm, 'a', 's'),
            'getitem_names': lambda dm: dm['a', 'f'],
            'setcol_value': lambda dm: fnc.setcol(dm, 'z', 5),
            'setcol_column': lambda dm: fnc.setcol(dm, 'z', dm.a),
            'map_': lambda dm: fnc.map_(lambda **d: {'a': d['a']}, dm[('a', 'f', 'i')]),
            'filter_': lambda dm: fnc.filter_(lambda **d: True, dm),
            'map_col': lambda dm: fnc.map_(lambda x: x, dm.a),
            'map_col_float': lambda dm: fnc.map_(lambda x: x + 1, dm.f),
            'filter_col': lambda dm: fnc.filter_(lambda x: True, dm.i),
            'replace': lambda dm: ops.replace(dm.f, {1.0: 9.0}),
            'arith': lambda dm: dm.f + 1,
            'arith_mixed': lambda dm: dm.a * 2,
            'unpickle': lambda dm: pickle.loads(pickle.dumps(dm)),
            'slice_all': lambda dm: dm[:],
            'sort_sorted': lambda dm: ops.sort(dm, by=dm.i),
            'select_all': lambda dm: dm.i >= 0,
            'series_slice': lambda dm: dm.s[:, 0:2],
            'series_slice_full': lambda dm: dm.s[:, :],
            'series_rows_full': lambda dm: dm.s[1:3, :],
            'series_window': lambda dm: __import__('importlib').import_module('datamatrix.series').window(dm.s),
            'series_sample': lambda dm: dm.s[:, 0],
            'replace_nohit': lambda dm: ops.replace(dm.f, {7.5: 70.0}),
            'replace_nohit_int': lambda dm: ops.replace(dm.i, {77: 70}),
            'replace_empty': lambda dm: ops.replace(dm.f, {}),
            'replace_series_nohit': lambda dm: ops.replace(dm.s, {7.5: 70.0}),
            'replace_mixed_nohit': lambda dm: ops.replace(dm.a, {'q': 'r'}),
            'col_slice': lambda dm: dm.f[1:],
            # nothing to drop: still a new table
            'keep_only_all': lambda dm: ops.keep_only(dm, *dm.column_names),
            'keep_only_all_objs': lambda dm: ops.keep_only(dm, *[c for _n, c in dm.columns]),
            'getitem_all_names': lambda dm: dm[list(dm.column_names)],
            # augmented assignment on a column object held under another Python name derives a new column
            'iadd_series': lambda dm: _aug(dm.s, '+', 1),
            'imul_series': lambda dm: _aug(dm.s, '*', 2),
            'isub_float': lambda dm: _aug(dm.f, '-', 1),
            'imul_int': lambda dm: _aug(dm.i, '*', 3),
            'iadd_mixed': lambda dm: _aug(dm.a, '+', 1),
            'idiv_series': lambda dm: _aug(dm.s, '/', 2),
            # a memoized function hands out independent objects: the value it returned and every later hit
            'memoized_hit': lambda dm: _memo_pair(dm)[1],
            'memoized_first': lambda dm: _memo_pair(dm)[0],
            'sort_already_sorted_mixed': lambda dm: ops.sort(dm, by=dm.f),
        }

        def _aug(c, o, x):
            if o == '+':
                c += x
            elif o == '-':
                c -= x
            elif o == '*':
                c *= x
            else:
                c /= x
            return c

        def _memo_pair(dm):
            calls = []

            @fnc.memoize
            def make(n):
                calls.append(n)
                return dm[:]
            r1 = make(len(dm))
            r2 = make(len(dm))
            # the two results must not be one object either: mutate the first, the second must not follow
            if len(r1):
                r1.f[0] = -55.0
                if list(r2.f)[0] == -55.0:
                    raise AssertionError('two results of a memoized function are one object')
                r1.f[0] = list(dm.f)[0]
            return r1, r2

        EMPTY_UNSUPPORTED = set()

        def snap(obj):
            if isinstance(obj, DataMatrix):
                return [(n_, type(c).__name__, c.dm is obj, np.array(c._seq, dtype=object).tolist().__repr__())
                        for n_, c in obj.columns] + [list(obj._rowid)]
            return [type(obj).__name__, np.array(obj._seq, dtype=object).tolist().__repr__(), list(obj._rowid)]

        def mutate(obj, rng_):
            cols = [c for _n, c in obj.columns] if isinstance(obj, DataMatrix) else [obj]
            for c in cols:
                if len(c) == 0:
                    continue
                i = rng_.randrange(len(c))
                if hasattr(c, 'depth'):
                    if c.depth:
                        c[i, 0] = 123.0
                else:
                    c[i] = 77
            if isinstance(obj, DataMatrix) and (rng_.random() < 0.5 or len(obj) == 0):
                obj.length = len(obj) + 1
                if rng_.random() < 0.5:
                    for c in [c for _n, c in obj.columns]:
                        if not hasattr(c, 'depth'):
                            c[-1] = 55
                if rng_.random() < 0.3:
                    obj.extra_col = 1
        for k in range(n):
            name = rng.choice(sorted(derivers))
            sub = random.Random(rng.randrange(1 << 30))
            with warnings.catch_warnings():
                warnings.simplefilter('ignore')
                dm = DataMatrix(length=4)
                dm.a = 'x', 2, 'y', 4
                dm.f = FloatColumn
                dm.f = 1, 2, 3, 4
                dm.i = IntColumn
                dm.i = 0, 1, 2, 3
                dm.s = SeriesColumn(depth=3)
                dm.s[:, :] = 1.0
                c = sub.random()
                if c < 0.4:
                    dm.s.depth = 2           # shrinking the depth turns the buffer into a view
                    dm.s.depth = 3 if sub.random() < 0.3 else 2
                elif c < 0.6:
                    dm.s.depth = 4           # growing it makes a fresh contiguous buffer
                elif c < 0.7:
                    dm.s.depth = 1
                if sub.random() < 0.3 and name not in EMPTY_UNSUPPORTED:
                    dm = dm.i > 100             # nothing to derive from: an empty selection (fast paths for `no rows`)
                problem = None
                try:
                    before_derive = snap(dm)
                    d = derivers[name](dm)
                    if snap(dm) != before_derive:
                        problem = 'deriving with %s changed the source' % name
                    if d is dm or any(d is c for _n, c in dm.columns):
                        problem = 'deriving with %s returned the source object itself' % name
                    owners_ok = all(c.dm is dm for _n, c in dm.columns) and [n_ for n_, _c in dm.columns] == ['a', 'f', 'i', 's']
                    if not owners_ok and problem is None:
                        problem = 'deriving with %s detached or renamed a column of the source' % name
                    if not isinstance(d, DataMatrix) and len(d) == len(dm) and len(dm) and sub.random() < 0.5:
                        # a derived column put into the table is a column of its own
                        dm.new = derivers[name](dm)
                        d2 = dm.new
                        before_cols = {n_: repr(np.array(c._seq, dtype=object).tolist()) for n_, c in dm.columns if n_ != 'new'}
                        if hasattr(d2, 'depth'):
                            if d2.depth:
                                d2[0, 0] = 321.0
                        else:
                            d2[0] = 88
                        after_cols = {n_: repr(np.array(c._seq, dtype=object).tolist()) for n_, c in dm.columns if n_ != 'new'}
                        if before_cols != after_cols:
                            problem = 'writing to the column made by %s and assigned to dm.new changed another column' % name
                        del dm['new']
                    side = sub.choice(['source', 'derived'])
                    before = snap(d if side == 'source' else dm)
                    mutate(dm if side == 'source' else d, sub)
                    after = snap(d if side == 'source' else dm)
                    if before != after and problem is None:
                        problem = 'mutating the %s changed the other object after %s' % (side, name)
                except Exception as e:      # noqa: BLE001
                    problem = 'probe %s raised %r' % (name, e)
            out.append({'input': {'probe': name, 'seed': k}, 'observed': {'problem': problem}, 'pyfail': problem,
                        'oracle': 'true', 'model': 'true', 'nontrivial': True, 'sig': 'probe|%s|%d' % (name, k),
                        'tags': ['probe', 'probe:' + name]})
        return out


class C07(ProbeMixin, HistProp):
    id = 'C07'
    props_file = 'theories/Props/C07.v'
    series_share = 0.35
    weights = W(setlength=26, select=8, sort=5, shuffle=5, sample=2, merge=5, concat=4, slice=3, getrows=3, setcell=10,
                setcol=4, setcolkind=4, setcolfromcol=3, delrows=2, new=1)
    rule = ('resize-heavy histories (~30% dm.length = n with shrink, no-op, grow, shrink to zero then grow) on tables '
            'produced by selection, sorting, shuffling, merging, concatenation, with two or more columns of mixed '
            'types, followed by selections, merges, assignments; the resized table is dumped and compared with '
            'Spec.step (first rows kept, default cells, fresh ids) and inv_b (ownership, caches, one cell per row) '
            'after the resize and after each later operation; Series payload columns by Python-side probes')
    trusted_base = CORE_TRUST
    assumptions = CORE_ASSUME

    def generate(self, rng, tier):
        return super().generate(rng, tier) + self.direct_probes(rng, 60 if tier == 'quick' else 600)

    def direct_probes(self, rng, n):
        return series_payload_probes(rng, n, 'C07') + series_default_probes(rng, max(20, n // 3))


class C08(HistProp):
    id = 'C08'
    props_file = 'theories/Props/C08.v'
    series_share = 0.15
    weights = W(delrows=14, delcol=8, rename=14, setsorted=5, setcolfromcol=8, setcolkind=4, setcol=4, select=6, sort=4,
                shuffle=3, merge=4, setcell=8, setlength=4, slice=2, concat=2, new=1, setcolfromslice=2)
    gen_kw = {'bad_rate': 0.15}
    rule = ('delete/rename-heavy histories (row deletion with negative and multiple positions, column deletion, '
            'rename incl. missing / existing / non-identifier names, aliased columns, dm.sorted switches) followed by '
            'selections, merges, assignments and resizes; table diff against Spec.step, exception classes, and the '
            'column_names / columns listing probed after every step')
    trusted_base = CORE_TRUST
    assumptions = CORE_ASSUME


class C09(ProbeMixin, HistProp):
    id = 'C09'
    props_file = 'theories/Props/C09.v'
    series_share = 0.25
    weights = W(concat=24, new=4, setcolkind=8, setcol=8, select=6, sort=3, shuffle=3, merge=5, setlength=6, setcell=10,
                slice=3, delrows=2, rename=2)
    gen_kw = {'max_pool': 9}
    rule = ('concatenation-heavy histories: a << b on pairs from the pool (related, unrelated, identical, empty, '
            'reordered; same-name columns of equal and of different type), then selection, merging, resizing and '
            'assignment on the result; result table vs Spec.step, operands via the frame check; plus direct probes '
            'for Row and dict operands and for Series columns of different depth (Python-side)')
    trusted_base = CORE_TRUST
    assumptions = CORE_ASSUME

    def generate(self, rng, tier):
        cases = super().generate(rng, tier)
        cases.extend(self.direct_probes(rng, 60 if tier == 'quick' else 600))
        return cases

    def direct_probes(self, rng, n):
        world._imports()
        from datamatrix import DataMatrix, FloatColumn, IntColumn, SeriesColumn, operations as ops
        import numpy as np
        out = []
        for k in range(n):
            sub = random.Random(rng.randrange(1 << 30))
            problem = None
            kind = sub.choice(['row', 'row_neg', 'row_sorted', 'dict', 'series', 'reused_row', 'dict_columns', 'series_zero',
                               'last_row_follows', 'dict_default_type'])
            with warnings.catch_warnings():
                warnings.simplefilter('ignore')
                try:
                    a = DataMatrix(length=3)
                    a.x = 1, 2, 3
                    a.y = 'p', 'q', 'r'
                    b = DataMatrix(length=4)
                    b.x = 40, 10, 30, 20
                    b.z = FloatColumn
                    b.z = 4, 1, 3, 2
                    if kind.startswith('row'):
                        src = ops.sort(b, by=b.x) if kind == 'row_sorted' else b
                        i = sub.randrange(len(src))
                        if kind == 'row_neg':
                            i -= len(src)
                        expect_x = list(src.x)[i]
                        expect_z = list(src.z)[i]
                        before = [list(a.x), list(a.y), list(src.x), list(src.z)]
                        r = a << src[i]
                        if list(r.x) != [1, 2, 3, expect_x] or list(r.y) != ['p', 'q', 'r', ''] or \
                                list(r.z)[3] != expect_z or not all(v != v for v in list(r.z)[:3]):
                            problem = 'a << row (%s, i=%d): x=%r y=%r z=%r' % (kind, i, list(r.x), list(r.y), list(r.z))
                        if before != [list(a.x), list(a.y), list(src.x), list(src.z)]:
                            problem = 'a << row changed an operand'
                    elif kind == 'reused_row':
                        # one Row object used twice, with the table it points into changed in between
                        src = ops.sort(b, by=b.x) if sub.random() < 0.5 else b
                        i = sub.randrange(len(src))
                        row = src[i]
                        r0 = a << row
                        src.x[i] = 77
                        src.z[i] = 7.5
                        r = a << row
                        if list(r.x) != [1, 2, 3, 77] or list(r.z)[3] != 7.5:
                            problem = 'a << row after the row\'s table changed: x=%r z=%r (the row reads x=%r)' % (
                                list(r.x), list(r.z), row.x)
                        if list(r0.x)[3] == 77:
                            problem = 'the earlier result of a << row changed with the source table'
                    elif kind == 'last_row_follows':
                        # dm[-1] denotes the last row: after rows before it were deleted (or the table was reordered in
                        # place) a << row still appends one row, holding what the Row itself reads at that moment
                        src = ops.sort(b, by=b.x) if sub.random() < 0.5 else b
                        row = src[-sub.randint(1, 2)]
                        r0 = a << row
                        del src[0]
                        if sub.random() < 0.5:
                            src.x[len(src) - 1] = 55
                        want = (row.x, row.z)
                        r = a << row
                        if len(r) != 4 or (list(r.x)[-1], list(r.z)[-1]) != want:
                            problem = ('a << dm[-k] after del dm[0]: %d rows, last row x=%r z=%r, the Row reads %r'
                                       % (len(r), list(r.x)[-1], list(r.z)[-1], want))
                        if len(r0) != 4:
                            problem = 'a << dm[-k] has %d rows' % len(r0)
                    elif kind == 'dict_default_type':
                        # the dict operand is a table of its own: its columns are MixedColumns whatever the default
                        # column type of the left operand; a name both have must then have the same type (TypeError)
                        dflt = sub.choice([FloatColumn, IntColumn])
                        a2 = DataMatrix(length=2, default_col_type=dflt)
                        a2.v = 1, 2
                        r = a2 << {'cond': ['easy', 'hard']}
                        if type(r.cond).__name__ != 'MixedColumn' or list(r.cond) != ['', '', 'easy', 'hard'] or \
                                [float(x) for x in list(r.v)[:2]] != [1.0, 2.0] or type(r.v) is not dflt:
                            problem = 'a << dict with default_col_type=%s on the left: cond is %s %r, v is %s %r' % (
                                dflt.__name__, type(r.cond).__name__, list(r.cond), type(r.v).__name__, list(r.v))
                        try:
                            r = a2 << {'v': [5]}
                            problem = problem or 'a << {v: ...}: a %s named v on the left and a MixedColumn on the right were accepted' % dflt.__name__
                        except TypeError:
                            pass
                    elif kind == 'dict_columns':
                        # dict values that are column objects of another table count as sequences of their cells
                        c = DataMatrix(length=2)
                        c.i = IntColumn
                        c.i = 7, 8
                        c.f = FloatColumn
                        c.f = 1.5, 2.5
                        r = a << {'x': c.i, 'w': c.f, 'y': c.i}
                        r2 = a << {'x': [7, 8], 'w': [1.5, 2.5], 'y': [7, 8]}
                        got = [(n_, type(col).__name__, list(col)) for n_, col in r.columns]
                        want = [(n_, type(col).__name__, list(col)) for n_, col in r2.columns]
                        if repr(got) != repr(want):
                            problem = 'a << dict of column objects gives %r, of their cells as lists %r' % (got, want)
                    elif kind == 'series_zero':
                        # a series column created with defaultnan=False is padded with zeros (its own empty value)
                        da, db = sub.randint(1, 3), sub.randint(1, 3)
                        a.s = SeriesColumn(depth=da, defaultnan=False)
                        a.s[:, :] = 1.0
                        b.t = SeriesColumn(depth=db, defaultnan=False)
                        b.t[:, :] = 2.0
                        r = a << b
                        ws = np.zeros((7, da))
                        ws[:3] = 1.0
                        wt = np.zeros((7, db))
                        wt[3:] = 2.0
                        if not np.array_equal(np.array(r.s._seq), ws) or not np.array_equal(np.array(r.t._seq), wt):
                            problem = 'zero-default series columns after <<: s=%r t=%r' % (r.s._seq.tolist(), r.t._seq.tolist())
                        r.length = 8
                        if not (np.array(r.s._seq)[7] == 0).all() or not (np.array(r.t._seq)[7] == 0).all():
                            problem = 'a zero-default series column grew with %r' % (np.array(r.s._seq)[7].tolist(),)
                    elif kind == 'dict':
                        r = a << {'x': [7, '8'], 'w': ['u', 2.0]}
                        if list(r.x) != [1, 2, 3, 7, 8] or list(r.w) != ['', '', '', 'u', 2] or list(r.y) != ['p', 'q', 'r', '', '']:
                            problem = 'a << dict: x=%r w=%r y=%r' % (list(r.x), list(r.w), list(r.y))
                    else:
                        da, db = sub.randint(1, 4), sub.randint(1, 4)
                        a.s = SeriesColumn(depth=da)
                        a.s[:, :] = 1.0
                        b.s = SeriesColumn(depth=db)
                        b.s[:, :] = 2.0
                        r = a << b
                        d = max(da, db)
                        want = np.full((7, d), np.nan)
                        want[:3, :da] = 1.0
                        want[3:, :db] = 2.0
                        got = np.array(r.s._seq)
                        if r.s.depth != d or got.shape != want.shape or not np.array_equal(np.isnan(got), np.isnan(want)) \
                                or not np.array_equal(np.nan_to_num(got), np.nan_to_num(want)):
                            problem = 'series depths %d << %d: depth %r, cells %r' % (da, db, r.s.depth, got.tolist())
                        if a.s.depth != da or b.s.depth != db:
                            problem = 'a << b changed the depth of an operand'
                    if problem is None and (r._id == a._id or r._id == b._id):
                        problem = 'the result of << shares its family with an operand'
                except Exception as e:      # noqa: BLE001
                    problem = 'probe %s raised %r' % (kind, e)
            out.append({'input': {'probe': kind, 'seed': k}, 'observed': {'problem': problem}, 'pyfail': problem,
                        'oracle': 'true', 'model': 'true', 'nontrivial': True, 'sig': 'probe|%s|%d' % (kind, k),
                        'tags': ['probe', 'probe:' + kind]})
        return out



class C11(ProbeMixin, HistProp):
    id = 'C11'
    props_file = 'theories/Props/C11.v'
    series_share = 0.15
    weights = W(shuffle=20, sample=12, select=10, setcell=12, merge=6, setcolkind=6, setcol=4, slice=3, sort=3,
                setlength=4, concat=2, new=1, getrows=2)
    gen_kw = {'bad_rate': 0.1}
    rule = ('shuffle/sample-heavy histories on tables that were already used as selection keys (position caches '
            'populated), k in 0..len+1, followed by typed-column creation, selections, merges and selection-addressed '
            'writes on the result; the permutation / choice made by `random` is read off the result, validated in Coq '
            '(permutation of the row range / k distinct positions) and the result compared with Spec.step; plus direct '
            'probes for ops.shuffle / random_sample on columns and shuffle_horiz, and 20 seeds must give >= 2 orders')
    trusted_base = CORE_TRUST
    assumptions = CORE_ASSUME + ['"repeated shuffles produce more than one order" is a statement about the RNG: tested, not proved']

    def generate(self, rng, tier):
        cases = super().generate(rng, tier)
        cases.extend(self.direct_probes(rng, 60 if tier == 'quick' else 600))
        return cases

    def direct_probes(self, rng, n):
        world._imports()
        from datamatrix import DataMatrix, FloatColumn, IntColumn, operations as ops
        out = []
        for k in range(n):
            sub = random.Random(rng.randrange(1 << 30))
            kind = sub.choice(['shuffle_col', 'sample_col', 'shuffle_horiz', 'shuffle_horiz_one', 'orders', 'sample_err',
                               'shuffle_col_key', 'sample_col_key', 'shuffle_horiz_series', 'shuffle_series_col',
                               'sample_series_col'])
            problem = None
            with warnings.catch_warnings():
                warnings.simplefilter('ignore')
                try:
                    random.seed(sub.randrange(1 << 30))
                    dm = DataMatrix(length=5)
                    dm.a = 'a', 'b', 'c', 'd', 'e'
                    dm.b = 'A', 'B', 'C', 'D', 'E'
                    dm.f = FloatColumn
                    dm.f = 1, 2, 3, 4, 5
                    dm.u = 0, 1, 2, 3, 4
                    if sub.random() < 0.6:           # populate position caches
                        s0 = dm.u >= 0
                        _ = s0.a[s0]
                        dm = s0
                    before = [list(dm.a), list(dm.b), list(dm.f), list(dm.u)]
                    if kind == 'shuffle_col':
                        c = ops.shuffle(dm.a if sub.random() < 0.5 else dm.f)
                        src = list(dm.a) if c._seq.__class__ is list else list(dm.f)
                        if sorted(list(c)) != sorted(src) or len(c) != 5:
                            problem = 'shuffle(column) is not a rearrangement: %r' % (list(c),)
                        dm.z = c
                        if list(dm.z) != list(c) or list(dm.u) != before[3]:
                            problem = 'assigning the shuffled column back misaligned rows'
                    elif kind == 'sample_col':
                        kk = sub.randint(0, 5)
                        c = ops.random_sample(dm.a, kk)
                        if len(list(c)) != kk or len(set(c)) != kk or not set(c) <= set(before[0]):
                            problem = 'random_sample(column, %d) -> %r' % (kk, list(c))
                    elif kind == 'shuffle_col_key':
                        # the shuffled column is an ordinary column aligned with the table: used as a selection key it
                        # selects the rows at the positions where IT holds the value, and it can be read / written
                        # through such a selection
                        src_col = sub.choice(['a', 'f', 'u'])
                        c = ops.shuffle(dm[src_col])
                        vals = list(c)
                        v = vals[sub.randrange(5)]
                        sel = (c == v)
                        want = [i for i in range(5) if vals[i] == v]
                        if list(sel.u) != [before[3][i] for i in want] or list(sel.a) != [before[0][i] for i in want]:
                            problem = 'shuffle(column) == %r selected rows u=%r, the value sits at positions %r' % (
                                v, list(sel.u), want)
                        elif list(c[sel]) != [v] * len(want):
                            problem = 'reading the shuffled column through its own selection gave %r' % (list(c[sel]),)
                    elif kind == 'sample_col_key':
                        kk = sub.randint(1, 5)
                        src_col = sub.choice(['a', 'f', 'u'])
                        c = ops.random_sample(dm[src_col], kk)
                        vals = list(c)
                        if len(c._rowid) != len(vals):
                            problem = 'random_sample(column, %d) carries %d row ids for %d values' % (kk, len(c._rowid), len(vals))
                        else:
                            v = vals[sub.randrange(kk)]
                            sel = (c == v)
                            srcvals = before[{'a': 0, 'f': 2, 'u': 3}[src_col]]
                            if [srcvals[before[3].index(u)] for u in sel.u] != [v]:
                                problem = 'sampled column == %r selected the rows u=%r' % (v, list(sel.u))
                    elif kind in ('shuffle_series_col', 'sample_series_col'):
                        # a SeriesColumn shuffled / sampled AS A COLUMN: its rows (whole series) are rearranged, none
                        # duplicated or lost, and the source is unchanged
                        from datamatrix import SeriesColumn
                        d0 = dm[:]
                        d0.s = SeriesColumn(depth=sub.randint(1, 3))
                        for i in range(5):
                            d0.s[i] = [10 * (i + 1) + j for j in range(d0.s.depth)]
                        src_rows = [tuple(float(x) for x in d0.s[i]) for i in range(5)]
                        if kind == 'shuffle_series_col':
                            c = ops.shuffle(d0.s)
                            got = [tuple(float(x) for x in c[i]) for i in range(len(c))]
                            if sorted(got) != sorted(src_rows):
                                problem = 'shuffle(series column) is not a rearrangement of its rows: %r' % (got,)
                        else:
                            kk = sub.randint(0, 5)
                            c = ops.random_sample(d0.s, kk)
                            got = [tuple(float(x) for x in c[i]) for i in range(len(c))]
                            if len(got) != kk or len(set(got)) != kk or not set(got) <= set(src_rows):
                                problem = 'random_sample(series column, %d) -> %r' % (kk, got)
                        if [tuple(float(x) for x in d0.s[i]) for i in range(5)] != src_rows:
                            problem = problem or 'shuffling / sampling a series column changed the source'
                    elif kind == 'shuffle_horiz_series':
                        from datamatrix import SeriesColumn
                        d0 = dm[:]
                        d0.s = SeriesColumn(depth=2)
                        d0.t = SeriesColumn(depth=2)
                        for i in range(5):
                            d0.s[i] = [i + 1, i + 1]
                            d0.t[i] = [(i + 1) * 10, (i + 1) * 10]
                        d2 = ops.shuffle_horiz(d0.s, d0.t)
                        for i in range(5):
                            got = sorted([tuple(d2.s[i]), tuple(d2.t[i])])
                            if got != sorted([(i + 1.0, i + 1.0), ((i + 1) * 10.0, (i + 1) * 10.0)]):
                                problem = 'shuffle_horiz of two series columns: row %d holds %r' % (i, got)
                        if list(d2.a) != before[0] or list(d0.s[2]) != [3, 3]:
                            problem = problem or 'shuffle_horiz of series columns touched other cells'
                    elif kind == 'sample_err':
                        try:
                            ops.random_sample(dm if sub.random() < 0.5 else dm.a, 6)
                            problem = 'random_sample with k > len did not raise'
                        except ValueError:
                            pass
                    elif kind == 'shuffle_horiz':
                        d2 = ops.shuffle_horiz(dm.a, dm.b)
                        rows = list(zip(d2.a, d2.b))
                        if [sorted(r) for r in rows] != [sorted(r) for r in zip(before[0], before[1])]:
                            problem = 'shuffle_horiz did not permute within rows: %r' % (rows,)
                        if list(d2.f) != before[2] or list(d2.u) != before[3]:
                            problem = 'shuffle_horiz touched other columns or the row order'
                        if not all(c.dm is d2 for _n, c in d2.columns):
                            problem = 'shuffle_horiz result holds a column of another DataMatrix'
                        sel = d2.u != 2
                        if sorted(sel.column_names) != ['a', 'b', 'f', 'u'] or list(sel.u) != [0, 1, 3, 4]:
                            problem = 'selection on the shuffle_horiz result lost columns or rows'
                    elif kind == 'shuffle_horiz_one':
                        # a single column (or a one-column table): nothing to permute, but still a new, independent table
                        one = dm[('a',)] if sub.random() < 0.5 else None
                        d2 = ops.shuffle_horiz(one) if one is not None else ops.shuffle_horiz(dm.a)
                        src = one if one is not None else dm
                        if d2 is src or any(c is src._cols.get(n_) for n_, c in d2._cols.items()):
                            problem = 'shuffle_horiz of a single column returned (part of) its source'
                        else:
                            snap = [list(c) for _n, c in src.columns]
                            d2.a[0] = 'changed'
                            d2.length = len(d2) + 1
                            if snap != [list(c) for _n, c in src.columns] or len(src) != 5:
                                problem = 'editing the result of a single-column shuffle_horiz changed the source'
                    else:
                        orders = set()
                        for sd in range(20):
                            random.seed(sd)
                            orders.add(tuple(ops.shuffle(dm).u))
                        if len(orders) < 2:
                            problem = '20 seeds gave one single order'
                    if problem is None and before != [list(dm.a), list(dm.b), list(dm.f), list(dm.u)]:
                        problem = '%s modified its source' % kind
                except Exception as e:      # noqa: BLE001
                    problem = 'probe %s raised %r' % (kind, e)
            out.append({'input': {'probe': kind, 'seed': k}, 'observed': {'problem': problem}, 'pyfail': problem,
                        'oracle': 'true', 'model': 'true', 'nontrivial': True, 'sig': 'probe|%s|%d' % (kind, k),
                        'tags': ['probe', 'probe:' + kind]})
        return out

