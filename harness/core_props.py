"""Profiles of the state-machine properties that share the history machinery (HistProp)."""
import random
import warnings

import coqlit as L
import histgen
import pyobs
import world
from histprop import HistProp

CORE_TRUST = [
    'Coq 8.16.1 kernel (coqc; vm_compute for evaluating cases; no native_compute)',
    'harness/world.py + harness/sworld.py (runners, object-graph dumpers, audits A1-A2, probes), harness/histgen.py, '
    'Run/SCore.v, Run/SSeries.v',
    'Spec/Table.v, Spec/Ops.v: hand-written positional reference model; Model/LTable.v: inv_b and abs evaluated on dumps',
    'Spec/SeriesEnc.v: a SeriesColumn of depth d is read as d FloatColumn pseudo-columns name#j; the series operations '
    'are finite sequences of alphabet operations (expand); tables with series columns are compared up to name order',
]
CORE_ASSUME = [
    'a share of the histories runs on tables with SeriesColumns (creation, row / slice / index-list / selection / Row '
    'writes of scalars, series, per-row numbers and matrices, (row, sample) writes, depth changes, rename, delete, '
    'copy / alias) through the pseudo-column encoding; values there are numbers (malformed shapes must be refused, '
    'exception class not judged); relatives whose series depths differ are not merged (NumPy refuses; out of model)',
    'random operations take the permutation the implementation produced as an oracle argument, validated in Coq',
    'the theorems are about the L0 model; the implementation is tied to it by the per-step correspondence '
    '(inv_b on every dumped object graph, abs(dump) = Spec.step) on the explored histories only',
]


def W(**kw):
    w = {k: 0 for k in histgen.DEFAULT_WEIGHTS}
    w.update(kw)
    return w


def series_payload_probes(rng, n, prop_kind):
    """Series payload columns are outside the Coq alphabet; these Python-side probes keep a SeriesColumn whose row i
    holds the unique payload of row i next to Mixed/Float/Int columns and check that every deriving / mutating
    operation keeps the series cells with their rows (C01), writes exactly the addressed samples (C04) and resizes
    them with the table (C07)."""
    world._imports()
    from datamatrix import DataMatrix, FloatColumn, IntColumn, SeriesColumn, operations as ops
    import numpy as np
    out = []
    for k in range(n):
        sub = random.Random(rng.randrange(1 << 30))
        random.seed(sub.randrange(1 << 30))
        problem = None
        trail = []
        with warnings.catch_warnings():
            warnings.simplefilter('ignore')
            try:
                m = sub.randint(3, 9)
                dm = DataMatrix(length=m)
                dm.u = IntColumn
                dm.u = list(range(1, m + 1))
                dm.a = [sub.choice(['x', 'y', 1, 2.5, None]) for _ in range(m)]
                dm.s = SeriesColumn(depth=3)
                for i in range(m):
                    dm.s[i] = [i + 1, (i + 1) * 10, np.nan]

                def consistent(t):
                    for i in range(len(t)):
                        u = t.u[i]
                        row = t.s[i]
                        if u == 0:      # a row appended by a resize / a concatenation default
                            if not all((x == 0) or (x != x) for x in row):
                                return 'default row %d holds series %r' % (i, list(row))
                        elif not (row[0] == u and row[1] == u * 10 and row[2] != row[2]):
                            return 'row with payload %r holds series %r' % (u, list(row))
                    if t.s.dm is not t or len(t.s) != len(t):
                        return 'series column detached or of wrong length'
                    return None
                cur = dm
                for _step in range(sub.randint(2, 6)):
                    op = sub.choice(['select', 'sort', 'shuffle', 'slice', 'rows', 'merge', 'delrow', 'grow', 'shrink',
                                     'concat', 'sample'] if prop_kind != 'C04' else ['select', 'sort', 'shuffle', 'slice'])
                    trail.append(op)
                    n_ = len(cur)
                    if op == 'select':
                        cur = cur.u >= sub.randint(0, 4)
                    elif op == 'sort':
                        cur = ops.sort(cur, by=cur.a)
                    elif op == 'shuffle':
                        cur = ops.shuffle(cur)
                    elif op == 'sample':
                        cur = ops.random_sample(cur, sub.randint(0, n_))
                    elif op == 'slice':
                        cur = cur[sub.randint(0, 2):]
                    elif op == 'rows' and n_:
                        cur = cur[sub.sample(range(n_), sub.randint(1, n_))]
                    elif op == 'merge':
                        other = cur.u != sub.randint(1, 5)
                        cur = sub.choice([lambda: cur & other, lambda: cur | other, lambda: other | cur, lambda: cur ^ other])()
                    elif op == 'delrow' and n_:
                        del cur[sub.randrange(n_)]
                    elif op == 'grow':
                        cur.length = n_ + sub.randint(1, 2)
                    elif op == 'shrink' and n_:
                        cur.length = sub.randint(0, n_ - 1)
                    elif op == 'concat':
                        cur = cur << cur[:2]
                    problem = consistent(cur)
                    if problem:
                        break
                if problem is None and prop_kind == 'C04' and len(cur):
                    before = np.array(cur.s._seq, copy=True)
                    ubefore = list(cur.u)
                    i = sub.randrange(len(cur))
                    form = sub.choice(['sample', 'row', 'slice', 'sel', 'list_series', 'sel_series'])
                    trail.append('write:' + form)
                    want = before.copy()
                    if form == 'sample':
                        j = sub.randrange(3)
                        cur.s[i, j] = 7.5
                        want[i, j] = 7.5
                    elif form == 'row':
                        cur.s[i] = [4, 5, 6]
                        want[i] = [4, 5, 6]
                    elif form == 'slice':
                        cur.s[i:] = 9
                        want[i:] = 9
                    elif form == 'list_series':
                        # one depth-long series for several rows: every addressed row receives the whole series
                        rows_ = sorted(set([i, sub.randrange(len(cur))]))
                        cur.s[rows_] = [1.5, 2.5, 3.5]
                        want[rows_] = [1.5, 2.5, 3.5]
                    elif form == 'sel_series':
                        sel = cur.u >= cur.u[i]
                        hit = [r for r in range(len(cur)) if cur.u[r] >= cur.u[i]]
                        if len(hit) == 3:
                            # as many rows as samples: the value is documented to mean one number per row
                            sel = cur.u == cur.u[i]
                            hit = [r for r in range(len(cur)) if cur.u[r] == cur.u[i]]
                        if len(hit) != 3:
                            cur.s[sel] = [1.5, 2.5, 3.5]
                            want[hit] = [1.5, 2.5, 3.5]
                    else:
                        sel = cur.u == cur.u[i]
                        cur.s[sel] = 8
                        want[[r for r in range(len(cur)) if cur.u[r] == cur.u[i]]] = 8
                    got = np.array(cur.s._seq)
                    same = (got == want) | (np.isnan(got) & np.isnan(want))
                    if not same.all() or list(cur.u) != ubefore:
                        problem = 'series write (%s at row %d) changed %r, expected %r' % (form, i, got.tolist(), want.tolist())
                if problem is None and prop_kind == 'C04' and len(cur):
                    # free-standing columns taken from the series column (2-D keys, series.window, one sample, a column
                    # slice): writing into THEM through int / slice / index list / selection changes neither the series
                    # column they were taken from nor any other column
                    from datamatrix import series as srs
                    c = sub.random()
                    if c < 0.3:
                        cur.s.depth = 4          # growing makes a padded copy,
                        cur.s.depth = 3          # shrinking turns the buffer into a view on it
                    elif c < 0.4:
                        cur.s.depth = 4
                    n_ = len(cur)
                    d_ = cur.s.depth
                    before = np.array(cur.s._seq, copy=True)
                    others_before = (list(cur.u), list(cur.a), list(cur._rowid))
                    s0, s1 = sorted(sub.sample(range(d_ + 1), 2))
                    r0, r1 = sorted(sub.sample(range(n_ + 1), 2))
                    rowlist = sorted(sub.sample(range(n_), sub.randint(1, n_)))
                    form = sub.choice(['samples', 'samples', 'rows', 'block', 'window', 'window', 'full', 'rows_all_samples_list',
                                       'rowlist', 'rowlist_samples', 'one_sample', 'col_slice', 'col_rows', 'step'])
                    rows_of = list(range(n_))
                    if form == 'samples':
                        win = cur.s[:, s0:s1]
                    elif form == 'rows':
                        win, rows_of = cur.s[r0:r1, :], list(range(r0, r1))
                    elif form == 'block':
                        win, rows_of = cur.s[r0:r1, s0:s1], list(range(r0, r1))
                    elif form == 'window':
                        win = srs.window(cur.s, start=s0, end=s1)
                    elif form == 'full':
                        win = cur.s[:, :]
                    elif form == 'rows_all_samples_list':
                        win = cur.s[:, tuple(range(s0, s1))]
                    elif form == 'rowlist':
                        win, rows_of = cur.s[rowlist, :], rowlist
                    elif form == 'rowlist_samples':
                        win, rows_of = cur.s[rowlist, s0:s1], rowlist
                    elif form == 'one_sample':
                        win = cur.s[:, s0]
                    elif form == 'col_slice':
                        win, rows_of = cur.s[r0:r1], list(range(r0, r1))
                    elif form == 'col_rows':
                        win, rows_of = cur.s[rowlist], rowlist
                    else:
                        win, rows_of = cur.s[::2, ::2], list(range(0, n_, 2))
                    trail.append('take:' + form)
                    if win is cur.s:
                        problem = 'col[%s] returned the column itself' % form
                    elif len(win) != len(rows_of):
                        problem = 'the column taken by %s has %d rows, expected %d' % (form, len(win), len(rows_of))
                    elif len(win):
                        wbefore = np.array(win._seq, copy=True)
                        want = wbefore.copy()
                        p = sub.randrange(len(win))
                        how = sub.choice(['int', 'slice', 'list', 'sel', 'sel_table', 'sample'] if wbefore.ndim == 2
                                         else ['int', 'slice', 'list', 'sel', 'sel_table'])
                        trail.append('write:' + how)
                        val = float(sub.randint(100, 999))
                        if how == 'int':
                            win[p] = val
                            want[p] = val
                        elif how == 'slice':
                            win[p:] = val
                            want[p:] = val
                        elif how == 'list':
                            ps = sorted(set([p, sub.randrange(len(win))]))
                            win[ps] = val
                            want[ps] = val
                        elif how == 'sample':
                            if wbefore.shape[1]:
                                j = sub.randrange(wbefore.shape[1])
                                win[p, j] = val
                                want[p, j] = val
                        else:
                            # a selection of the table the window was taken from, holding rows of the window only
                            ps = sorted(set([p, sub.randrange(len(win))]))
                            sel = cur[[rows_of[q] for q in ps]] if how == 'sel_table' else (cur.u == cur.u[rows_of[p]])
                            if how == 'sel':
                                ps = [q for q in range(len(win)) if cur.u[rows_of[q]] == cur.u[rows_of[p]]]
                            win[sel] = val
                            want[ps] = val
                        got = np.array(win._seq)
                        if not np.array_equal(got, want, equal_nan=True):
                            problem = 'the write into the taken column gave %r, expected %r' % (got.tolist(), want.tolist())
                    if problem is None:
                        after = np.array(cur.s._seq)
                        if after.shape != before.shape or not np.array_equal(after, before, equal_nan=True):
                            problem = ('writing into the free-standing column changed the series column it was taken from: '
                                       '%r -> %r' % (before.tolist(), after.tolist()))
                        elif others_before != (list(cur.u), list(cur.a), list(cur._rowid)):
                            problem = 'writing into the free-standing column changed another column of the table'
                        elif cur.s.dm is not cur or cur.s.depth != d_:
                            problem = 'the series column was detached / changed its depth'
                if problem is None and consistent(dm):
                    problem = 'the source table changed: ' + consistent(dm)
            except Exception as e:      # noqa: BLE001
                problem = 'raised %r' % (e,)
        if problem:
            problem = 'series payload after %s: %s' % ('/'.join(trail), problem)
        out.append({'input': {'probe': 'series_payload', 'seed': k}, 'observed': {'problem': problem, 'ops': trail},
                    'pyfail': problem, 'oracle': 'true', 'model': 'true', 'nontrivial': True,
                    'sig': 'probe|series|%d' % k, 'tags': ['probe', 'probe:series_payload']})
    return out


def series_default_probes(rng, n):
    """C01 / C07 for series columns of either default: rows appended by a resize, or padded in by a << b where b lacks
    the column (b a table, a dict or a Row), hold the column's own empty value in every sample (NaN, or 0 for
    defaultnan=False) exactly as on a freshly built table, the first rows stay; on the table itself and on tables derived
    from it by ANY deriving operation (selection, slice, index list, sort, shuffle, sample, merge, row deletion, shrink,
    earlier grow, depth change, concatenation)."""
    world._imports()
    from datamatrix import DataMatrix, SeriesColumn, operations as ops
    import numpy as np
    out = []
    for k in range(n):
        sub = random.Random(rng.randrange(1 << 30))
        random.seed(sub.randrange(1 << 30))
        problem = None
        trail = []
        dnan = None
        with warnings.catch_warnings():
            warnings.simplefilter('ignore')
            try:
                m = sub.randint(2, 6)
                dnan = sub.random() < 0.4
                d0 = sub.randint(1, 4)
                dm = DataMatrix(length=m)
                dm.u = list(range(1, m + 1))
                dm.s = SeriesColumn(depth=d0, defaultnan=dnan)
                unset = sub.randrange(m) if sub.random() < 0.3 else -1      # one row keeps the value it was created with
                for i in range(m):
                    if i != unset:
                        dm.s[i] = [float(i + 1)] * d0
                empty = (lambda a: np.isnan(a).all()) if dnan else (lambda a: (a == 0).all())
                if unset >= 0 and not empty(np.array(dm.s._seq)[unset]):
                    problem = 'the unassigned row of a fresh column holds %r' % (np.array(dm.s._seq)[unset].tolist(),)
                cur = dm
                for _ in range(sub.randint(0, 3)):
                    if problem:
                        break
                    op = sub.choice(['select', 'sort', 'shuffle', 'depth', 'slice', 'rows', 'sample', 'merge', 'delrow',
                                     'shrink', 'grow', 'concat_self'])
                    trail.append(op)
                    n_ = len(cur)
                    if op == 'select':
                        cur = cur.u >= sub.randint(0, 2)
                    elif op == 'sort':
                        cur = ops.sort(cur, by=cur.u)
                    elif op == 'shuffle':
                        cur = ops.shuffle(cur)
                    elif op == 'slice':
                        cur = cur[sub.randint(0, 1):]
                    elif op == 'rows':
                        if n_:
                            cur = cur[sub.sample(range(n_), sub.randint(1, n_))]
                    elif op == 'sample':
                        cur = ops.random_sample(cur, sub.randint(0, n_))
                    elif op == 'merge':
                        other = cur.u != sub.randint(1, 4)
                        cur = sub.choice([lambda: cur & other, lambda: cur | other, lambda: other | cur,
                                          lambda: cur ^ (cur.u > 2)])()
                    elif op == 'delrow':
                        if n_:
                            del cur[sub.randrange(n_)]
                    elif op == 'shrink':
                        if n_:
                            cur.length = sub.randint(0, n_ - 1)
                    elif op == 'grow':
                        cur.length = n_ + 1
                        if not empty(np.array(cur.s._seq)[n_]):
                            problem = 'the appended row holds %r' % (np.array(cur.s._seq)[n_].tolist(),)
                    elif op == 'concat_self':
                        cur = cur << cur[:1]
                    else:
                        cur.s.depth = sub.randint(1, 5)
                if problem is None:
                    n0 = len(cur)
                    before = np.array(cur.s._seq, copy=True)
                    ubefore = list(cur.u)
                    extra = sub.randint(1, 3)
                    how = sub.choice(['grow', 'grow', 'concat_table', 'concat_dict', 'concat_row', 'concat_empty_left'])
                    trail.append(how)
                    if how == 'grow':
                        cur.length = n0 + extra
                        res = cur
                    else:
                        other = DataMatrix(length=extra)
                        other.u = 0
                        other.w = 'w'
                        if how == 'concat_table':
                            res = cur << other
                        elif how == 'concat_dict':
                            res = cur << {'u': [0] * extra, 'w': ['w'] * extra}
                        elif how == 'concat_row':
                            extra = 1
                            res = cur << other[0]
                        else:
                            # the table that lacks the column on the LEFT: its rows are padded
                            res = other << cur
                        if len(cur) != n0 or not np.array_equal(np.array(cur.s._seq), before, equal_nan=True):
                            problem = 'the operand of << changed'
                    got = np.array(res.s._seq)
                    old, new = (got[:n0], got[n0:]) if how != 'concat_empty_left' else (got[extra:], got[:extra])
                    if problem:
                        pass
                    elif got.shape != (n0 + extra, before.shape[1]) or len(res) != n0 + extra:
                        problem = 'shape %r after adding %d rows to %r' % (got.shape, extra, before.shape)
                    elif not np.array_equal(old, before, equal_nan=True):
                        problem = 'the rows that were there changed: %r -> %r' % (before.tolist(), old.tolist())
                    elif dnan and not np.isnan(new).all():
                        problem = 'new rows of a NaN-default series hold %r' % (new.tolist(),)
                    elif not dnan and not (new == 0).all():
                        problem = 'new rows of a zero-default series hold %r' % (new.tolist(),)
                    elif res.s.dm is not res or len(res.s) != len(res):
                        problem = 'series column detached or of wrong length after the resize'
                    elif [x for x in res.u if x not in (0, '')] != [x for x in ubefore if x not in (0, '')]:
                        problem = 'column u reads %r, was %r' % (list(res.u), ubefore)
                    elif [[float(x) for x in row.s] for row in res] != [[float(x) for x in r_] for r_ in got] and not dnan:
                        problem = 'read row-wise the series column gives other cells than read column-wise'
            except Exception as e:      # noqa: BLE001
                problem = 'raised %r' % (e,)
        if problem:
            problem = 'series column (defaultnan=%s) after %s: %s' % (dnan, '/'.join(trail), problem)
        out.append({'input': {'probe': 'series_default', 'seed': k}, 'observed': {'problem': problem, 'ops': trail},
                    'pyfail': problem, 'oracle': 'true', 'model': 'true', 'nontrivial': True,
                    'sig': 'probe|series_default|%d' % k, 'tags': ['probe', 'probe:series_default']})
    return out


def resize_positional_probes(rng, n):
    """C07 outside the Coq model (Python side only): (a) a table in which a row occurs more than once (dm[[0, 2, 2, 4, 2]],
    resampling with replacement; duplicate row ids are outside the model): shrinking keeps the first n rows BY POSITION,
    growing appends default rows with fresh identities, the source is untouched; (b) the new length given as a NumPy
    integer (np.int64(k), mask.sum(), arr[-1], unsigned and narrow types) on empty (new, shrunk to zero, empty selection /
    intersection) and non-empty tables, in both directions: exactly what the Python int gives on an identically built twin."""
    world._imports()
    from datamatrix import DataMatrix, FloatColumn, IntColumn, SeriesColumn, operations as ops
    import numpy as np
    out = []

    def norm(v):
        if isinstance(v, float) and v != v:
            return 'nan'
        if isinstance(v, (np.floating, np.integer)):
            return norm(v.item())
        return v

    def read(t):
        return [(norm(a), norm(f), norm(i), tuple(norm(float(x)) for x in s)) for a, f, i, s in zip(t.a, t.f, t.i, t.s)]

    def build(m, dnan):
        dm = DataMatrix(length=m)
        dm.a = ['x%d' % i for i in range(m)]
        dm.f = FloatColumn
        dm.f = [i + .5 for i in range(m)]
        dm.i = IntColumn
        dm.i = [i + 10 for i in range(m)]
        dm.s = SeriesColumn(depth=2, defaultnan=dnan)
        for i in range(m):
            dm.s[i] = [i, i + .25]
        return dm

    def structure(t, n_):
        ids = [int(r) for r in t._rowid]
        if len(t) != n_ or len(ids) != n_:
            return 'the table has %d rows (%d row ids), expected %d' % (len(t), len(ids), n_)
        for name, col in t.columns:
            if col.dm is not t:
                return 'column %s is not owned by the table' % name
            if len(col) != n_ or len(col._seq) != n_:
                return 'column %s has %d cells, the table %d rows' % (name, len(col._seq), n_)
            if [int(r) for r in col._rowid] != ids:
                return 'column %s carries the row ids %r, the table %r' % (name, [int(r) for r in col._rowid], ids)
        return None
    for k in range(n):
        sub = random.Random(rng.randrange(1 << 30))
        kind = sub.choice(['resize_repeated_rows', 'resize_numpy_length'])
        problem = None
        trail = []
        with warnings.catch_warnings():
            warnings.simplefilter('ignore')
            try:
                dnan = sub.random() < 0.7
                default = ('', 'nan', 0, ('nan', 'nan') if dnan else (0.0, 0.0))
                if kind == 'resize_repeated_rows':
                    m = sub.randint(3, 8)
                    dm = build(m, dnan)
                    src = read(dm)
                    idx = [sub.randrange(m) for _ in range(sub.randint(2, 8))]
                    for _ in range(sub.randint(1, 3)):
                        idx.insert(sub.randrange(len(idx) + 1), sub.choice(idx))       # rows that occur twice or more
                    bs = dm[idx]
                    trail.append('dm[%r]' % (idx,))
                    model = [src[i] for i in idx]
                    if read(bs) != model:
                        problem = 'reads %r, expected %r' % (read(bs), model)
                    for e in range(sub.randint(0, 3)):          # per-row edits, by position
                        if problem:
                            break
                        p = sub.randrange(len(bs))
                        a, f, i, s = model[p]
                        c = sub.choice('afis')
                        if c == 'a':
                            bs.a[p] = a = 'e%d' % e
                        elif c == 'f':
                            bs.f[p] = f = 100.5 + e
                        elif c == 'i':
                            bs.i[p] = i = 900 + e
                        else:
                            bs.s[p] = s = (50.0 + e, 60.0 + e)
                        model[p] = (a, f, i, s)
                        trail.append('%s[%d]=..' % (c, p))
                        if read(bs) != model:
                            problem = 'after the edit the table reads %r, expected %r' % (read(bs), model)
                    for _ in range(sub.randint(1, 4)):
                        if problem:
                            break
                        n0 = len(bs)
                        old_ids = [int(r) for r in bs._rowid]
                        c = sub.random()
                        n1 = sub.randint(0, max(0, n0 - 1)) if c < 0.6 else (n0 + sub.randint(1, 3) if c < 0.9 else n0)
                        bs.length = n1
                        trail.append('length=%d' % n1)
                        model = model[:n1] + [default] * (n1 - n0)
                        ids = [int(r) for r in bs._rowid]
                        problem = structure(bs, n1)
                        if problem is None and read(bs) != model:
                            problem = 'reads %r, expected the first rows by position and default rows: %r' % (read(bs), model)
                        elif problem is None and ids[:min(n0, n1)] != old_ids[:min(n0, n1)]:
                            problem = 'the kept rows changed their identities: %r -> %r' % (old_ids, ids)
                        elif problem is None and n1 > n0 and (len(set(ids[n0:])) != n1 - n0 or set(ids[n0:]) & set(old_ids)):
                            problem = 'the appended rows have the identities %r next to %r' % (ids[n0:], old_ids)
                    if problem is None and (read(dm) != src or structure(dm, m)):
                        problem = 'the source table changed'
                else:
                    state = sub.choice(['fresh', 'no_rows', 'shrunk_to_zero', 'empty_selection', 'empty_intersection',
                                        'selection', 'sorted', 'sliced', 'grown_from_zero'])
                    m = sub.randint(1, 6)

                    def twin():
                        t = build(0 if state == 'no_rows' else m, dnan)
                        if state == 'shrunk_to_zero':
                            t.length = 0
                        elif state == 'empty_selection':
                            t = t.i > 100
                        elif state == 'empty_intersection':
                            t = (t.i < 11) & (t.i > 12)
                        elif state == 'selection':
                            t = t.i != 10 + m // 2
                        elif state == 'sorted':
                            t = ops.sort(t, by=t.f)[::-1]
                        elif state == 'sliced':
                            t = t[1:]
                        elif state == 'grown_from_zero':
                            t.length = 0
                            t.length = 2
                        return t
                    t1, t2 = twin(), twin()
                    trail.append(state)
                    ints = [np.int64, np.int32, np.int16, np.int8, np.intp, np.uint8, np.uint16, np.uint32, np.uint64,
                            lambda v: (np.arange(v + 3) <= v - 1).sum(), lambda v: np.arange(v + 1)[-1],
                            lambda v: np.array([v, 0])[0], lambda v: np.int64(v) + np.int64(0)]
                    for _ in range(sub.randint(1, 3)):
                        if problem:
                            break
                        n0 = len(t1)
                        c = sub.random()
                        n1 = sub.randint(0, max(0, n0 - 1)) if c < 0.35 else (n0 + sub.randint(1, 4) if c < 0.9 else n0)
                        T = sub.choice(ints)
                        v = T(n1)
                        trail.append('length=%s(%d)' % (type(v).__name__, n1))
                        if isinstance(v, int) or int(v) != n1:
                            problem = 'probe: %r is not a NumPy integer of value %d' % (v, n1)
                            break
                        t1.length = n1
                        try:
                            t2.length = v
                        except Exception as e:      # noqa: BLE001
                            problem = 'dm.length = %s(%d) on a table of %d rows raised %r; the int %d is accepted' % (
                                type(v).__name__, n1, n0, e, n1)
                            break
                        problem = structure(t2, n1) or structure(t1, n1)
                        if problem is None and (read(t2) != read(t1) or [int(r) for r in t2._rowid] != [int(r) for r in t1._rowid]):
                            problem = 'with %s(%d) the table reads %r (ids %r), with the int %r (ids %r)' % (
                                type(v).__name__, n1, read(t2), list(t2._rowid), read(t1), list(t1._rowid))
                        elif problem is None and n1 > n0 and read(t2)[n0:] != [default] * (n1 - n0):
                            problem = 'the appended rows read %r' % (read(t2)[n0:],)
                        elif problem is None and len(set(int(r) for r in t2._rowid)) != n1:
                            problem = 'row identities %r are not distinct' % (list(t2._rowid),)
                    if problem is None and len(t2):
                        # the resized table works: its new rows can be selected and written, alone
                        for t in (t1, t2):
                            t.a[t.i == 0] = 'v'
                        if read(t2) != read(t1) or structure(t2, len(t1)):
                            problem = 'after writing through a selection of the new rows: %r, expected %r' % (read(t2), read(t1))
            except Exception as e:      # noqa: BLE001
                problem = 'raised %r' % (e,)
        if problem:
            problem = '%s after %s: %s' % (kind, ' / '.join(trail), problem)
        out.append({'input': {'probe': kind, 'seed': k}, 'observed': {'problem': problem, 'ops': trail},
                    'pyfail': problem, 'oracle': 'true', 'model': 'true', 'nontrivial': True,
                    'sig': 'probe|%s|%d' % (kind, k), 'tags': ['probe', 'probe:' + kind]})
    return out


def getitem_dispatch_probe():
    """One key of every class: the isinstance facts of the running interpreter and the operation dm[key] performed,
    judged in Coq against Model/Core.key_facts and the regenerated k_getitem_dispatch."""
    world._imports()
    from datamatrix import DataMatrix
    from datamatrix._datamatrix._basecolumn import BaseColumn
    from datamatrix._datamatrix._row import Row
    try:
        from collections.abc import Sequence
    except ImportError:
        from collections import Sequence
    obs = []
    problem = None
    with warnings.catch_warnings():
        warnings.simplefilter('ignore')
        dm = DataMatrix(length=3)
        dm.a = 1, 2, 3
        dm.b = 'x', 'y', 'z'
        keys = [('KeyColumn', dm.a), ('KeyStr', 'a'), ('KeyInt', 1), ('KeyBool', True), ('KeySlice', slice(0, 2)),
                ('KeyNames', ['a', dm.b]), ('KeyEmptySeq', []), ('KeyInts', [0, 2]), ('KeyOther', 2.5), ('KeyOther', None)]
        for cls, key in keys:
            facts = (isinstance(key, BaseColumn), isinstance(key, str), isinstance(key, int), isinstance(key, slice),
                     isinstance(key, Sequence),
                     bool(isinstance(key, Sequence) and all(isinstance(v, (str, BaseColumn)) for v in key)))
            try:
                r = dm[key]
                if isinstance(r, BaseColumn):
                    d = 0 if cls == 'KeyColumn' else 1
                    if r is not dm._cols['a']:
                        problem = 'dm[%s key] returned another column' % cls
                elif isinstance(r, Row):
                    d = 2
                elif isinstance(r, DataMatrix):
                    if list(r.column_names) != ['a', 'b']:
                        d = 4 if len(r) == 3 else -1
                    else:
                        d = 3 if isinstance(key, slice) else (4 if (len(r) == 3 and cls == 'KeyNames') else 5)
                else:
                    d = -1
            except KeyError:
                d = 6
            except Exception as e:      # noqa: BLE001
                d = -2
                problem = 'dm[%s key] raised %r' % (cls, e)
            obs.append('(%s, (%s), %s)' % (cls, ', '.join(L.boolean(f) for f in facts), L.z(d)))
    import coqlit as L2
    return {'input': {'probe': 'getitem_dispatch', 'seed': 0}, 'observed': {'problem': problem, 'obs': obs},
            'pyfail': problem, 'oracle': 'true', 'model': '(getitem_ok %s)' % L2.lst(obs), 'nontrivial': True,
            'sig': 'probe|getitem_dispatch', 'tags': ['probe', 'probe:getitem_dispatch']}


class ProbeMixin:
    """Direct Python-side probes next to the histories: cases whose input has a 'probe' key."""

    def rerun(self, inp):
        if 'probe' in inp:
            # the probe families draw their parameters from the rng: replay runs the family of that name again (more
            # draws when the first batch holds no failing member) and returns a failing member if there is one
            rng = random.Random(inp.get('seed', 0))
            seen = []
            for n in (80, 400):
                cases = [c for c in self.direct_probes(rng, n) if c['input']['probe'] == inp['probe']]
                bad = [c for c in cases if c['pyfail']]
                if bad:
                    return bad[0]
                seen = seen or cases
            return (seen or [None])[0]
        return HistProp.rerun(self, inp)

    def key(self, case):
        if 'probe' in case['input']:
            return 'probe ' + case['input']['probe']
        return HistProp.key(self, case)

    def shrink_candidates(self, inp):
        if 'probe' in inp:
            return []
        return HistProp.shrink_candidates(self, inp)


class C03(ProbeMixin, HistProp):
    id = 'C03'
    props_file = 'theories/Props/C03.v'
    series_share = 0.1
    weights = W(select=10, slice=6, getrows=3, sort=6, shuffle=6, sample=2, setcell=8, merge=24, new=1, setcol=2,
                setcolkind=1, setlength=1, concat=1, setcolfromcol=3, setcolfromslice=1)
    gen_kw = {'max_pool': 10, 'max_rows': 30, 'bad_rate': 0.06}
    big_first = True
    n_quick = 300
    steps_quick = (14, 26)
    rule = ('relatives histories: one source of 9-30 rows (well above 8, where set iteration order of row ids stops '
            'coinciding with numeric order) with Mixed/Float/Int columns, chains of selections, slices, sorts, shuffles '
            'and cell assignments produce relatives holding different values for the same rows; & | ^ on pairs '
            '(~40% of the steps), unrelated operands and unrelated col[dm] for the exception clause; every result is '
            'dumped and compared in Coq with Spec.step (ids ascending, left-biased cells, all columns), operands via '
            'the frame check; non-trivial = at least two state-changing steps; distinct by (ops, seed)')
    trusted_base = CORE_TRUST
    assumptions = CORE_ASSUME + ['operands that name a row twice (index lists with a repeated index) are outside the Coq '
                                 'model (duplicate row ids); the each-row-once / commutative-membership clauses are '
                                 'probed for them on the Python side',
                                 'relatives whose series depths differ (out of model): operands-unchanged is probed on the '
                                 'Python side for & | ^ in both orders, refused or not; tables unpickled from ANOTHER '
                                 'process (table numbers restart at 0 there) are probed against local tables created '
                                 'before and after the loading, here and in a fresh process (Python side, subprocesses)']

    def generate(self, rng, tier):
        return super().generate(rng, tier) + self.direct_probes(rng, 40 if tier == 'quick' else 400)

    def direct_probes(self, rng, n):
        """Relatives that name a row twice (dm[[9, 2, 5, 5, 12]]): the merged table still holds each row once, in
        row-creation order, and membership is commutative; empty relatives are neutral / absorbing."""
        world._imports()
        from datamatrix import DataMatrix, FloatColumn
        out = []
        for k in range(n):
            sub = random.Random(rng.randrange(1 << 30))
            problem = None
            with warnings.catch_warnings():
                warnings.simplefilter('ignore')
                try:
                    m = sub.randint(9, 16)
                    dm = DataMatrix(length=m)
                    dm.a = ['r%d' % i for i in range(m)]
                    dm.f = FloatColumn
                    dm.f = list(range(m))
                    la = [sub.randrange(m) for _ in range(sub.randint(2, 6))]
                    la.insert(sub.randrange(len(la) + 1), sub.choice(la))          # one index twice
                    lb = sub.sample(range(m), sub.randint(0, 6))
                    a, b = dm[la], (dm[lb] if lb else dm[:0])      # dm[[]] is a column selection (see DESIGN I.5)
                    if sub.random() < 0.3:
                        b = dm.f < 0                                                # an empty relative (a comparison)
                        lb = []
                    ops_ = {'|': (lambda x, y: x | y, set(la) | set(lb)), '&': (lambda x, y: x & y, set(la) & set(lb)),
                            '^': (lambda x, y: x ^ y, set(la) ^ set(lb))}
                    for sym, (f, want) in sorted(ops_.items()):
                        for x, y, nm in ((a, b, 'a %s b' % sym), (b, a, 'b %s a' % sym)):
                            r = f(x, y)
                            got = [int(v) for v in r.f]
                            if got != sorted(want) or list(r.a) != ['r%d' % i for i in sorted(want)]:
                                problem = problem or ('%s with a = dm[%r], b = dm[%r]: rows %r, expected each of %r once, '
                                                      'in row-creation order' % (nm, la, lb, got, sorted(want)))
                except Exception as e:      # noqa: BLE001
                    problem = 'probe raised %r' % (e,)
            out.append({'input': {'probe': 'repeated_row_operand', 'seed': k}, 'observed': {'problem': problem},
                        'pyfail': problem, 'oracle': 'true', 'model': 'true', 'nontrivial': True,
                        'sig': 'probe|repeated_row_operand|%d' % k, 'tags': ['probe', 'probe:repeated_row_operand']})
        # col[selection] as a READ: a related selection gives exactly the cells of the rows it names, in its order,
        # for every column type and row order; a relative that holds a row the column lacks raises (never the cells of
        # other rows); an unrelated table raises
        from datamatrix import IntColumn, SeriesColumn, operations as ops
        for k in range(n):
            sub = random.Random(rng.randrange(1 << 30))
            problem = None
            with warnings.catch_warnings():
                warnings.simplefilter('ignore')
                try:
                    m = sub.randint(6, 12)
                    dm = DataMatrix(length=m)
                    dm.a = ['r%d' % i for i in range(m)]
                    dm.f = FloatColumn
                    dm.f = list(range(m))
                    dm.i = IntColumn
                    dm.i = list(range(m))
                    dm.s = SeriesColumn(depth=2)
                    dm.s[:, 0] = list(range(m))
                    random.seed(sub.randrange(1 << 30))
                    base = sub.choice([dm, ops.shuffle(dm), ops.sort(dm, by=dm.a)[::-1], dm[sub.sample(range(m), m - 2)]])
                    have = [int(v) for v in base.i]
                    inside = sub.sample(have, sub.randint(0, len(have)))
                    sel = dm[inside] if inside else dm[:0]
                    other = DataMatrix(length=m)
                    other.a = 0
                    for cn in ('a', 'f', 'i', 's'):
                        col = base[cn]
                        got = col[sel]
                        vals = [int(v[0]) for v in got._seq] if cn == 's' else [int(float(str(v).lstrip('r'))) for v in got]
                        if vals != inside:
                            problem = problem or 'col %s [selection of rows %r] read rows %r (table order %r)' % (cn, inside, vals, have)
                        lack = [i for i in range(m) if i not in have]
                        if lack:
                            bad = dm[[lack[0]] + inside[:2]]
                            try:
                                r = col[bad]
                                problem = problem or ('col %s [relative holding row %d, which the column lacks] returned %r instead of raising'
                                                      % (cn, lack[0], list(r) if cn != 's' else r._seq.tolist()))
                            except (KeyError, IndexError, ValueError):
                                pass
                        try:
                            col[other]
                            problem = problem or 'col %s [unrelated table] did not raise' % cn
                        except Exception:       # noqa: BLE001
                            pass
                except Exception as e:      # noqa: BLE001
                    problem = 'probe raised %r' % (e,)
            out.append({'input': {'probe': 'selection_read', 'seed': k}, 'observed': {'problem': problem},
                        'pyfail': problem, 'oracle': 'true', 'model': 'true', 'nontrivial': True,
                        'sig': 'probe|selection_read|%d' % k, 'tags': ['probe', 'probe:selection_read']})
        out.extend(self.series_depth_operand_probes(rng, max(12, n // 2)))
        out.extend(self.foreign_pickle_probes(rng))
        return out

    def series_depth_operand_probes(self, rng, n):
        """Relatives of one source whose SeriesColumn had its depth changed in one (or both) of them, then a | b, a & b,
        a ^ b in both orders: whether or not the merge is refused (relatives of different depth: NumPy refuses), both
        operands read exactly as before (depth, buffer shape, cells, row ids, owner); when the depths agree the merge
        must succeed with the left-biased cells."""
        world._imports()
        from datamatrix import DataMatrix, SeriesColumn, operations as ops
        import numpy as np
        out = []
        for k in range(n):
            sub = random.Random(rng.randrange(1 << 30))
            problem = None
            desc = ''
            with warnings.catch_warnings():
                warnings.simplefilter('ignore')
                try:
                    random.seed(sub.randrange(1 << 30))
                    m = sub.randint(9, 14)
                    d0 = sub.randint(2, 4)
                    dm = DataMatrix(length=m)
                    dm.a = ['r%d' % i for i in range(m)]
                    dm.s = SeriesColumn(depth=d0, defaultnan=sub.random() < 0.8)
                    for i in range(m):
                        dm.s[i] = [i + j / 8. for j in range(d0)]

                    def relative():
                        c = sub.choice(['slice', 'tail', 'rows', 'select', 'sort', 'shuffle', 'all'])
                        if c == 'slice':
                            return dm[:sub.randint(0, m)], c
                        if c == 'tail':
                            return dm[sub.randint(0, m - 1):], c
                        if c == 'rows':
                            return dm[sub.sample(range(m), sub.randint(1, m))], c
                        if c == 'select':
                            return dm.a != 'r%d' % sub.randrange(m), c
                        if c == 'sort':
                            return ops.sort(dm, by=dm.a)[::2], c
                        if c == 'shuffle':
                            return ops.shuffle(dm)[:sub.randint(1, m)], c
                        return dm[:], c
                    (a, ka), (b, kb) = relative(), relative()
                    mode = sub.choice(['a', 'a', 'b', 'b', 'both_same', 'both_diff', 'back'])
                    others = [d for d in range(1, 6) if d != d0]
                    da = db = d0
                    if mode == 'a':
                        da = sub.choice(others)
                    elif mode == 'b':
                        db = sub.choice(others)
                    elif mode == 'both_same':
                        da = db = sub.choice(others)
                    elif mode == 'both_diff':
                        da, db = sub.sample(others, 2)
                    else:                       # changed and changed back: the buffer is a view / a padded copy
                        a.s.depth = sub.choice(others)
                    a.s.depth = da
                    b.s.depth = db
                    if sub.random() < 0.5 and len(a):
                        a.s[sub.randrange(len(a)), 0] = -1.0        # the relatives hold different cells for one row
                    desc = 'a = %s of %d rows (depth %d -> %d), b = %s (depth -> %d)' % (ka, m, d0, da, kb, db)

                    def snap(t):
                        return (list(t._rowid), list(t.a), t.s.depth, tuple(t.s._seq.shape), repr(np.array(t.s._seq).tolist()),
                                repr([np.array(c_).tolist() for c_ in t.s]), t.s.dm is t, list(t.s._rowid), len(t), t.s.defaultnan)

                    def cells(t):
                        return {rid: (nm, repr(np.array(c_).tolist())) for rid, nm, c_ in zip(t._rowid, t.a, t.s)}
                    ops_ = {'|': (lambda x, y: x | y, lambda p, q: p | q), '&': (lambda x, y: x & y, lambda p, q: p & q),
                            '^': (lambda x, y: x ^ y, lambda p, q: p ^ q)}
                    for sym, (f, fs) in sorted(ops_.items()):
                        for x, y, nm in ((a, b, 'a %s b' % sym), (b, a, 'b %s a' % sym)):
                            bx, by = snap(x), snap(y)
                            cx, cy = cells(x), cells(y)
                            try:
                                r = f(x, y)
                                raised = None
                            except Exception as e:      # noqa: BLE001
                                raised = e
                            ax, ay = snap(x), snap(y)
                            if (ax, ay) != (bx, by):
                                which = 'left' if ax != bx else 'right'
                                o, n_ = (bx, ax) if ax != bx else (by, ay)
                                problem = problem or ('%s (%s) changed its %s operand: depth %r -> %r, buffer %r -> %r, cells %s -> %s'
                                                      % (nm, 'refused with %r' % (raised,) if raised else 'accepted', which,
                                                         o[2], n_[2], o[3], n_[3], o[4][:120], n_[4][:120]))
                            if raised is not None:
                                if da == db:
                                    problem = problem or '%s of relatives of equal depth raised %r' % (nm, raised)
                                continue
                            want = sorted(fs(set(cx), set(cy)))
                            if list(r._rowid) != want or list(r.a) != ['r%d' % i for i in want]:
                                problem = problem or '%s holds the rows %r, expected %r' % (nm, list(r._rowid), want)
                            elif da == db and cells(r) != {i: (cx[i] if i in cx else cy[i]) for i in want}:
                                problem = problem or '%s: series cells %r, the operands hold %r and %r' % (nm, cells(r), cx, cy)
                except Exception as e:      # noqa: BLE001
                    problem = 'probe raised %r' % (e,)
            if problem:
                problem = 'series relatives, %s: %s' % (desc, problem)
            out.append({'input': {'probe': 'series_depth_operands', 'seed': k}, 'observed': {'problem': problem},
                        'pyfail': problem, 'oracle': 'true', 'model': 'true', 'nontrivial': True,
                        'sig': 'probe|series_depth_operands|%d' % k, 'tags': ['probe', 'probe:series_depth_operands']})
        return out

    FOREIGN_BUILDER = r'''
import sys, pickle, warnings
warnings.simplefilter('ignore')
from datamatrix import DataMatrix, FloatColumn
path, k1, lo, hi = sys.argv[1], int(sys.argv[2]), int(sys.argv[3]), int(sys.argv[4])
# tables are numbered by a per-process counter: a dense run of fresh tables from the start of this process, and (when
# asked for) a second run that covers the numbers lo..hi which the loading process has given to its own tables
tables = [DataMatrix(length=6) for _ in range(k1)]
if lo >= 0:
    while True:
        t = DataMatrix(length=0)
        if t._id >= lo - 1:
            break
    while True:
        t = DataMatrix(length=6)
        tables.append(t)
        if t._id >= hi:
            break
pairs = []
for k, t in enumerate(tables):
    t.payload = ['foreign%03d_%d' % (k, i) for i in range(6)]
    t.x = FloatColumn
    t.x = range(6)
    pairs.append((t, t.x >= 2))
with open(path, 'wb') as f:
    pickle.dump(pairs, f, protocol=int(sys.argv[5]))
'''

    FOREIGN_CHECK = r'''
def make_locals(n):
    import warnings
    from datamatrix import DataMatrix, FloatColumn
    out = []
    with warnings.catch_warnings():
        warnings.simplefilter('ignore')
        tables = [DataMatrix(length=6) for _ in range(n)]
        for j, t in enumerate(tables):
            t.payload = ['mine%03d_%d' % (j, i) for i in range(6)]
            t.x = FloatColumn
            t.x = range(6)
            out.append((t, t.x < 4))
    return out


def check_unrelated(locals_, foreign):
    """every combination of a local table (or its selection) with a foreign one (or its selection) must raise"""
    import warnings
    bad = []
    with warnings.catch_warnings():
        warnings.simplefilter('ignore')
        for k, (ft, fsel) in enumerate(foreign):
            if list(ft.payload) != ['foreign%03d_%d' % (k, i) for i in range(6)] or len(fsel) != 4:
                bad.append('foreign table %d reads %r after loading' % (k, list(ft.payload)))
        for j, (mine, sel) in enumerate(locals_):
            for k, (ft, fsel) in enumerate(foreign):
                attempts = [
                    ('mine | foreign', lambda: mine | ft), ('foreign | mine', lambda: ft | mine),
                    ('mine & foreign', lambda: mine & ft), ('mine ^ foreign', lambda: mine ^ ft),
                    ('sel | fsel', lambda: sel | fsel), ('fsel & sel', lambda: fsel & sel), ('fsel ^ mine', lambda: fsel ^ mine),
                    ('mine.payload[fsel]', lambda: mine.payload[fsel]), ('mine.x[foreign]', lambda: mine.x[ft]),
                    ('foreign.payload[sel]', lambda: ft.payload[sel]), ('fsel.x[mine]', lambda: fsel.x[mine]),
                ]
                for label, f in attempts:
                    try:
                        res = f()
                    except Exception:
                        continue
                    got = list(res.payload) if hasattr(res, 'payload') else list(res)
                    bad.append('%s (local table %d, a table unpickled from another process %d) did not raise but gave %r'
                               % (label, j, k, got))
    return bad
'''

    def foreign_pickle_probes(self, rng):
        """Unrelated tables that were built and pickled by ANOTHER process (where tables are numbered from 0 again) and
        are loaded (a) here, next to local tables that were created before (the foreign process was asked to reach the
        numbers of these) and after the loading, and (b) in a fresh process next to its own first tables: every
        combination local x foreign through & | ^ and col[selection] must raise."""
        import json
        import os
        import pickle
        import shutil
        import subprocess
        import sys
        import framework as fw
        world._imports()
        out = []
        problems = {'here': None, 'fresh': None}
        d = os.path.join(fw.WORK, 'core-foreign-%d' % os.getpid())
        try:
            os.makedirs(d, exist_ok=True)
            ns = {}
            exec(compile(self.FOREIGN_CHECK, 'foreign_check', 'exec'), ns)
            n_local = rng.randint(3, 6)
            locals_ = ns['make_locals'](n_local)
            lo, hi = min(t._id for t, _s in locals_), max(t._id for t, _s in locals_)
            if lo > 400000:         # too far to count up to in the other process: (b) still covers the collision
                lo = hi = -1
            k1 = rng.randint(20, 40)
            protocol = rng.choice([2, pickle.HIGHEST_PROTOCOL])
            path = os.path.join(d, 'foreign.pkl')
            env = dict(os.environ, PYTHONPATH=fw.REPO + os.pathsep + os.path.join(fw.VERIF, 'shim'), PYTHONHASHSEED='0',
                       PYTHONWARNINGS='ignore')
            pr = subprocess.run([sys.executable, '-c', self.FOREIGN_BUILDER, path, str(k1), str(lo), str(hi), str(protocol)],
                                capture_output=True, text=True, env=env, timeout=300)
            if pr.returncode != 0 or not os.path.exists(path):
                problems['here'] = problems['fresh'] = 'building the foreign pickles failed: %s' % pr.stderr.strip()[-500:]
            else:
                try:
                    with warnings.catch_warnings():
                        warnings.simplefilter('ignore')
                        with open(path, 'rb') as f:
                            foreign = pickle.load(f)
                    later = ns['make_locals'](2)
                    bad = ns['check_unrelated'](locals_ + later, foreign)
                    if bad:
                        problems['here'] = '%s (%d combinations in total)' % (bad[0], len(bad))
                except Exception as e:      # noqa: BLE001
                    problems['here'] = 'probe raised %r' % (e,)
                script = self.FOREIGN_CHECK + (
                    '\nimport sys, json, pickle, warnings\nwarnings.simplefilter("ignore")\n'
                    'mine = make_locals(%d)\nforeign = pickle.load(open(sys.argv[1], "rb"))\n'
                    'print(json.dumps(check_unrelated(mine + make_locals(2), foreign)))\n' % rng.randint(3, 12))
                pr = subprocess.run([sys.executable, '-c', script, path], capture_output=True, text=True, env=env, timeout=300)
                try:
                    bad = json.loads(pr.stdout.strip().splitlines()[-1])
                    if bad:
                        problems['fresh'] = 'in a fresh process: %s (%d combinations in total)' % (bad[0], len(bad))
                except Exception:       # noqa: BLE001
                    problems['fresh'] = 'the fresh loading process failed: %s' % (pr.stderr.strip()[-500:] or pr.stdout[-300:],)
        except Exception as e:      # noqa: BLE001
            problems['here'] = problems['here'] or 'probe raised %r' % (e,)
        finally:
            shutil.rmtree(d, ignore_errors=True)
        for where in ('here', 'fresh'):
            problem = problems[where]
            out.append({'input': {'probe': 'foreign_pickle', 'seed': 0, 'where': where}, 'observed': {'problem': problem},
                        'pyfail': problem, 'oracle': 'true', 'model': 'true', 'nontrivial': True,
                        'sig': 'probe|foreign_pickle|%s' % where, 'tags': ['probe', 'probe:foreign_pickle']})
        return out


class C04(ProbeMixin, HistProp):
    id = 'C04'
    props_file = 'theories/Props/C04.v'
    series_share = 0.3
    p_series = 0.5
    weights = W(setcell=30, select=7, merge=3, slice=3, getrows=2, sort=4, shuffle=4, setlength=4, concat=3, setcol=4,
                setcolkind=3, new=1, delrows=2, setcolfromslice=4, setcolfromcol=2)
    gen_kw = {'bad_rate': 0.12}
    rule = ('assignment-heavy histories (~40% cell assignments through int / slice / index list / selection / Row '
            'addressing, scalar and sequence values, 12% malformed: wrong lengths, out-of-range indices, unrelated '
            'selections, unconvertible values) on tables reached by prior selections, merges, sorts, shuffles, resizes '
            'and concatenations; full table diff against Spec.step after every write and all other pool members via '
            'the frame check; distinct by (ops, seed)')
    trusted_base = CORE_TRUST
    assumptions = CORE_ASSUME + ['Series payloads: (row, sample) / row / slice / selection writes are probed on the Python side, '
                                 'as are writes (int / slice / index list / selection / sample) into free-standing columns '
                                 'taken from a series column by 2-D keys, series.window, one sample or a column slice']

    def generate(self, rng, tier):
        return super().generate(rng, tier) + self.direct_probes(rng, 60 if tier == 'quick' else 600)

    def direct_probes(self, rng, n):
        return series_payload_probes(rng, n, 'C04')


class C06(ProbeMixin, HistProp):
    id = 'C06'
    props_file = 'theories/Props/C06.v'
    series_share = 0.25
    weights = W(select=6, merge=5, slice=6, getrows=3, sort=5, shuffle=5, sample=3, concat=5, setcolfromcol=6,
                setcell=14, setcol=6, setlength=6, rename=4, delcol=3, delrows=4, setcolkind=3, new=1, setcolfromslice=4)
    rule = ('derive-then-mutate histories: every deriving operator of the alphabet (slice, selection, merge, sort, '
            'shuffle, sample, concatenation, column copy / deliberate alias) followed by mutations (cell and column '
            'assignment, resize, rename, delete) of either the source or the derived object; after every step every '
            'pool member whose dump changed is compared with Spec.step (so a change leaking into a non-target shows), '
            'plus audits on the implementation: A1 no pre-existing row-id object is mutated in place, A2 no column '
            'object, cell storage or buffer is shared between two DataMatrix objects / columns; the owner pointer and '
            'name of every column are probed after every step. keep_only/setcol/map_/filter_/arithmetic/replace/'
            'unpickling / comparisons that match every or no row whatever the cells are covered by the extra direct probes '
            'of this module')
    trusted_base = CORE_TRUST
    assumptions = CORE_ASSUME + ['cross-object sharing is outside a by-value model: theorem = frame property of the '
                                 'model; implementation side = audits A1-A2 and mutation probes']

    def generate(self, rng, tier):
        cases = super().generate(rng, tier)
        cases.extend(self.direct_probes(rng, 340 if tier == 'quick' else 2500))
        return cases

    def direct_probes(self, rng, n):
        """Deriving functions that are not in the Coq alphabet: derive, mutate either side, compare snapshots."""
        world._imports()
        from datamatrix import DataMatrix, FloatColumn, IntColumn, SeriesColumn, operations as ops, functional as fnc
        import pickle
        import numpy as np
        out = []
        derivers = {
            'keep_only': lambda dm: ops.keep_only(dm, 'a', 's'),
            'getitem_names': lambda dm: dm['a', 'f'],
            'setcol_value': lambda dm: fnc.setcol(dm, 'z', 5),
            'setcol_column': lambda dm: fnc.setcol(dm, 'z', dm.a),
            'map_': lambda dm: fnc.map_(lambda **d: {'a': d['a']}, dm[('a', 'f', 'i')]),
            'filter_': lambda dm: fnc.filter_(lambda **d: True, dm),
            'map_col': lambda dm: fnc.map_(lambda x: x, dm.a),
            'map_col_float': lambda dm: fnc.map_(lambda x: x + 1, dm.f),
            'filter_col': lambda dm: fnc.filter_(lambda x: True, dm.i),
            'replace': lambda dm: ops.replace(dm.f, {1.0: 9.0}),
            'arith': lambda dm: dm.f + 1,
            'arith_mixed': lambda dm: dm.a * 2,
            'unpickle': lambda dm: pickle.loads(pickle.dumps(dm)),
            'slice_all': lambda dm: dm[:],
            'sort_sorted': lambda dm: ops.sort(dm, by=dm.i),
            'select_all': lambda dm: dm.i >= 0,
            'series_slice': lambda dm: dm.s[:, 0:2],
            'series_slice_full': lambda dm: dm.s[:, :],
            'series_rows_full': lambda dm: dm.s[1:3, :],
            'series_window': lambda dm: __import__('importlib').import_module('datamatrix.series').window(dm.s),
            'series_sample': lambda dm: dm.s[:, 0],
            'replace_nohit': lambda dm: ops.replace(dm.f, {7.5: 70.0}),
            'replace_nohit_int': lambda dm: ops.replace(dm.i, {77: 70}),
            'replace_empty': lambda dm: ops.replace(dm.f, {}),
            'replace_series_nohit': lambda dm: ops.replace(dm.s, {7.5: 70.0}),
            'replace_mixed_nohit': lambda dm: ops.replace(dm.a, {'q': 'r'}),
            'col_slice': lambda dm: dm.f[1:],
            # nothing to drop: still a new table
            'keep_only_all': lambda dm: ops.keep_only(dm, *dm.column_names),
            'keep_only_all_objs': lambda dm: ops.keep_only(dm, *[c for _n, c in dm.columns]),
            'getitem_all_names': lambda dm: dm[list(dm.column_names)],
            # augmented assignment on a column object held under another Python name derives a new column
            'iadd_series': lambda dm: _aug(dm.s, '+', 1),
            'imul_series': lambda dm: _aug(dm.s, '*', 2),
            'isub_float': lambda dm: _aug(dm.f, '-', 1),
            'imul_int': lambda dm: _aug(dm.i, '*', 3),
            'iadd_mixed': lambda dm: _aug(dm.a, '+', 1),
            'idiv_series': lambda dm: _aug(dm.s, '/', 2),
            # a memoized function hands out independent objects: the value it returned and every later hit
            'memoized_hit': lambda dm: _memo_pair(dm)[1],
            'memoized_first': lambda dm: _memo_pair(dm)[0],
            'sort_already_sorted_mixed': lambda dm: ops.sort(dm, by=dm.f),
            # comparisons whose answer does not depend on the cells (the value cannot be converted to the column's
            # type, is a type, a set, a function, NaN): every row or no row matches, the result is still a NEW table
            'int_ne_empty': lambda dm: dm.i != '',
            'int_ne_none': lambda dm: dm.i != None,             # noqa: E711
            'int_ne_str': lambda dm: dm.i != 'x',
            'int_eq_empty': lambda dm: dm.i == '',
            'int_eq_none': lambda dm: dm.i == None,             # noqa: E711
            'int_eq_str': lambda dm: dm.i == 'abc',
            'int_ne_nan': lambda dm: dm.i != float('nan'),
            'int_eq_type': lambda dm: dm.i == int,
            'int_ne_type': lambda dm: dm.i != str,
            'int_ne_set': lambda dm: dm.i != {77},
            'int_eq_set_all': lambda dm: dm.i == {0, 1, 2, 3},
            'int_ne_fn': lambda dm: dm.i != (lambda x: False),
            'int_ge_all': lambda dm: dm.i >= -1,
            'float_ne_empty': lambda dm: dm.f != '',
            'float_ne_none': lambda dm: dm.f != None,           # noqa: E711
            'float_ne_str': lambda dm: dm.f != 'x',
            'float_eq_str': lambda dm: dm.f == 'x',
            'float_ne_nan': lambda dm: dm.f != float('nan'),
            'float_eq_type': lambda dm: dm.f == float,
            'float_ne_set': lambda dm: dm.f != {77.0},
            'float_eq_self': lambda dm: dm.f == dm.f,
            'mixed_ne_str': lambda dm: dm.a != 'zz',
            'mixed_ne_none': lambda dm: dm.a != None,           # noqa: E711
            'mixed_ne_empty': lambda dm: dm.a != '',
            'mixed_eq_str': lambda dm: dm.a == 'zz',
            'mixed_ne_number': lambda dm: dm.a != 7,
            'mixed_ne_type': lambda dm: dm.a != float,
            'mixed_ne_set': lambda dm: dm.a != {'q'},
        }

        def _aug(c, o, x):
            if o == '+':
                c += x
            elif o == '-':
                c -= x
            elif o == '*':
                c *= x
            else:
                c /= x
            return c

        def _memo_pair(dm):
            calls = []

            @fnc.memoize
            def make(n):
                calls.append(n)
                return dm[:]
            r1 = make(len(dm))
            r2 = make(len(dm))
            # the two results must not be one object either: mutate the first, the second must not follow
            if len(r1):
                r1.f[0] = -55.0
                if list(r2.f)[0] == -55.0:
                    raise AssertionError('two results of a memoized function are one object')
                r1.f[0] = list(dm.f)[0]
            return r1, r2

        EMPTY_UNSUPPORTED = set()

        def snap(obj):
            if isinstance(obj, DataMatrix):
                return [(n_, type(c).__name__, c.dm is obj, np.array(c._seq, dtype=object).tolist().__repr__())
                        for n_, c in obj.columns] + [list(obj._rowid)]
            return [type(obj).__name__, np.array(obj._seq, dtype=object).tolist().__repr__(), list(obj._rowid)]

        def mutate(obj, rng_):
            cols = [c for _n, c in obj.columns] if isinstance(obj, DataMatrix) else [obj]
            for c in cols:
                if len(c) == 0:
                    continue
                i = rng_.randrange(len(c))
                if hasattr(c, 'depth'):
                    if c.depth:
                        c[i, 0] = 123.0
                else:
                    c[i] = 77
            if isinstance(obj, DataMatrix) and (rng_.random() < 0.5 or len(obj) == 0):
                obj.length = len(obj) + 1
                if rng_.random() < 0.5:
                    for c in [c for _n, c in obj.columns]:
                        if not hasattr(c, 'depth'):
                            c[-1] = 55
                if rng_.random() < 0.3:
                    obj.extra_col = 1
        for k in range(n):
            name = rng.choice(sorted(derivers))
            sub = random.Random(rng.randrange(1 << 30))
            with warnings.catch_warnings():
                warnings.simplefilter('ignore')
                dm = DataMatrix(length=4)
                dm.a = 'x', 2, 'y', 4
                dm.f = FloatColumn
                dm.f = 1, 2, 3, 4
                dm.i = IntColumn
                dm.i = 0, 1, 2, 3
                dm.s = SeriesColumn(depth=3)
                dm.s[:, :] = 1.0
                c = sub.random()
                if c < 0.4:
                    dm.s.depth = 2           # shrinking the depth turns the buffer into a view
                    dm.s.depth = 3 if sub.random() < 0.3 else 2
                elif c < 0.6:
                    dm.s.depth = 4           # growing it makes a fresh contiguous buffer
                elif c < 0.7:
                    dm.s.depth = 1
                if sub.random() < 0.3 and name not in EMPTY_UNSUPPORTED:
                    dm = dm.i > 100             # nothing to derive from: an empty selection (fast paths for `no rows`)
                problem = None
                try:
                    before_derive = snap(dm)
                    d = derivers[name](dm)
                    if snap(dm) != before_derive:
                        problem = 'deriving with %s changed the source' % name
                    if d is dm or any(d is c for _n, c in dm.columns):
                        problem = 'deriving with %s returned the source object itself' % name
                    owners_ok = all(c.dm is dm for _n, c in dm.columns) and [n_ for n_, _c in dm.columns] == ['a', 'f', 'i', 's']
                    if not owners_ok and problem is None:
                        problem = 'deriving with %s detached or renamed a column of the source' % name
                    if not isinstance(d, DataMatrix) and len(d) == len(dm) and len(dm) and sub.random() < 0.5:
                        # a derived column put into the table is a column of its own
                        dm.new = derivers[name](dm)
                        d2 = dm.new
                        before_cols = {n_: repr(np.array(c._seq, dtype=object).tolist()) for n_, c in dm.columns if n_ != 'new'}
                        if hasattr(d2, 'depth'):
                            if d2.depth:
                                d2[0, 0] = 321.0
                        else:
                            d2[0] = 88
                        after_cols = {n_: repr(np.array(c._seq, dtype=object).tolist()) for n_, c in dm.columns if n_ != 'new'}
                        if before_cols != after_cols:
                            problem = 'writing to the column made by %s and assigned to dm.new changed another column' % name
                        del dm['new']
                    side = sub.choice(['source', 'derived'])
                    before = snap(d if side == 'source' else dm)
                    mutate(dm if side == 'source' else d, sub)
                    after = snap(d if side == 'source' else dm)
                    if before != after and problem is None:
                        problem = 'mutating the %s changed the other object after %s' % (side, name)
                except Exception as e:      # noqa: BLE001
                    problem = 'probe %s raised %r' % (name, e)
            out.append({'input': {'probe': name, 'seed': k}, 'observed': {'problem': problem}, 'pyfail': problem,
                        'oracle': 'true', 'model': 'true', 'nontrivial': True, 'sig': 'probe|%s|%d' % (name, k),
                        'tags': ['probe', 'probe:' + name]})
        return out


class C07(ProbeMixin, HistProp):
    id = 'C07'
    props_file = 'theories/Props/C07.v'
    series_share = 0.35
    weights = W(setlength=26, select=8, sort=5, shuffle=5, sample=2, merge=5, concat=4, slice=3, getrows=3, setcell=10,
                setcol=4, setcolkind=4, setcolfromcol=3, delrows=2, new=1)
    rule = ('resize-heavy histories (~30% dm.length = n with shrink, no-op, grow, shrink to zero then grow) on tables '
            'produced by selection, sorting, shuffling, merging, concatenation, with two or more columns of mixed '
            'types, followed by selections, merges, assignments; the resized table is dumped and compared with '
            'Spec.step (first rows kept, default cells, fresh ids) and inv_b (ownership, caches, one cell per row) '
            'after the resize and after each later operation; Series payload columns by Python-side probes')
    trusted_base = CORE_TRUST
    assumptions = CORE_ASSUME + ['tables that hold a row twice (dm[[0, 2, 2]]: duplicate row ids, outside the Coq model) and '
                                 'lengths given as NumPy integers are probed on the Python side (positional list model / '
                                 'a twin resized with the Python int)']

    def generate(self, rng, tier):
        return super().generate(rng, tier) + self.direct_probes(rng, 60 if tier == 'quick' else 600)

    def direct_probes(self, rng, n):
        return (series_payload_probes(rng, n, 'C07') + series_default_probes(rng, max(20, n // 3))
                + resize_positional_probes(rng, max(30, n // 2)))


class C08(HistProp):
    id = 'C08'
    props_file = 'theories/Props/C08.v'
    series_share = 0.15
    weights = W(delrows=14, delcol=8, rename=14, setsorted=5, setcolfromcol=8, setcolkind=4, setcol=4, select=6, sort=4,
                shuffle=3, merge=4, setcell=8, setlength=4, slice=2, concat=2, new=1, setcolfromslice=2)
    gen_kw = {'bad_rate': 0.15}
    rule = ('delete/rename-heavy histories (row deletion with negative and multiple positions, column deletion, '
            'rename incl. missing / existing / non-identifier names, aliased columns, dm.sorted switches) followed by '
            'selections, merges, assignments and resizes; table diff against Spec.step, exception classes, and the '
            'column_names / columns listing probed after every step')
    trusted_base = CORE_TRUST
    assumptions = CORE_ASSUME


class C09(ProbeMixin, HistProp):
    id = 'C09'
    props_file = 'theories/Props/C09.v'
    series_share = 0.25
    weights = W(concat=24, new=4, setcolkind=8, setcol=8, select=6, sort=3, shuffle=3, merge=5, setlength=6, setcell=10,
                slice=3, delrows=2, rename=2)
    gen_kw = {'max_pool': 9}
    rule = ('concatenation-heavy histories: a << b on pairs from the pool (related, unrelated, identical, empty, '
            'reordered; same-name columns of equal and of different type), then selection, merging, resizing and '
            'assignment on the result; result table vs Spec.step, operands via the frame check; plus direct probes '
            'for Row and dict operands, for Series columns of different depth and for a name that is a plain column '
            'on one side and a SeriesColumn on the other (TypeError, operands unchanged) (Python-side)')
    trusted_base = CORE_TRUST
    assumptions = CORE_ASSUME

    def generate(self, rng, tier):
        cases = super().generate(rng, tier)
        cases.extend(self.direct_probes(rng, 60 if tier == 'quick' else 600))
        return cases

    def direct_probes(self, rng, n):
        world._imports()
        from datamatrix import DataMatrix, FloatColumn, IntColumn, SeriesColumn, operations as ops
        import numpy as np
        out = []
        for k in range(n):
            sub = random.Random(rng.randrange(1 << 30))
            problem = None
            kind = sub.choice(['row', 'row_neg', 'row_sorted', 'dict', 'series', 'reused_row', 'dict_columns', 'series_zero',
                               'last_row_follows', 'dict_default_type', 'plain_vs_series', 'plain_vs_series'])
            r = None
            with warnings.catch_warnings():
                warnings.simplefilter('ignore')
                try:
                    a = DataMatrix(length=3)
                    a.x = 1, 2, 3
                    a.y = 'p', 'q', 'r'
                    b = DataMatrix(length=4)
                    b.x = 40, 10, 30, 20
                    b.z = FloatColumn
                    b.z = 4, 1, 3, 2
                    if kind.startswith('row'):
                        src = ops.sort(b, by=b.x) if kind == 'row_sorted' else b
                        i = sub.randrange(len(src))
                        if kind == 'row_neg':
                            i -= len(src)
                        expect_x = list(src.x)[i]
                        expect_z = list(src.z)[i]
                        before = [list(a.x), list(a.y), list(src.x), list(src.z)]
                        r = a << src[i]
                        if list(r.x) != [1, 2, 3, expect_x] or list(r.y) != ['p', 'q', 'r', ''] or \
                                list(r.z)[3] != expect_z or not all(v != v for v in list(r.z)[:3]):
                            problem = 'a << row (%s, i=%d): x=%r y=%r z=%r' % (kind, i, list(r.x), list(r.y), list(r.z))
                        if before != [list(a.x), list(a.y), list(src.x), list(src.z)]:
                            problem = 'a << row changed an operand'
                    elif kind == 'reused_row':
                        # one Row object used twice, with the table it points into changed in between
                        src = ops.sort(b, by=b.x) if sub.random() < 0.5 else b
                        i = sub.randrange(len(src))
                        row = src[i]
                        r0 = a << row
                        src.x[i] = 77
                        src.z[i] = 7.5
                        r = a << row
                        if list(r.x) != [1, 2, 3, 77] or list(r.z)[3] != 7.5:
                            problem = 'a << row after the row\'s table changed: x=%r z=%r (the row reads x=%r)' % (
                                list(r.x), list(r.z), row.x)
                        if list(r0.x)[3] == 77:
                            problem = 'the earlier result of a << row changed with the source table'
                    elif kind == 'last_row_follows':
                        # dm[-1] denotes the last row: after rows before it were deleted (or the table was reordered in
                        # place) a << row still appends one row, holding what the Row itself reads at that moment
                        src = ops.sort(b, by=b.x) if sub.random() < 0.5 else b
                        row = src[-sub.randint(1, 2)]
                        r0 = a << row
                        del src[0]
                        if sub.random() < 0.5:
                            src.x[len(src) - 1] = 55
                        want = (row.x, row.z)
                        r = a << row
                        if len(r) != 4 or (list(r.x)[-1], list(r.z)[-1]) != want:
                            problem = ('a << dm[-k] after del dm[0]: %d rows, last row x=%r z=%r, the Row reads %r'
                                       % (len(r), list(r.x)[-1], list(r.z)[-1], want))
                        if len(r0) != 4:
                            problem = 'a << dm[-k] has %d rows' % len(r0)
                    elif kind == 'dict_default_type':
                        # the dict operand is a table of its own: its columns are MixedColumns whatever the default
                        # column type of the left operand; a name both have must then have the same type (TypeError)
                        dflt = sub.choice([FloatColumn, IntColumn])
                        a2 = DataMatrix(length=2, default_col_type=dflt)
                        a2.v = 1, 2
                        r = a2 << {'cond': ['easy', 'hard']}
                        if type(r.cond).__name__ != 'MixedColumn' or list(r.cond) != ['', '', 'easy', 'hard'] or \
                                [float(x) for x in list(r.v)[:2]] != [1.0, 2.0] or type(r.v) is not dflt:
                            problem = 'a << dict with default_col_type=%s on the left: cond is %s %r, v is %s %r' % (
                                dflt.__name__, type(r.cond).__name__, list(r.cond), type(r.v).__name__, list(r.v))
                        try:
                            r = a2 << {'v': [5]}
                            problem = problem or 'a << {v: ...}: a %s named v on the left and a MixedColumn on the right were accepted' % dflt.__name__
                        except TypeError:
                            pass
                    elif kind == 'dict_columns':
                        # dict values that are column objects of another table count as sequences of their cells
                        c = DataMatrix(length=2)
                        c.i = IntColumn
                        c.i = 7, 8
                        c.f = FloatColumn
                        c.f = 1.5, 2.5
                        r = a << {'x': c.i, 'w': c.f, 'y': c.i}
                        r2 = a << {'x': [7, 8], 'w': [1.5, 2.5], 'y': [7, 8]}
                        got = [(n_, type(col).__name__, list(col)) for n_, col in r.columns]
                        want = [(n_, type(col).__name__, list(col)) for n_, col in r2.columns]
                        if repr(got) != repr(want):
                            problem = 'a << dict of column objects gives %r, of their cells as lists %r' % (got, want)
                    elif kind == 'series_zero':
                        # a series column created with defaultnan=False is padded with zeros (its own empty value)
                        da, db = sub.randint(1, 3), sub.randint(1, 3)
                        a.s = SeriesColumn(depth=da, defaultnan=False)
                        a.s[:, :] = 1.0
                        b.t = SeriesColumn(depth=db, defaultnan=False)
                        b.t[:, :] = 2.0
                        r = a << b
                        ws = np.zeros((7, da))
                        ws[:3] = 1.0
                        wt = np.zeros((7, db))
                        wt[3:] = 2.0
                        if not np.array_equal(np.array(r.s._seq), ws) or not np.array_equal(np.array(r.t._seq), wt):
                            problem = 'zero-default series columns after <<: s=%r t=%r' % (r.s._seq.tolist(), r.t._seq.tolist())
                        r.length = 8
                        if not (np.array(r.s._seq)[7] == 0).all() or not (np.array(r.t._seq)[7] == 0).all():
                            problem = 'a zero-default series column grew with %r' % (np.array(r.s._seq)[7].tolist(),)
                    elif kind == 'plain_vs_series':
                        # one name, a plain column on one side and a SeriesColumn on the other (table, Row or dict as right
                        # operand, either order, empty operands, relatives): TypeError, and neither operand changes
                        from datamatrix import MixedColumn
                        T = sub.choice([MixedColumn, FloatColumn, IntColumn])
                        name = sub.choice(['trace', 'x'])       # 'x' exists on both sides already (Mixed there)
                        depth = sub.randint(1, 4)
                        a[name] = T
                        a[name] = 10, 20, 30
                        if name in b:
                            del b[name]
                        b[name] = SeriesColumn(depth=depth, defaultnan=sub.random() < 0.7)
                        for i in range(4):
                            b[name][i] = [i + 1] * depth
                        if sub.random() < 0.3:
                            b[name].depth = depth + 1
                        if sub.random() < 0.3:
                            b = ops.sort(b, by=b.z)
                        if sub.random() < 0.3:
                            a = a.y != 'q'

                        def snap(t):
                            return [(n_, type(c).__name__, getattr(c, 'depth', None), repr(np.array(c._seq, dtype=object).tolist()),
                                     c.dm is t) for n_, c in t.columns] + [list(t._rowid)]
                        ia, ib = sub.randrange(len(a)), sub.randrange(len(b))
                        attempts = [('plain << series', lambda: a << b), ('series << plain', lambda: b << a),
                                    ('plain << Row with series', lambda: a << b[ib]), ('series << Row with plain', lambda: b << a[ia]),
                                    ('series << dict', lambda: b << {name: [1, 2]}),
                                    ('plain << empty relative with series', lambda: a << b[:0]),
                                    ('empty plain << series', lambda: a[:0] << b), ('empty series << plain', lambda: b[:0] << a),
                                    ('plain << (series << series)', lambda: a << (b << b))]
                        before = snap(a), snap(b)
                        for label, f in attempts:
                            try:
                                res = f()
                                problem = problem or '%s (%s named %s): no exception, result column %s %r' % (
                                    label, T.__name__, name, type(res[name]).__name__, np.array(res[name]._seq, dtype=object).tolist())
                            except TypeError:
                                pass
                            except Exception as e:      # noqa: BLE001
                                problem = problem or '%s (%s named %s) raised %r instead of TypeError' % (label, T.__name__, name, e)
                            if (snap(a), snap(b)) != before:
                                problem = problem or 'the refused %s changed an operand' % label
                                break
                    elif kind == 'dict':
                        r = a << {'x': [7, '8'], 'w': ['u', 2.0]}
                        if list(r.x) != [1, 2, 3, 7, 8] or list(r.w) != ['', '', '', 'u', 2] or list(r.y) != ['p', 'q', 'r', '', '']:
                            problem = 'a << dict: x=%r w=%r y=%r' % (list(r.x), list(r.w), list(r.y))
                    else:
                        da, db = sub.randint(1, 4), sub.randint(1, 4)
                        a.s = SeriesColumn(depth=da)
                        a.s[:, :] = 1.0
                        b.s = SeriesColumn(depth=db)
                        b.s[:, :] = 2.0
                        r = a << b
                        d = max(da, db)
                        want = np.full((7, d), np.nan)
                        want[:3, :da] = 1.0
                        want[3:, :db] = 2.0
                        got = np.array(r.s._seq)
                        if r.s.depth != d or got.shape != want.shape or not np.array_equal(np.isnan(got), np.isnan(want)) \
                                or not np.array_equal(np.nan_to_num(got), np.nan_to_num(want)):
                            problem = 'series depths %d << %d: depth %r, cells %r' % (da, db, r.s.depth, got.tolist())
                        if a.s.depth != da or b.s.depth != db:
                            problem = 'a << b changed the depth of an operand'
                    if problem is None and r is not None and (r._id == a._id or r._id == b._id):
                        problem = 'the result of << shares its family with an operand'
                except Exception as e:      # noqa: BLE001
                    problem = 'probe %s raised %r' % (kind, e)
            out.append({'input': {'probe': kind, 'seed': k}, 'observed': {'problem': problem}, 'pyfail': problem,
                        'oracle': 'true', 'model': 'true', 'nontrivial': True, 'sig': 'probe|%s|%d' % (kind, k),
                        'tags': ['probe', 'probe:' + kind]})
        return out



class C11(ProbeMixin, HistProp):
    id = 'C11'
    props_file = 'theories/Props/C11.v'
    series_share = 0.15
    weights = W(shuffle=20, sample=12, select=10, setcell=12, merge=6, setcolkind=6, setcol=4, slice=3, sort=3,
                setlength=4, concat=2, new=1, getrows=2)
    gen_kw = {'bad_rate': 0.1}
    rule = ('shuffle/sample-heavy histories on tables that were already used as selection keys (position caches '
            'populated), k in 0..len+1, followed by typed-column creation, selections, merges and selection-addressed '
            'writes on the result; the permutation / choice made by `random` is read off the result, validated in Coq '
            '(permutation of the row range / k distinct positions) and the result compared with Spec.step; plus direct '
            'probes for ops.shuffle / random_sample on columns and shuffle_horiz (incl. series columns whose depth was '
            'reduced / grown: source unchanged, also after writes into the result), and 20 seeds must give >= 2 orders')
    trusted_base = CORE_TRUST
    assumptions = CORE_ASSUME + ['"repeated shuffles produce more than one order" is a statement about the RNG: tested, not proved']

    def generate(self, rng, tier):
        cases = super().generate(rng, tier)
        cases.extend(self.direct_probes(rng, 60 if tier == 'quick' else 600))
        return cases

    def direct_probes(self, rng, n):
        world._imports()
        from datamatrix import DataMatrix, FloatColumn, IntColumn, operations as ops
        out = []
        for k in range(n):
            sub = random.Random(rng.randrange(1 << 30))
            kind = sub.choice(['shuffle_col', 'sample_col', 'shuffle_horiz', 'shuffle_horiz_one', 'orders', 'sample_err',
                               'shuffle_col_key', 'sample_col_key', 'shuffle_horiz_series', 'shuffle_horiz_series',
                               'shuffle_series_col', 'sample_series_col'])
            problem = None
            with warnings.catch_warnings():
                warnings.simplefilter('ignore')
                try:
                    random.seed(sub.randrange(1 << 30))
                    dm = DataMatrix(length=5)
                    dm.a = 'a', 'b', 'c', 'd', 'e'
                    dm.b = 'A', 'B', 'C', 'D', 'E'
                    dm.f = FloatColumn
                    dm.f = 1, 2, 3, 4, 5
                    dm.u = 0, 1, 2, 3, 4
                    if sub.random() < 0.6:           # populate position caches
                        s0 = dm.u >= 0
                        _ = s0.a[s0]
                        dm = s0
                    before = [list(dm.a), list(dm.b), list(dm.f), list(dm.u)]
                    if kind == 'shuffle_col':
                        c = ops.shuffle(dm.a if sub.random() < 0.5 else dm.f)
                        src = list(dm.a) if c._seq.__class__ is list else list(dm.f)
                        if sorted(list(c)) != sorted(src) or len(c) != 5:
                            problem = 'shuffle(column) is not a rearrangement: %r' % (list(c),)
                        dm.z = c
                        if list(dm.z) != list(c) or list(dm.u) != before[3]:
                            problem = 'assigning the shuffled column back misaligned rows'
                    elif kind == 'sample_col':
                        kk = sub.randint(0, 5)
                        c = ops.random_sample(dm.a, kk)
                        if len(list(c)) != kk or len(set(c)) != kk or not set(c) <= set(before[0]):
                            problem = 'random_sample(column, %d) -> %r' % (kk, list(c))
                    elif kind == 'shuffle_col_key':
                        # the shuffled column is an ordinary column aligned with the table: used as a selection key it
                        # selects the rows at the positions where IT holds the value, and it can be read / written
                        # through such a selection
                        src_col = sub.choice(['a', 'f', 'u'])
                        c = ops.shuffle(dm[src_col])
                        vals = list(c)
                        v = vals[sub.randrange(5)]
                        sel = (c == v)
                        want = [i for i in range(5) if vals[i] == v]
                        if list(sel.u) != [before[3][i] for i in want] or list(sel.a) != [before[0][i] for i in want]:
                            problem = 'shuffle(column) == %r selected rows u=%r, the value sits at positions %r' % (
                                v, list(sel.u), want)
                        elif list(c[sel]) != [v] * len(want):
                            problem = 'reading the shuffled column through its own selection gave %r' % (list(c[sel]),)
                    elif kind == 'sample_col_key':
                        kk = sub.randint(1, 5)
                        src_col = sub.choice(['a', 'f', 'u'])
                        c = ops.random_sample(dm[src_col], kk)
                        vals = list(c)
                        if len(c._rowid) != len(vals):
                            problem = 'random_sample(column, %d) carries %d row ids for %d values' % (kk, len(c._rowid), len(vals))
                        else:
                            v = vals[sub.randrange(kk)]
                            sel = (c == v)
                            srcvals = before[{'a': 0, 'f': 2, 'u': 3}[src_col]]
                            if [srcvals[before[3].index(u)] for u in sel.u] != [v]:
                                problem = 'sampled column == %r selected the rows u=%r' % (v, list(sel.u))
                    elif kind in ('shuffle_series_col', 'sample_series_col', 'shuffle_horiz_series'):
                        # SeriesColumns shuffled / sampled AS COLUMNS (whole series are rearranged, none duplicated or lost)
                        # and shuffle_horiz over series columns (per row, the series are permuted among the columns); the
                        # buffer of a series column is a view after its depth was reduced, a padded copy after it was
                        # grown: in every such state the SOURCE table is unchanged afterwards, also after a write into
                        # the result
                        from datamatrix import SeriesColumn
                        import numpy as np
                        d0 = dm[:]
                        depth = sub.randint(1, 4)
                        names = ['s', 't'] if kind == 'shuffle_horiz_series' else ['s']
                        if kind == 'shuffle_horiz_series' and sub.random() < 0.3:
                            names.append('w')
                        hist = {}
                        for ci, cn in enumerate(names):
                            how = sub.choice(['plain', 'reduced', 'reduced', 'grown', 'shrunk_grown', 'grown_reduced'])
                            hist[cn] = how
                            start = {'plain': depth, 'reduced': depth + sub.randint(1, 2), 'grown': max(1, depth - 1),
                                     'shrunk_grown': depth + 1, 'grown_reduced': max(1, depth - 1)}[how]
                            d0[cn] = SeriesColumn(depth=start, defaultnan=sub.random() < 0.8)
                            for i in range(5):
                                d0[cn][i] = [(ci + 1) * 100 + 10 * (i + 1) + j for j in range(start)]
                            if how == 'shrunk_grown':
                                d0[cn].depth = max(1, depth - 1)
                            elif how == 'grown_reduced':
                                d0[cn].depth = depth + 2
                            d0[cn].depth = depth
                            if sub.random() < 0.3:
                                d0[cn][sub.randrange(5), 0] = -5.0 - ci       # a write after the depth change

                        def rows_of(col):
                            return [tuple('nan' if x != x else float(x) for x in col[i]) for i in range(len(col))]

                        def source():
                            return [(cn, d0[cn].depth, tuple(d0[cn]._seq.shape), rows_of(d0[cn]), d0[cn].dm is d0) for cn in names] + \
                                [list(d0.a), list(d0.b), list(d0.f), list(d0.u), list(d0._rowid)]
                        src = source()
                        src_rows = {cn: rows_of(d0[cn]) for cn in names}
                        label = '%s, series columns %r of depth %d' % (kind, hist, depth)
                        if kind == 'shuffle_horiz_series':
                            for _rep in range(2):
                                d2 = ops.shuffle_horiz(*[d0[cn] for cn in names])
                                for i in range(5):
                                    got = sorted(repr(rows_of(d2[cn])[i]) for cn in names)
                                    if got != sorted(repr(src_rows[cn][i]) for cn in names):
                                        problem = problem or '%s: row %d of the result holds %r, the source %r' % (
                                            label, i, got, [src_rows[cn][i] for cn in names])
                                if list(d2.a) != before[0] or list(d2.u) != before[3] or list(d2.f) != before[2]:
                                    problem = problem or '%s touched other cells' % label
                                if source() != src:
                                    problem = problem or '%s changed the source table: %r -> %r' % (label, src[:len(names)], source()[:len(names)])
                                d2[names[0]][0] = -77
                                d2.length = 6
                                if source() != src:
                                    problem = problem or '%s: a write into the result changed the source table' % label
                        else:
                            if kind == 'shuffle_series_col':
                                c = ops.shuffle(d0.s)
                                got = rows_of(c)
                                if sorted(map(repr, got)) != sorted(map(repr, src_rows['s'])):
                                    problem = '%s: not a rearrangement of its rows: %r' % (label, got)
                            else:
                                kk = sub.randint(0, 5)
                                c = ops.random_sample(d0.s, kk)
                                got = rows_of(c)
                                if len(got) != kk or len(set(got)) != kk or not set(got) <= set(src_rows['s']):
                                    problem = '%s: random_sample(column, %d) -> %r' % (label, kk, got)
                            if source() != src:
                                problem = problem or '%s changed the source' % label
                            if len(c):
                                c[0] = -77
                                if depth:
                                    c[len(c) - 1, depth - 1] = -78
                            if source() != src:
                                problem = problem or '%s: a write into the result changed the source' % label
                    elif kind == 'sample_err':
                        try:
                            ops.random_sample(dm if sub.random() < 0.5 else dm.a, 6)
                            problem = 'random_sample with k > len did not raise'
                        except ValueError:
                            pass
                    elif kind == 'shuffle_horiz':
                        d2 = ops.shuffle_horiz(dm.a, dm.b)
                        rows = list(zip(d2.a, d2.b))
                        if [sorted(r) for r in rows] != [sorted(r) for r in zip(before[0], before[1])]:
                            problem = 'shuffle_horiz did not permute within rows: %r' % (rows,)
                        if list(d2.f) != before[2] or list(d2.u) != before[3]:
                            problem = 'shuffle_horiz touched other columns or the row order'
                        if not all(c.dm is d2 for _n, c in d2.columns):
                            problem = 'shuffle_horiz result holds a column of another DataMatrix'
                        sel = d2.u != 2
                        if sorted(sel.column_names) != ['a', 'b', 'f', 'u'] or list(sel.u) != [0, 1, 3, 4]:
                            problem = 'selection on the shuffle_horiz result lost columns or rows'
                    elif kind == 'shuffle_horiz_one':
                        # a single column (or a one-column table): nothing to permute, but still a new, independent table
                        one = dm[('a',)] if sub.random() < 0.5 else None
                        d2 = ops.shuffle_horiz(one) if one is not None else ops.shuffle_horiz(dm.a)
                        src = one if one is not None else dm
                        if d2 is src or any(c is src._cols.get(n_) for n_, c in d2._cols.items()):
                            problem = 'shuffle_horiz of a single column returned (part of) its source'
                        else:
                            snap = [list(c) for _n, c in src.columns]
                            d2.a[0] = 'changed'
                            d2.length = len(d2) + 1
                            if snap != [list(c) for _n, c in src.columns] or len(src) != 5:
                                problem = 'editing the result of a single-column shuffle_horiz changed the source'
                    else:
                        orders = set()
                        for sd in range(20):
                            random.seed(sd)
                            orders.add(tuple(ops.shuffle(dm).u))
                        if len(orders) < 2:
                            problem = '20 seeds gave one single order'
                    if problem is None and before != [list(dm.a), list(dm.b), list(dm.f), list(dm.u)]:
                        problem = '%s modified its source' % kind
                except Exception as e:      # noqa: BLE001
                    problem = 'probe %s raised %r' % (kind, e)
            out.append({'input': {'probe': kind, 'seed': k}, 'observed': {'problem': problem}, 'pyfail': problem,
                        'oracle': 'true', 'model': 'true', 'nontrivial': True, 'sig': 'probe|%s|%d' % (kind, k),
                        'tags': ['probe', 'probe:' + kind]})
        return out

