from core_props import C11

PROP = C11()
