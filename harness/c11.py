"""C11: everything core_props.C11 does (shuffle / sample-heavy histories judged by Run/SCore.v + Run/RCore.v, direct
probes) plus the column variants ops.shuffle(col), ops.random_sample(col, k) and ops.shuffle_horiz, which have a Coq
model of their own (Spec/ShuffleCol.v, Model/ShuffleCol.v, Gen/KShuffle.v) and are generated / judged by
harness/c11x.py through Run/SC11x.v and Run/RC11x.v."""
import c11x
from core_props import C11 as _BaseC11


class C11(_BaseC11):
    oracle_vos = list(_BaseC11.oracle_vos) + c11x.ORACLE_VOS
    model_vos = list(_BaseC11.model_vos) + c11x.MODEL_VOS
    oracle_imports = list(_BaseC11.oracle_imports) + c11x.ORACLE_IMPORTS
    model_imports = list(_BaseC11.model_imports) + c11x.MODEL_IMPORTS
    kernel_files = list(_BaseC11.kernel_files) + c11x.KERNEL_FILES
    rule = _BaseC11.rule + (
        '; column variants: ops.shuffle(col) / ops.random_sample(col, k in -1..len+3) / ops.shuffle_horiz(columns | '
        'DataMatrix | malformed argument lists) applied to a table of the pool reached by a 7-16 step history '
        '(selections, sorts, shuffles, samples, selection-addressed writes: caches populated; Mixed / Float / Int '
        'columns, aliases), source (before and after), result, the result used as a selection key and read through that '
        'selection, and the result assigned back are dumped and judged in Coq against Spec/ShuffleCol.v (the '
        'permutation(s) / the choice are read off the result there) and against the L1 model; a case is non-trivial '
        'when the table has two or more rows (shuffle_horiz: two or more chosen columns)')
    trusted_base = list(_BaseC11.trusted_base) + [
        'harness/c11x.py (runner of the column variants; dumps with harness/world.py), Run/SC11x.v (comparators; reads '
        'the permutation off the result), Spec/ShuffleCol.v: hand-written L0 of the column variants',
    ]
    assumptions = list(_BaseC11.assumptions) + [
        'column variants: what `random.shuffle` / `random.sample` do to a sequence (a permutation / k distinct '
        'positions, ValueError for k < 0 or k > len, every swap assigns through Index.__setitem__) is CPython '
        'behaviour, hand-modelled; shuffle_horiz with SeriesColumns and with columns of a relative (same family, '
        'another DataMatrix object) is outside the Coq model (series: Python-side probe); a chosen IntColumn that '
        'would be handed a number beyond int64 is not generated',
    ]

    def generate(self, rng, tier):
        cases = super().generate(rng, tier)
        cases.extend(c11x.generate(rng, tier))
        return cases

    def rerun(self, inp):
        if inp.get('x'):
            return c11x.rerun(inp)
        return super().rerun(inp)

    def shrink_candidates(self, inp):
        if inp.get('x'):
            return c11x.shrink_candidates(inp)
        return super().shrink_candidates(inp)

    def key(self, case):
        if case['input'].get('x'):
            return c11x.key(case)
        return super().key(case)


PROP = C11()
